#!/bin/sh
# selftest.sh [-t tier] <patch>...   detection demo for mutants/*.patch (name: Cnn-slug.patch)
# For each patch: scratch copy of /repo outside /repo and /verif, apply, run the
# repository's own suite there (must still pass), run the property's check
# against the copy (must exit 1 with a VIOLATION line), remove the copy.
cd "$(dirname "$0")" || exit 2
TIER=quick
[ "$1" = "-t" ] && { TIER=$2; shift 2; }
[ $# -gt 0 ] || set -- mutants/*.patch
rc=0
for p in "$@"; do
  id=$(basename "$p" | cut -d- -f1)
  w=$(mktemp -d /tmp/ufw-mut.XXXXXX)
  rsync -a --exclude _build --exclude .git /repo/ "$w/"
  if ! (cd "$w" && patch -p1 -s --no-backup-if-mismatch < "$OLDPWD/$p") >/dev/null 2>&1; then
    echo "MUTANT $p: DOES-NOT-APPLY"; rm -rf "$w"; rc=1; continue
  fi
  suite=$(engine/repo-suite.sh "$w" 2>&1 | tail -1); src=$?
  out=$(UFW_REPO="$w" ./check "$id" "$TIER" 2>&1); crc=$?
  nviol=$(printf '%s\n' "$out" | grep -c '^VIOLATION')
  first=$(printf '%s\n' "$out" | grep -m1 'clause=' | sed 's/^ *//' | cut -c1-150)
  if [ $crc -eq 1 ] && [ "$nviol" -gt 0 ]; then verdict=CAUGHT; else verdict="MISSED(rc=$crc)"; rc=1; fi
  case "$suite" in *"tap_not_ok=0"*) s="suite-passes";; *) s="SUITE-FAILS($suite)";; esac
  echo "MUTANT $p: $verdict $s :: $first"
  rm -rf "$w"
done
exit $rc
