#!/usr/bin/env python3
"""ingest_seed.py <Cnn> [suffix]

Takes a seeded change produced by an independent sub-agent in /tmp/seed-Cnn/seed
(patch<suffix>.diff, demo<suffix>.c, build-demo<suffix>.sh, meta<suffix>.json),
verifies it in a scratch copy of /repo and, if it is a valid seeded change,
files it under /verif/seeded/<Cnn><letter>/ with a verification record:

  1. unpatched copy: demo builds and exits 0
  2. patched copy:   repository suite still passes, demo exits non-zero
  3. every quick check of /verif is run against the patched copy
     (UFW_REPO=<copy>); the record says which checks report a VIOLATION

Nothing is applied to /repo itself.  The scratch copy is removed at the end.
"""
import json
import os
import shutil
import subprocess
import sys
import tempfile

VERIF = os.path.dirname(os.path.dirname(os.path.abspath(__file__)))


def sh(cmd, cwd=None, env=None, timeout=3600):
    r = subprocess.run(cmd, shell=True, cwd=cwd, env=env, capture_output=True, text=True, errors="replace", timeout=timeout)
    return r.returncode, r.stdout + r.stderr


def main():
    pid = sys.argv[1]
    suffix = sys.argv[2] if len(sys.argv) > 2 else ""
    only_checks = sys.argv[3].split(",") if len(sys.argv) > 3 else None
    src = os.environ.get("SEED_SRC", "/tmp/seed-%s/seed" % pid)
    offset = int(os.environ.get("SEED_LETTER_OFFSET", "0"))
    patch = os.path.join(src, "patch%s.diff" % suffix)
    demo = os.path.join(src, "demo%s.c" % suffix)
    bld = os.path.join(src, "build-demo%s.sh" % suffix)
    meta = os.path.join(src, "meta%s.json" % suffix)
    _L = "abcdefghijklmnopqrstuvwxyz"
    letter = (list(_L) + ["z" + c for c in _L])[(int(suffix) - 1 if suffix else 0) + offset]  # after z: za, zb, ... (keeps directory order)
    sid = "%s%s" % (pid, letter)
    stage = None
    dest = os.path.join(VERIF, "seeded", sid)
    if not os.path.exists(patch) and os.path.exists(os.path.join(dest, "patch.diff")):
        # the sub-agent's worktree is gone: re-verify from the filed copy.  The
        # build script names the demo source by its original suffix.
        import re as _re, tempfile as _t
        stage = _t.mkdtemp(prefix="ufw-seedsrc-")
        bs = open(os.path.join(dest, "build-demo.sh")).read()
        mm = _re.search(r"seed/demo(\d*)\.c", bs)
        osuf = mm.group(1) if mm else ""
        shutil.copy(os.path.join(dest, "patch.diff"), os.path.join(stage, "patch%s.diff" % osuf))
        shutil.copy(os.path.join(dest, "demo.c"), os.path.join(stage, "demo%s.c" % osuf))
        shutil.copy(os.path.join(dest, "build-demo.sh"), os.path.join(stage, "build-demo%s.sh" % osuf))
        oldmeta = json.load(open(os.path.join(dest, "meta.json"))).get("agent_meta")
        if oldmeta:
            json.dump(oldmeta, open(os.path.join(stage, "meta%s.json" % osuf), "w"))
        src = stage
        suffix = osuf
        patch = os.path.join(src, "patch%s.diff" % suffix)
        demo = os.path.join(src, "demo%s.c" % suffix)
        bld = os.path.join(src, "build-demo%s.sh" % suffix)
        meta = os.path.join(src, "meta%s.json" % suffix)
    for f in (patch, demo, bld):
        if not os.path.exists(f):
            print("missing", f)
            sys.exit(2)
    os.makedirs(dest, exist_ok=True)
    for a, b in ((patch, "patch.diff"), (demo, "demo.c"), (bld, "build-demo.sh")):
        if os.path.realpath(a) != os.path.realpath(os.path.join(dest, b)):
            shutil.copy(a, os.path.join(dest, b))
    agent_meta = {}
    if os.path.exists(meta):
        try:
            agent_meta = json.load(open(meta))
        except Exception as e:
            agent_meta = {"unparsable": str(e)}

    w = tempfile.mkdtemp(prefix="ufw-seed-")
    rec = {"id": sid, "property": pid, "agent_meta": agent_meta}
    try:
        sh("rsync -a --exclude _build --exclude .git /repo/ %s/" % w)
        os.makedirs(os.path.join(w, "seed"), exist_ok=True)
        shutil.copy(demo, os.path.join(w, "seed", os.path.basename(demo)))
        shutil.copy(bld, os.path.join(w, "seed", os.path.basename(bld)))
        # the demo build scripts refer to _build/include: configure + build first
        rc, out = sh("%s/engine/repo-suite.sh %s" % (VERIF, w))
        rec["suite_unpatched"] = out.strip().splitlines()[-1] if out.strip() else ""
        if rc != 0:
            rec["verdict"] = "invalid: suite fails on the unpatched copy"
            return rec
        exe = "seed/demo%s" % suffix
        rc, out = sh("sh %s" % os.path.join("seed", os.path.basename(bld)), cwd=w)
        if rc != 0 or not os.path.exists(os.path.join(w, exe)):
            rec["verdict"] = "invalid: demo does not build on the unpatched copy"
            rec["detail"] = out[-1500:]
            return rec
        rc, out = sh("./%s" % exe, cwd=w, timeout=120)
        rec["demo_unpatched_rc"] = rc
        if rc != 0:
            rec["verdict"] = "invalid: demo fails on the unpatched copy"
            rec["detail"] = out[-1500:]
            return rec
        rc, out = sh("patch -p1 --no-backup-if-mismatch < %s" % patch, cwd=w)
        if rc != 0:
            rec["verdict"] = "invalid: patch does not apply to /repo HEAD"
            rec["detail"] = out[-1500:]
            return rec
        rc, out = sh("%s/engine/repo-suite.sh %s" % (VERIF, w))
        rec["suite_patched"] = out.strip().splitlines()[-1] if out.strip() else ""
        if rc != 0:
            rec["verdict"] = "invalid: the repository suite fails with the change"
            return rec
        os.unlink(os.path.join(w, exe))
        rc, out = sh("sh %s" % os.path.join("seed", os.path.basename(bld)), cwd=w)
        if rc != 0:
            rec["verdict"] = "invalid: demo does not build on the patched copy"
            rec["detail"] = out[-1500:]
            return rec
        try:
            rc, out = sh("./%s" % exe, cwd=w, timeout=120)
        except subprocess.TimeoutExpired:
            rc, out = 124, "demo timed out (hang)"
        rec["demo_patched_rc"] = rc
        rec["demo_patched_output"] = out[-600:]
        if rc == 0:
            rec["verdict"] = "invalid: demo passes on the patched copy"
            return rec
        # run the checks
        sys.path.insert(0, os.path.join(VERIF, "engine"))
        from checks import CHECKS
        env = dict(os.environ)
        env["UFW_REPO"] = w
        caught = {}
        order = [pid] + [c for c in sorted(CHECKS) if c != pid]
        if only_checks:
            order = only_checks
        for c in order:
            rc, out = sh("./check %s quick" % c, cwd=VERIF, env=env, timeout=900)
            first = [l.strip() for l in out.splitlines() if "clause=" in l][:1]
            caught[c] = {"rc": rc, "first": first[0][:200] if first else ""}
        rec["quick_checks"] = caught
        rec["caught_by"] = [c for c in order if caught[c]["rc"] == 1]
        rec["broken_checks"] = [c for c in order if caught[c]["rc"] not in (0, 1)]
        rec["verdict"] = "valid"
        return rec
    finally:
        shutil.rmtree(w, ignore_errors=True)
        if stage:
            shutil.rmtree(stage, ignore_errors=True)
        shutil.rmtree(os.path.join(VERIF, "build", "alt", os.path.basename(w)), ignore_errors=True)
        with open(os.path.join(dest, "meta.json"), "w") as f:
            json.dump(rec, f, indent=1)
        print(json.dumps({k: rec.get(k) for k in ("id", "verdict", "caught_by", "broken_checks", "demo_patched_rc")}))


if __name__ == "__main__":
    main()
