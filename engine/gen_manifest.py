#!/usr/bin/env python3
"""Regenerates /verif/MANIFEST.json from engine/checks.py and properties.jsonl."""
import json, os, sys
VERIF = os.path.dirname(os.path.dirname(os.path.abspath(__file__)))
sys.path.insert(0, os.path.join(VERIF, "engine"))
from checks import CHECKS
props = [json.loads(l)["id"] for l in open(os.path.join(VERIF, "properties.jsonl"))]
checks, na = [], []
for pid in props:
    c = CHECKS.get(pid)
    if c is None or c.get("disabled"):
        na.append({"property_id": pid, "reason": (c or {}).get("disabled", "check not built yet (work in progress; see DESIGN.md section 3 for the planned harness)")})
        continue
    checks.append({
        "property_id": pid,
        "quick_cmd": "./check %s quick" % pid,
        "thorough_cmd": "./check %s thorough" % pid,
        "evidence_file": "/verif/evidence/%s.json" % pid,
        "replay_cmd_template": "./check replay {path}",
        "engine": "mc",
        "level_claimed": {"category": c["level"], "text": c.get("level_text", c.get("rule", "")),
                          "design_ref": "DESIGN.md section 3, %s" % pid},
        "level_note": "; ".join(c.get("assumptions", [])) or "small-scope bounds as stated in the evidence file",
        "technique": c.get("technique", "bounded exhaustive exploration of the real implementation (explicit-state / stateless enumeration) against a reference model"),
    })
m = {
    "version": 1,
    "setup_cmd": "./check setup",
    "hooks": {"guard": "UFW_VERIF", "enable": "checks compile /repo/src/*.c directly with clang -DUFW_VERIF -fsanitize=address,...; no source hooks exist, the define guards nothing in /repo",
              "baseline_off_cmd": "cmake --build /repo/_build && ctest --test-dir /repo/_build -j8 --timeout 900",
              "source_commits": [], "add_only": True},
    "engines": [{"name": "mc", "path": "engine/", "serves_properties": [c["property_id"] for c in checks],
                 "kind_free_text": "hand-written explicit-state / bounded-exhaustive explorer (engine/mc.h runtime inside each harness, engine/run.py orchestrator: build from /repo working tree under ASan+UBSan, shard over cores, attribute crashes/hangs to the case in flight, replay-confirm, known-finding filter, evidence)"}],
    "checks": checks,
    "not_applicable": na,
    "notes": "Exit codes of every check: 0 held on everything explored, 1 VIOLATION, 2 infrastructure (build/anchor/vacuity). Fixes of genuine defects are 'fix:' commits in /repo, listed in known-findings.json.",
}
json.dump(m, open(os.path.join(VERIF, "MANIFEST.json"), "w"), indent=1)
print("checks:", len(checks), "not_applicable:", len(na))
