"""Per-property configuration, one file per property under engine/checks.d/:
which harnesses decide a property, which ufw sources they are linked with, how
many shards, vacuity guards.  See HARNESS-GUIDE.md for the keys."""
import glob
import os
import runpy

CHECKS = {}
for _p in sorted(glob.glob(os.path.join(os.path.dirname(os.path.abspath(__file__)), "checks.d", "C*.py"))):
    CHECKS[os.path.basename(_p)[:-3]] = runpy.run_path(_p)["CHECK"]
