#!/usr/bin/env python3
"""add_finding.py <property> <clause> <match-regex> <status> <what>   (status: open | fixed:<commit>)"""
import json, sys
p = '/verif/known-findings.json'
d = json.load(open(p))
prop, clause, match, status, what = sys.argv[1:6]
e = {"property": prop, "clause": clause, "match": match, "what": what, "status": status if status == "open" else "fixed: " + status.split(":", 1)[1].strip()}
if status != "open":
    e["line"] = "fixed: property=%s %s %s" % (prop, status.split(":", 1)[1].strip(), what)
d["findings"].append(e)
json.dump(d, open(p, "w"), indent=1)
print("ok", len(d["findings"]))
