/*
 * mc.h -- C runtime shared by all harnesses under /verif/harness.
 *
 * A harness is one closed driver around real ufw objects.  It enumerates a
 * finite space of behaviours ("cases": E-SPACE odometers, or E-STATE
 * transitions of an explicit-state search), runs every one of them on the
 * implementation, compares with a reference model and reports through this
 * runtime.  The runtime owns: sharding, case numbering, the case-in-flight page
 * (so that a sanitizer abort or a hang can be attributed by the orchestrator),
 * violation records, coverage counters, the state set for explicit-state
 * search and replay of one case (--only).
 *
 * Everything is static: a harness is a single translation unit that includes
 * this file, so that the build is "clang harness.c <ufw sources>".
 */
#ifndef VERIF_MC_H
#define VERIF_MC_H

#include <fcntl.h>
#include <regex.h>
#include <signal.h>
#include <stdarg.h>
#include <stdbool.h>
#include <stdint.h>
#include <stdio.h>
#include <stdlib.h>
#include <string.h>
#include <sys/mman.h>
#include <sys/time.h>
#include <unistd.h>

#define MC_DESC_MAX 400
#define MC_MAX_OUTCOMES 256
#define MC_MAX_KNOWN 64
#define MC_VIOLATION_CAP 8
#define MC_HANG_TICKS 20

struct mc_inflight {
    volatile int64_t idx;
    volatile int64_t started;
    char desc[MC_DESC_MAX];
};

struct mc_known {
    char clause[64];
    regex_t re;
};

static struct {
    /* configuration */
    int tier;            /* 0 quick, 1 thorough */
    int shard, nshards;
    int64_t only;        /* -1: all */
    int64_t skip;        /* run only cases with idx >= skip */
    int partition;       /* >= 0: cases belong to shard (partition % nshards) instead of idx % nshards */
    bool verbose;
    FILE *out;
    struct mc_inflight *inflight;
    struct mc_inflight inflight_local;
    struct mc_known known[MC_MAX_KNOWN];
    int nknown;
    /* running state */
    int64_t idx;         /* index of the next case to be numbered */
    int64_t cur;         /* index of the case being run */
    bool cur_failed;
    bool active;         /* the case just numbered is run/recorded by this process */
    char desc[MC_DESC_MAX];
    /* counters */
    int64_t evaluations, nontrivial, transitions, states, violations,
        known_hits;
    const char *outcomes[MC_MAX_OUTCOMES];
    int64_t outcome_count[MC_MAX_OUTCOMES];
    int noutcomes;
    char samples[3][MC_DESC_MAX];
    int64_t sample_every;
    char caps[256];
    /* hang detection */
    volatile int64_t tick_idx;
    volatile int tick_same;
    uint64_t obs;        /* observation digest of the replayed case */
} mc;

static inline bool mc_thorough(void) { return mc.tier == 1; }

/* ---- JSON string escaping ------------------------------------------------ */
static void
mc_json_str(FILE *f, const char *s)
{
    fputc('"', f);
    for (; *s; ++s) {
        unsigned char c = (unsigned char)*s;
        if (c == '"' || c == '\\')
            fprintf(f, "\\%c", c);
        else if (c < 0x20 || c >= 0x7f)
            fprintf(f, "\\u%04x", c);
        else
            fputc(c, f);
    }
    fputc('"', f);
}

/* ---- observation log (replay) -------------------------------------------- */
static void
mc_log(const char *fmt, ...)
{
    if (!mc.verbose || !mc.active)
        return;
    va_list ap;
    va_start(ap, fmt);
    vprintf(fmt, ap);
    va_end(ap);
    fputc('\n', stdout);
}

static void
mc_log_hex(const char *label, const void *p, size_t n)
{
    if (!mc.verbose || !mc.active)
        return;
    printf("%s[%zu]:", label, n);
    for (size_t i = 0; i < n; ++i)
        printf(" %02x", ((const unsigned char *)p)[i]);
    fputc('\n', stdout);
}

/* ---- hang watchdog ------------------------------------------------------- */
static void
mc_tick(int sig)
{
    (void)sig;
    /* Progress = the case counter moved.  It also moves while cases are only
     * numbered (other shards' cases, the prefix before --skip / --only), so a
     * long enumeration up to a late case is not mistaken for a hang; inside a
     * case it stands still. */
    const int64_t now = mc.idx;
    if (mc.tick_idx == now) {
        if (++mc.tick_same >= MC_HANG_TICKS) {
            static const char msg[] = "MC-HANG\n";
            ssize_t r = write(2, msg, sizeof(msg) - 1);
            (void)r;
            _exit(88);
        }
    } else {
        mc.tick_idx = now;
        mc.tick_same = 0;
    }
}

/* A case that legitimately needs more than MC_HANG_TICKS seconds (one call over
 * gigabytes) states its own budget right after mc_case(). */
static inline void
mc_budget(int seconds)
{
    mc.tick_idx = mc.idx; /* this order: see mc_tick() */
    mc.tick_same = MC_HANG_TICKS - seconds;
}

/* ---- set-up --------------------------------------------------------------- */
static void
mc_init(int argc, char **argv)
{
    mc.tier = 0;
    mc.shard = 0;
    mc.nshards = 1;
    mc.only = -1;
    mc.skip = 0;
    mc.partition = -1;
    mc.out = NULL;
    mc.inflight = &mc.inflight_local;
    mc.cur = -1;
    mc.tick_idx = -2;
    const char *knownfile = NULL;
    for (int i = 1; i < argc; ++i) {
        if (!strcmp(argv[i], "--tier") && i + 1 < argc) {
            mc.tier = !strcmp(argv[++i], "thorough");
        } else if (!strcmp(argv[i], "--shard") && i + 1 < argc) {
            sscanf(argv[++i], "%d/%d", &mc.shard, &mc.nshards);
        } else if (!strcmp(argv[i], "--only") && i + 1 < argc) {
            mc.only = atoll(argv[++i]);
            mc.verbose = true;
        } else if (!strcmp(argv[i], "--skip") && i + 1 < argc) {
            mc.skip = atoll(argv[++i]);
        } else if (!strcmp(argv[i], "--out") && i + 1 < argc) {
            mc.out = fopen(argv[++i], "a");
        } else if (!strcmp(argv[i], "--known") && i + 1 < argc) {
            knownfile = argv[++i];
        } else if (!strcmp(argv[i], "--inflight") && i + 1 < argc) {
            int fd = open(argv[++i], O_RDWR | O_CREAT, 0644);
            if (fd >= 0 && ftruncate(fd, sizeof(struct mc_inflight)) == 0) {
                void *p = mmap(NULL, sizeof(struct mc_inflight),
                               PROT_READ | PROT_WRITE, MAP_SHARED, fd, 0);
                if (p != MAP_FAILED)
                    mc.inflight = p;
            }
        } else {
            fprintf(stderr, "mc: unknown argument %s\n", argv[i]);
            exit(2);
        }
    }
    if (mc.out == NULL)
        mc.out = stdout;
    if (mc.only >= 0) {
        /* replay: every shard filter is off */
        mc.shard = 0;
        mc.nshards = 1;
        mc.skip = 0;
    }
    mc.inflight->idx = -1;
    if (knownfile != NULL) {
        /* lines: clause<TAB>regex */
        FILE *f = fopen(knownfile, "r");
        char line[1024];
        while (f && fgets(line, sizeof line, f) && mc.nknown < MC_MAX_KNOWN) {
            char *tab = strchr(line, '\t');
            if (!tab)
                continue;
            *tab++ = 0;
            tab[strcspn(tab, "\n")] = 0;
            struct mc_known *k = &mc.known[mc.nknown];
            snprintf(k->clause, sizeof k->clause, "%s", line);
            if (regcomp(&k->re, tab, REG_EXTENDED | REG_NOSUB) == 0)
                mc.nknown++;
        }
        if (f)
            fclose(f);
    }
    struct sigaction sa;
    memset(&sa, 0, sizeof sa);
    sa.sa_handler = mc_tick;
    sigaction(SIGALRM, &sa, NULL);
    struct itimerval it = { { 1, 0 }, { 1, 0 } };
    setitimer(ITIMER_REAL, &it, NULL);
}

/* ---- cases ----------------------------------------------------------------- */

/* Number the next case.  Returns true when this process has to run it; the
 * descriptor is formatted only then. */
static bool mc_case(const char *fmt, ...) __attribute__((format(printf, 1, 2)));
static bool
mc_case(const char *fmt, ...)
{
    const int64_t i = mc.idx++;
    mc.active = false;
    if (mc.only >= 0) {
        if (i != mc.only)
            return false;
    } else if (i < mc.skip || ((mc.partition >= 0 ? mc.partition : i) % mc.nshards) != mc.shard) {
        return false;
    }
    mc.active = true;
    va_list ap;
    va_start(ap, fmt);
    vsnprintf(mc.desc, sizeof mc.desc, fmt, ap);
    va_end(ap);
    mc.cur = i;
    mc.cur_failed = false;
    mc.inflight->idx = i;
    memcpy(mc.inflight->desc, mc.desc, sizeof mc.desc);
    mc.evaluations++;
    if (mc.verbose)
        printf("CASE %lld %s\n", (long long)i, mc.desc);
    /* samples: first, a middle one, last */
    if (mc.samples[0][0] == 0)
        memcpy(mc.samples[0], mc.desc, sizeof mc.desc);
    if ((mc.evaluations & (mc.evaluations - 1)) == 0)
        memcpy(mc.samples[1], mc.desc, sizeof mc.desc);
    return true;
}

/* Cheap test used by odometers that want to skip building a case. */
static inline bool
mc_would_run(void)
{
    const int64_t i = mc.idx;
    if (mc.only >= 0)
        return i == mc.only;
    return !(i < mc.skip || ((mc.partition >= 0 ? mc.partition : i) % mc.nshards) != mc.shard);
}

/* Explicit-state searches cannot be split case by case (every process would
 * have to redo the whole search).  They are split by partition instead: all
 * cases numbered while partition p is set belong to shard p % nshards, and
 * case numbers restart at p << 40 so that they do not depend on which other
 * partitions a process explored.  mc_partition(-1) returns to per-case
 * sharding.  Returns true when this process has to explore the partition. */
static bool
mc_partition(int p, int64_t index_base)
{
    mc.partition = p;
    mc.idx = index_base << 40;
    if (p < 0)
        return true;
    if (mc.only >= 0)
        return (mc.only >> 40) == index_base;
    return (p % mc.nshards) == mc.shard;
}

static inline void mc_skip_case(void) { mc.idx++; }

static void mc_finish(bool exhaustive, const char *bound);

static void mc_fail(const char *clause, const char *fmt, ...)
    __attribute__((format(printf, 2, 3)));
static void
mc_fail(const char *clause, const char *fmt, ...)
{
    char detail[600];
    va_list ap;
    va_start(ap, fmt);
    vsnprintf(detail, sizeof detail, fmt, ap);
    va_end(ap);
    if (!mc.active)
        return; /* explicit-state searches execute transitions that belong to
                   another shard / are not the replayed one: not recorded */
    if (mc.verbose)
        printf("FAIL %s: %s\n", clause, detail);
    if (mc.cur_failed)
        return; /* one record per case: the first oracle sentence that failed */
    mc.cur_failed = true;
    bool known = false;
    for (int k = 0; k < mc.nknown; ++k) {
        if (!strcmp(mc.known[k].clause, clause)
            && regexec(&mc.known[k].re, mc.desc, 0, NULL, 0) == 0) {
            known = true;
            break;
        }
    }
    if (known) {
        if (mc.known_hits++ >= 4)
            return;
    } else {
        mc.violations++;
    }
    fprintf(mc.out, "{\"kind\":\"violation\",\"known\":%s,\"idx\":%lld,\"clause\":",
            known ? "true" : "false", (long long)mc.cur);
    mc_json_str(mc.out, clause);
    fprintf(mc.out, ",\"desc\":");
    mc_json_str(mc.out, mc.desc);
    fprintf(mc.out, ",\"detail\":");
    mc_json_str(mc.out, detail);
    fprintf(mc.out, "}\n");
    fflush(mc.out);
    if (!known && mc.violations >= MC_VIOLATION_CAP && mc.only < 0) {
        snprintf(mc.caps, sizeof mc.caps, "stopped after %d violations",
                 MC_VIOLATION_CAP);
        mc_finish(false, "violation cap");
        exit(3);
    }
}

/* Close the current case: was it non-trivial by the harness's rule, and which
 * observation class did it fall into (a string literal). */
static void
mc_end(bool nontrivial, const char *outcome)
{
    if (!mc.active)
        return;
    if (nontrivial)
        mc.nontrivial++;
    int k;
    for (k = 0; k < mc.noutcomes; ++k)
        if (mc.outcomes[k] == outcome)
            break;
    if (k == mc.noutcomes) {
        for (k = 0; k < mc.noutcomes; ++k)
            if (!strcmp(mc.outcomes[k], outcome))
                break;
    }
    if (k == mc.noutcomes && mc.noutcomes < MC_MAX_OUTCOMES)
        mc.outcomes[mc.noutcomes++] = outcome;
    if (k < MC_MAX_OUTCOMES)
        mc.outcome_count[k]++;
    memcpy(mc.samples[2], mc.desc, sizeof mc.desc);
    if (mc.verbose)
        printf("END nontrivial=%d outcome=%s failed=%d\n", nontrivial, outcome,
               mc.cur_failed);
}

static inline void mc_trans(int64_t n) { if (mc.active) mc.transitions += n; }

static void
mc_cap(const char *fmt, ...)
{
    size_t l = strlen(mc.caps);
    if (l && l + 2 < sizeof mc.caps) {
        mc.caps[l++] = ';';
        mc.caps[l] = 0;
    }
    va_list ap;
    va_start(ap, fmt);
    vsnprintf(mc.caps + l, sizeof mc.caps - l, fmt, ap);
    va_end(ap);
}

static void
mc_finish(bool exhaustive, const char *bound)
{
    FILE *f = mc.out;
    fprintf(f, "{\"kind\":\"summary\",\"shard\":%d,\"nshards\":%d,\"cases_numbered\":%lld,"
               "\"evaluations\":%lld,\"nontrivial\":%lld,\"transitions\":%lld,"
               "\"states\":%lld,\"violations\":%lld,\"known_hits\":%lld,\"exhaustive\":%s,",
            mc.shard, mc.nshards, (long long)mc.idx, (long long)mc.evaluations,
            (long long)mc.nontrivial, (long long)mc.transitions,
            (long long)mc.states, (long long)mc.violations,
            (long long)mc.known_hits,
            (exhaustive && mc.caps[0] == 0) ? "true" : "false");
    fprintf(f, "\"bound\":");
    mc_json_str(f, bound);
    fprintf(f, ",\"caps\":");
    mc_json_str(f, mc.caps);
    fprintf(f, ",\"outcomes\":{");
    for (int k = 0; k < mc.noutcomes; ++k) {
        if (k)
            fputc(',', f);
        mc_json_str(f, mc.outcomes[k]);
        fprintf(f, ":%lld", (long long)mc.outcome_count[k]);
    }
    fprintf(f, "},\"samples\":[");
    int n = 0;
    for (int k = 0; k < 3; ++k) {
        if (mc.samples[k][0] == 0)
            continue;
        if (n++)
            fputc(',', f);
        mc_json_str(f, mc.samples[k]);
    }
    fprintf(f, "]}\n");
    fflush(f);
    mc.inflight->idx = -1;
}

/* Infrastructure failure: reference model disagrees with its anchors, vacuity
 * guard failed, harness cannot be set up.  Never a VIOLATION. */
static void mc_broken(const char *fmt, ...) __attribute__((noreturn));
static void
mc_broken(const char *fmt, ...)
{
    va_list ap;
    va_start(ap, fmt);
    fprintf(stderr, "HARNESS-BROKEN: ");
    vfprintf(stderr, fmt, ap);
    fputc('\n', stderr);
    va_end(ap);
    exit(2);
}

#define MC_ANCHOR(cond, ...)                                                   \
    do {                                                                       \
        if (!(cond))                                                           \
            mc_broken("anchor " #cond " " __VA_ARGS__);                        \
    } while (0)

/* ---- state set for explicit-state search ----------------------------------
 * Keys are arbitrary byte strings (the canonical state).  The hash only picks
 * a bucket; membership is decided by full comparison.  States are numbered in
 * insertion order, which for a queue-driven search is breadth-first order, so
 * the set doubles as the BFS queue.  parent/op give the shortest path. */
struct mc_set {
    unsigned char *arena;
    size_t arena_used, arena_cap;
    size_t *off;      /* offset of key i in arena */
    uint32_t *len;
    int64_t *parent;
    int32_t *op;
    size_t n, cap;
    int64_t *bucket;  /* open addressing, -1 empty */
    size_t nbucket;
};

static uint64_t
mc_hash(const void *p, size_t n)
{
    const unsigned char *s = p;
    uint64_t h = 1469598103934665603ull;
    for (size_t i = 0; i < n; ++i) {
        h ^= s[i];
        h *= 1099511628211ull;
    }
    return h ^ (h >> 29);
}

static void
mc_set_init(struct mc_set *s)
{
    memset(s, 0, sizeof *s);
    s->nbucket = 1u << 12;
    s->bucket = malloc(s->nbucket * sizeof *s->bucket);
    for (size_t i = 0; i < s->nbucket; ++i)
        s->bucket[i] = -1;
}

static void
mc_set_free(struct mc_set *s)
{
    free(s->arena);
    free(s->off);
    free(s->len);
    free(s->parent);
    free(s->op);
    free(s->bucket);
    memset(s, 0, sizeof *s);
}

static void
mc_set_rehash(struct mc_set *s)
{
    free(s->bucket);
    s->nbucket *= 4;
    s->bucket = malloc(s->nbucket * sizeof *s->bucket);
    for (size_t i = 0; i < s->nbucket; ++i)
        s->bucket[i] = -1;
    for (size_t i = 0; i < s->n; ++i) {
        size_t b = mc_hash(s->arena + s->off[i], s->len[i]) & (s->nbucket - 1);
        while (s->bucket[b] >= 0)
            b = (b + 1) & (s->nbucket - 1);
        s->bucket[b] = (int64_t)i;
    }
}

/* returns true if the key is new; *id receives its number either way */
static bool
mc_set_add(struct mc_set *s, const void *key, size_t len, int64_t parent,
           int op, int64_t *id)
{
    size_t b = mc_hash(key, len) & (s->nbucket - 1);
    while (s->bucket[b] >= 0) {
        size_t i = (size_t)s->bucket[b];
        if (s->len[i] == len && memcmp(s->arena + s->off[i], key, len) == 0) {
            if (id)
                *id = (int64_t)i;
            return false;
        }
        b = (b + 1) & (s->nbucket - 1);
    }
    if (s->n == s->cap) {
        s->cap = s->cap ? s->cap * 2 : 1024;
        s->off = realloc(s->off, s->cap * sizeof *s->off);
        s->len = realloc(s->len, s->cap * sizeof *s->len);
        s->parent = realloc(s->parent, s->cap * sizeof *s->parent);
        s->op = realloc(s->op, s->cap * sizeof *s->op);
    }
    if (s->arena_used + len > s->arena_cap) {
        s->arena_cap = s->arena_cap ? s->arena_cap * 2 : 1 << 16;
        while (s->arena_used + len > s->arena_cap)
            s->arena_cap *= 2;
        s->arena = realloc(s->arena, s->arena_cap);
    }
    memcpy(s->arena + s->arena_used, key, len);
    s->off[s->n] = s->arena_used;
    s->len[s->n] = (uint32_t)len;
    s->parent[s->n] = parent;
    s->op[s->n] = op;
    s->arena_used += len;
    s->bucket[b] = (int64_t)s->n;
    if (id)
        *id = (int64_t)s->n;
    s->n++;
    if (s->n * 2 > s->nbucket)
        mc_set_rehash(s);
    return true;
}

static inline const unsigned char *
mc_set_key(const struct mc_set *s, int64_t id)
{
    return s->arena + s->off[id];
}

/* Writes the op path from the initial state to state id as "a.b.c" */
static void
mc_set_path(const struct mc_set *s, int64_t id, char *buf, size_t n)
{
    int ops[256];
    int k = 0;
    while (id >= 0 && s->parent[id] >= 0 && k < 256) {
        ops[k++] = s->op[id];
        id = s->parent[id];
    }
    size_t l = 0;
    buf[0] = 0;
    while (k-- > 0 && l + 12 < n)
        l += (size_t)snprintf(buf + l, n - l, "%d%s", ops[k], k ? "." : "");
}

/* ---- canaried exact-size heap blocks ---------------------------------------
 * ASan red zones catch accesses outside a malloc'd block; these helpers just
 * make the intent readable. */
static inline void *
mc_exact(size_t n)
{
    void *p = malloc(n); /* ASan: malloc(0) is a valid, fully poisoned block */
    if (!p)
        mc_broken("out of memory");
    return p;
}

static inline void *
mc_exact_copy(const void *src, size_t n)
{
    void *p = mc_exact(n);
    if (n)
        memcpy(p, src, n);
    return p;
}

#endif /* VERIF_MC_H */
