#!/usr/bin/env python3
"""seed_recheck.py [-j N] [ids...] -- re-run the quick check(s) against every filed seeded change.

For each /verif/seeded/<id>/ (whose validity -- demo passes unpatched, repository suite passes
patched, demo fails patched -- was established by ingest_seed.py when it was filed): make a scratch
copy of /repo's working tree, apply patch.diff, run the property's own quick check against the copy;
if that does not report a VIOLATION, run every other quick check.  Updates `caught_by`,
`broken_checks` and `quick_checks` in meta.json (nothing else) and prints one line per seed.
Scratch copies and their build output are removed.
"""
import json
import os
import shutil
import subprocess
import sys
import tempfile
from concurrent.futures import ThreadPoolExecutor

VERIF = os.path.dirname(os.path.dirname(os.path.abspath(__file__)))
sys.path.insert(0, os.path.join(VERIF, "engine"))
from checks import CHECKS  # noqa: E402


def sh(cmd, cwd=None, env=None, timeout=3600):
    r = subprocess.run(cmd, shell=True, cwd=cwd, env=env, capture_output=True, text=True, errors="replace", timeout=timeout)
    return r.returncode, r.stdout + r.stderr


def one(sid, jobs):
    d = os.path.join(VERIF, "seeded", sid)
    pid = sid[:3]
    meta = json.load(open(os.path.join(d, "meta.json")))
    w = tempfile.mkdtemp(prefix="ufw-rechk-")
    try:
        sh("rsync -a --exclude _build --exclude .git /repo/ %s/" % w)
        rc, out = sh("patch -p1 --no-backup-if-mismatch -s < %s" % os.path.join(d, "patch.diff"), cwd=w)
        if rc != 0:
            return sid, "PATCH-DOES-NOT-APPLY", [], []
        env = dict(os.environ)
        env["UFW_REPO"] = w
        env["VERIF_JOBS"] = str(jobs)
        res = {}

        def run(c):
            rc, out = sh("./check %s quick" % c, cwd=VERIF, env=env, timeout=1200)
            first = [l.strip() for l in out.splitlines() if "clause=" in l][:1]
            res[c] = {"rc": rc, "first": first[0][:200] if first else ""}
            return rc

        order = [pid]
        if run(pid) != 1:
            for c in sorted(CHECKS):
                if c != pid:
                    order.append(c)
                    run(c)
        meta["quick_checks"] = res
        meta["caught_by"] = [c for c in order if res[c]["rc"] == 1]
        meta["broken_checks"] = [c for c in order if res[c]["rc"] not in (0, 1)]
        with open(os.path.join(d, "meta.json"), "w") as f:
            json.dump(meta, f, indent=1)
        return sid, meta.get("verdict"), meta["caught_by"], meta["broken_checks"]
    finally:
        shutil.rmtree(w, ignore_errors=True)
        shutil.rmtree(os.path.join(VERIF, "build", "alt", os.path.basename(w)), ignore_errors=True)


def main():
    args = sys.argv[1:]
    par = 1
    if args and args[0] == "-j":
        par = int(args[1])
        args = args[2:]
    ids = args or sorted(x for x in os.listdir(os.path.join(VERIF, "seeded")) if x.startswith("C"))
    jobs = max(2, (os.cpu_count() or 4) // par)
    with ThreadPoolExecutor(par) as ex:
        for sid, verdict, caught, broken in ex.map(lambda s: one(s, jobs), ids):
            print(sid, verdict, "caught_by=%s" % caught, ("BROKEN=%s" % broken) if broken else "", flush=True)


if __name__ == "__main__":
    main()
