#!/bin/sh
# ingest_all.sh <Cnn> [checks]  -- ingest every deliverable of ${SEED_SRC:-/tmp/seed-Cnn/seed}; default: run only the property's own check
# round 2: SEED_SRC=/tmp/seed2-Cnn/seed SEED_LETTER_OFFSET=<number of round-1 seeds of Cnn> ingest_all.sh Cnn
id=$1; checks=${2:-$1}
cd /verif
for p in ${SEED_SRC:-/tmp/seed-$id/seed}/patch*.diff; do
  [ -f "$p" ] || continue
  s=$(basename "$p" .diff | sed 's/^patch//')
  python3 engine/ingest_seed.py "$id" "$s" "$checks" 2>&1 | tail -1
done
