#!/bin/sh
# ingest_all.sh <Cnn> [checks]  -- ingest every deliverable of /tmp/seed-Cnn/seed; default: run only the property's own check
id=$1; checks=${2:-$1}
cd /verif
for p in /tmp/seed-$id/seed/patch*.diff; do
  [ -f "$p" ] || continue
  s=$(basename "$p" .diff | sed 's/^patch//')
  python3 engine/ingest_seed.py "$id" "$s" "$checks" 2>&1 | tail -1
done
