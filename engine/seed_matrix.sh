#!/bin/sh
# seed_matrix.sh [ids...] -- re-verify seeded changes and run EVERY quick check against each (full detection matrix)
cd /verif
[ $# -gt 0 ] || set -- $(ls seeded | grep -v RESULTS)
for sid in "$@"; do
  pid=$(echo "$sid" | sed 's/.$//'); letter=$(echo "$sid" | sed 's/.*\(.\)$/\1/')
  n=$(printf '%s' "$letter" | tr 'abcdefgh' '12345678')
  [ "$n" = 1 ] && suffix="" || suffix=$n
  python3 engine/ingest_seed.py "$pid" "$suffix" 2>&1 | tail -1
done
