#!/usr/bin/env python3
"""asbuilt_table.py <dir-with-thorough-evidence> -- prints the per-property table of DESIGN.md section 7
from evidence/Cnn.json (last quick run) and a saved copy of the thorough evidence files."""
import glob, json, os, sys
VERIF = os.path.dirname(os.path.dirname(os.path.abspath(__file__)))
tdir = sys.argv[1] if len(sys.argv) > 1 else None


def num(n):
    if n >= 10**9:
        return "%.1f x 10^9" % (n / 1e9)
    if n >= 10**6:
        return "%.1f M" % (n / 1e6)
    if n >= 10**4:
        return "%d k" % round(n / 1e3)
    return str(n)


def row(e):
    c = e["coverage"]
    parts = c.get("parts", [])
    shape = "+".join(sorted(set("E-STATE" if p.get("shape") == "estate" else "E-SPACE" for p in parts))) or "?"
    return shape, c["evaluations"], c["states"], c["transitions"], c.get("distinct_outcomes", 0), c.get("exhaustive"), len(parts), e.get("wall_seconds", e.get("duration_s"))


print("| id | shape (harnesses) | quick: cases / states / library operations / outcome classes | thorough: cases / library operations |")
print("|----|-------------------|---------------------------------------------------------------|---------------------------------------|")
for f in sorted(glob.glob(os.path.join(VERIF, "evidence", "C*.json"))):
    q = json.load(open(f))
    pid = q["property_id"]
    s, ev, st, tr, oc, ex, np, w = row(q)
    t = ""
    if tdir and os.path.exists(os.path.join(tdir, os.path.basename(f))):
        te = json.load(open(os.path.join(tdir, os.path.basename(f))))
        if te.get("tier") == "thorough":
            _, tev, tst, ttr, toc, tex, _, tw = row(te)
            t = "%s / %s%s" % (num(tev), num(ttr), "" if tex else " (not exhaustive)")
    estate = "E-STATE" in s
    print("| %s | %s (%d) | %s / %s / %s / %d%s | %s |" % (pid, s, np, num(ev), num(st) if estate else "-", num(tr), oc,
                                                        "" if ex else " (not exhaustive)", t))
