#!/usr/bin/env python3
"""Generates the detection table of DESIGN.md section 8 from seeded/*/meta.json and mutants/."""
import glob, json, os, re
VERIF = os.path.dirname(os.path.dirname(os.path.abspath(__file__)))
rows = []
for d in sorted(glob.glob(os.path.join(VERIF, "seeded", "C*"))):
    m = json.load(open(os.path.join(d, "meta.json")))
    am = m.get("agent_meta") or {}
    summ = (am.get("summary") or "").replace("|", "/").replace("\n", " ")
    needs = (am.get("what_it_needs_to_manifest") or "").replace("|", "/").replace("\n", " ")
    if len(summ) > 230:
        summ = summ[:227] + "..."
    if len(needs) > 200:
        needs = needs[:197] + "..."
    qc = m.get("quick_checks") or {}
    caught = [c for c in sorted(qc) if qc[c]["rc"] == 1]
    own = m["property"]
    first = (qc.get(own) or {}).get("first", "")
    mm = re.search(r"clause=(\S+)", first)
    clause = mm.group(1) if mm else ""
    rows.append("| %s | %s | %s | %s | %s | %s |" % (m["id"], m.get("verdict", "?"), summ, needs,
                                                      ", ".join(caught) if caught else "**none**", clause))
hdr = ("| id | verification | what the change does | what it needs to manifest | quick checks reporting a VIOLATION | clause of the property's own check |\n"
       "|----|--------------|----------------------|---------------------------|------------------------------------|------------------------------------|\n")
table = hdr + "\n".join(rows) + "\n"
p = os.path.join(VERIF, "DESIGN.md")
s = open(p).read()
a = s.find("<!-- SEEDED-TABLE-BEGIN -->")
b = s.find("<!-- SEEDED-TABLE-END -->")
block = "<!-- SEEDED-TABLE-BEGIN -->\n" + table + "<!-- SEEDED-TABLE-END -->"
if a >= 0 and b >= 0:
    s = s[:a] + block + s[b + len("<!-- SEEDED-TABLE-END -->"):]
else:
    s = s.replace("SEEDED-TABLE-PLACEHOLDER", block)
open(p, "w").write(s)
print(len(rows), "rows")
