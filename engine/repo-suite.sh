#!/bin/sh
# Runs the repository's own suite on a tree ($1, default /repo) and prints the TAP totals.
# exit 0 iff it builds, ctest passes and no TAP line says "not ok".
R="${1:-/repo}"
B="$R/_build"
[ -d "$B" ] || cmake -G Ninja -S "$R" -B "$B" >/dev/null 2>&1 || { echo "configure failed"; exit 2; }
cmake --build "$B" >/tmp/.suite-build.$$ 2>&1 || { tail -20 /tmp/.suite-build.$$; rm -f /tmp/.suite-build.$$; echo "build failed"; exit 2; }
rm -f /tmp/.suite-build.$$
ctest --test-dir "$B" -j8 --timeout 900 >/dev/null 2>&1; rc=$?
ok=0; nok=0
for t in "$B"/test/t-*; do
  [ -x "$t" ] || continue
  out=$(cd "$B/test" && timeout 300 "$t" 2>/dev/null)
  ok=$((ok + $(printf '%s\n' "$out" | grep -c '^ok ')))
  nok=$((nok + $(printf '%s\n' "$out" | grep -c '^not ok ')))
done
echo "ctest_rc=$rc tap_ok=$ok tap_not_ok=$nok"
[ "$rc" = 0 ] && [ "$nok" = 0 ]
