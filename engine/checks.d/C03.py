CHECK = {
    "level": "model_checking",
    "technique": "bounded-exhaustive exploration of register_block_read and register_foreach_in against a flat address-space reference model over "
                 "(1) a small-scope table family x every (address,length) window x every callback stop script, block reads also under every "
                 "read-callback fault position (environment script: the k-th read callback of the call answers IO_ERROR); "
                 "(2) tables of three/four directly adjacent areas of every kind combination (reads crossing up to four chunks, fault at every chunk); "
                 "(3) re-initialisation histories: every ordered pair (thorough: also every triple) of register lists from a small family initialised "
                 "one after the other on the same area array, then every window; "
                 "(4) a structured boundary family of large tables (65533..65544 registers, handles/addresses/lengths straddling 2^16); "
                 "(5) the family of (1) and the tables of (2) once more at the top of the address space (last word of the table = 0xffffffff) x every "
                 "(address,length) from one below the first area up to 0xffffffff with address+length <= 2^32",
    "rule": "a case is (table or history, operation, window[, fault position]): block read compared word by word with the flat model on an exact-size "
            "heap buffer (under a fired read fault only memory safety, storage purity and 'a reported success holds the stored words' are demanded), "
            "or iteration run under every script (never stop; k-th call returns -1/+1; large tables: first/last call) and compared with the list of "
            "overlapping registers; every case is non-trivial except those of a history / large table whose (re-)initialisation is refused; the reference forms every "
            "exclusive end (address + length, register address + words, base + size) in 64 bits, so extents ending at 2^32 are represented exactly",
    "assumptions": ["tables from the small-scope family of harness/regfam.h (<= 3 areas, <= 5 registers, addresses 0..9), plus 320 tables of 3/4 adjacent areas "
                    "(each area callback-backed / memory-backed / not flagged readable / not flagged readable and without read function), plus a reduced family "
                    "at address shifts 0x7ffffffc and 0xfffffff5 (straddling 2^31, ending at 0xfffffffe)",
                    "callback results: -1/+1 at every position, +-2, +-256, +-65536, INT_MIN, INT_MAX at the first and last overlapping register",
                    "top-of-address-space family: layouts A-D of regfam.h moved up so that the last word of the layout is 0xffffffff x memory-/callback-backed x LE/BE x "
                    "every single register (5 types x every placement x 6 constraint kinds), register pairs (quick: adjacent or one word apart), the curated lists, every "
                    "access-flag combination of the F2 part (readable / write-only areas in every position), plus the 320 tables of 3/4 adjacent areas ending at 0xffffffff; "
                    "windows and iteration ranges: every (address, length) over the addresses from one below the first area up to 0xffffffff with address + length <= 2^32",
                    "ranges that wrap around the 32-bit address space (address + length > 2^32) are outside the statement and not generated",
                    "re-initialisation histories keep the area array and replace the register list (unconstrained 16/32-bit registers; per area: none, "
                    "first word, every word, last word, 32-bit at the base); quick: pairs on layouts B, D, E with the three-filling menu",
                    "large tables: three shapes, areas memory-backed or callback-backed with computed words; windows start around address/handle 2^16 and the area edges",
                    "areas are either memory-backed through reg_mem_read/reg_mem_write or callback-backed with mem == NULL (the two kinds the public macros build); "
                    "a hand-built area with a custom read function AND a non-NULL mem pointer whose answers differ from mem is not generated: the statement does "
                    "not say which of the two is 'the word currently stored there' (register_mcopy and register_init treat mem != NULL as memory-backed); "
                    "building the harness with cflags -DC03_HYBRID_AREAS adds 19 such tables with the read function's answer as the model"],
    "harnesses": [{
        "name": "c03_blockread", "src": "harness/c03_blockread.c", "shape": "espace", "opt": "-O2",
        "lib": ["src/registers/core.c"], "min_outcomes": 30,
        "require_outcomes": {"any": ["read-ok", "read-empty", "read-unmapped", "read-ok-with-unreadable", "read-ok-no-read-function", "iter-none", "iter-some", "iter-all",
                                     "fault-first-chunk", "fault-later-chunk",
                                     "reinit-read-ok", "reinit-read-unmapped", "reinit-iter-none", "reinit-iter-some", "reinit-iter-all",
                                     "reinit-iter-from-emptied-area",
                                     "big-read-ok", "big-read-ok-64k-words", "big-read-unmapped",
                                     "big-iter-none", "big-iter-below-64k", "big-iter-across-64k", "big-iter-first-handle-from-64k",
                                     "top-read-empty", "top-read-ok", "top-read-ok-to-last-word", "top-read-unmapped",
                                     "top-read-ok-with-unreadable", "top-read-ok-with-unreadable-to-last-word", "top-read-ok-no-read-function",
                                     "top-fault-first-chunk", "top-fault-later-chunk",
                                     "top-iter-none", "top-iter-some", "top-iter-some-to-last-word", "top-iter-all", "top-iter-all-to-last-word"]},
    }],
}
