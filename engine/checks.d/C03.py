CHECK = {
    "level": "model_checking",
    "technique": "bounded-exhaustive exploration of register_block_read and register_foreach_in over a small-scope table family x every (address,length) window x every callback stop script, against a flat address-space reference model",
    "rule": "a case is (table, operation, window): block read compared word by word with the flat model, or iteration run under every script (never stop; k-th call returns -1/+1) and compared with the list of overlapping registers; every case is non-trivial",
    "assumptions": ["tables from the small-scope family of harness/regfam.h (<= 3 areas, <= 5 registers, addresses 0..9)",
                    "ranges that wrap around the 32-bit address space are outside the statement and not generated"],
    "harnesses": [{
        "name": "c03_blockread", "src": "harness/c03_blockread.c", "shape": "espace", "opt": "-O2",
        "lib": ["src/registers/core.c"], "min_outcomes": 6,
        "require_outcomes": {"any": ["read-ok", "read-empty", "read-unmapped", "read-ok-with-unreadable", "iter-none", "iter-some", "iter-all"]},
    }],
}
