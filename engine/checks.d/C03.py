CHECK = {
    "level": "model_checking",
    "technique": "bounded-exhaustive exploration of register_block_read and register_foreach_in against a flat address-space reference model over "
                 "(1) a small-scope table family x every (address,length) window x every callback stop script, block reads also under every "
                 "read-callback fault position (environment script: the k-th read callback of the call answers IO_ERROR); "
                 "(2) tables of three/four directly adjacent areas of every kind combination (reads crossing up to four chunks, fault at every chunk); "
                 "(3) re-initialisation histories: every ordered pair (thorough: also every triple) of register lists from a small family initialised "
                 "one after the other on the same area array, then every window; "
                 "(4) a structured boundary family of large tables (65533..65544 registers, handles/addresses/lengths straddling 2^16; one of 65534); "
                 "(5) tables with one or two zero-sized areas (no address mapped by them) at every list position and admissible base, every window; "
                 "(6) the family of (1) and the tables of (2) once more at the top of the address space (last word of the table = 0xffffffff) x every "
                 "(address,length) from one below the first area up to 0xffffffff with address+length <= 2^32; "
                 "(7) access flags x accessor presence: tables of three adjacent areas in which the area at each position takes every combination of "
                 "{memory-, callback-backed} x READABLE flag x read function present/absent x WRITEABLE flag x write function present/absent, at address 1 and "
                 "ending at 0xffffffff, every window; "
                 "(8) intervening calls: 125 tables of three adjacent areas (each memory RW / callback RW / callback read-only without write function / memory "
                 "read-only without write function / callback write-only; a range-constrained 16-bit register at every base) x 19 calls of another kind between "
                 "register_init and the reads (sanitise on sane registers and after each register was poked out of range -- repaired, or refused where the area "
                 "cannot be written --, refused and accepted typed set and block write per register, block write into a hole, typed reads / bit operations / "
                 "touch marks incl. a bad handle, an iteration stopped with -1) x every window x {block read, iteration}",
    "rule": "a case is (table or history, operation, window[, fault position]): block read compared word by word with the flat model on an exact-size "
            "heap buffer (under a fired read fault only memory safety, storage purity and 'a reported success holds the stored words' are demanded), "
            "or iteration run under every script (never stop; k-th call returns -1/+1; large tables: first/last call) and compared with the list of "
            "overlapping registers (a negative callback result must be answered with a code other than SUCCESS and the register's address: the statement fixes "
            "the address, not the enum value; SUCCESS is demanded of every other iteration that called a callback or whose range holds at least one mapped "
            "address -- the answer of an iteration over an empty range or over unmapped addresses only, which visits nothing, is logged and not judged); "
            "whether a table is initialised is taken from register_init's answer alone (no private flag is read); every case is non-trivial except those of a table / history / large table whose (re-)initialisation is "
            "refused: such a table is not judged (the statement is about initialised tables, what register_init accepts is C04's business), the refusal of a "
            "first initialisation is recorded as a cap (exhaustive=False, exit 0); the reference forms every "
            "exclusive end (address + length, register address + words, base + size) in 64 bits, so extents ending at 2^32 are represented exactly",
    "assumptions": ["tables from the small-scope family of harness/regfam.h (<= 3 areas, <= 5 registers, addresses 0..9), plus 320 tables of 3/4 adjacent areas "
                    "(each area callback-backed / memory-backed / not flagged readable / not flagged readable and without read function), plus a reduced family "
                    "at address shifts 0x7ffffffc and 0xfffffff5 (straddling 2^31, ending at 0xfffffffe)",
                    "callback results: -1/+1 at every position, +-2, +-256, +-65536, INT_MIN, INT_MAX at the first and last overlapping register",
                    "top-of-address-space family: layouts A-D of regfam.h moved up so that the last word of the layout is 0xffffffff x memory-/callback-backed x LE/BE x "
                    "every single register (5 types x every placement x 6 constraint kinds), register pairs (quick: adjacent or one word apart), the curated lists, every "
                    "access-flag combination of the F2 part (readable / write-only areas in every position), plus the 320 tables of 3/4 adjacent areas ending at 0xffffffff; "
                    "windows and iteration ranges: every (address, length) over the addresses from one below the first area up to 0xffffffff with address + length <= 2^32",
                    "'areas that are not readable' = areas that are not flagged REG_AF_READABLE or that name no read function (the library has nothing to call to "
                    "learn a word of such an area, whatever its flags say): their words read zero and the read succeeds; for an area flagged readable without read "
                    "function but with a mem pointer both zero and the word in mem are accepted (a library may treat mem != NULL as memory-backed, as register_mcopy "
                    "does); areas flagged readable without read function occur only in family (7): 384 tables = 2 address positions x 3 list positions x 2 neighbour "
                    "backings x 32 combinations; the class read-ok-flagged-readable-no-read-function is not required (a library refusing such an area at register_init "
                    "ends these tables as init-refused with a cap; what register_init accepts is C04's business)",
                    "family (8): a successfully initialised table stays 'an initialised table' whatever other public operation ran on it, accepted or refused "
                    "(no statement gives sanitise, set or block write the power to take a table out of service; what the intervening call itself answers is not judged "
                    "here); no callback fault is injected in this family (what a library does after a driver I/O error is left open); the reads are compared with the "
                    "storage as it is after the call; the after-* outcome classes are not required",
                    "area accessors are handed either the table's own descriptor or a copy of it (a library may pass a snapshot): the harness identifies the area by its "
                    "place in the array or, for a copy, by base and size looked up in the table spec, and judges bounds (offset + count <= size) against that entry",
                    "the statement does not fix the return value of an iteration that visits nothing outside the table: when no callback was called and no address "
                    "of the range is mapped any code is accepted",
                    "ranges that wrap around the 32-bit address space (address + length > 2^32) are outside the statement and not generated",
                    "re-initialisation histories keep the area array and replace the register list (unconstrained 16/32-bit registers; per area: none, "
                    "first word, every word, last word, 32-bit at the base); quick: pairs on layouts B, D, E with the three-filling menu",
                    "large tables: three shapes, areas memory-backed or callback-backed with computed words; windows start around address/handle 2^16 and the area edges; "
                    "a library whose handle type cannot count 2^16 registers refuses them (its documented size limit): they are then not judged, the run reports a cap, and "
                    "only the table of 65534 registers remains; therefore the big-* outcome classes are not required (on the unchanged tree exhaustive=True certifies that "
                    "every table of the space was initialised and judged)",
                    "zero-sized areas: a description may hold areas of no words (an optional window configured to size 0); they map no address; they are placed so that "
                    "the area list stays ascending and non-overlapping (base between the end of the area before and the base of the area behind, both included)",
                    "areas are either memory-backed through reg_mem_read/reg_mem_write or callback-backed with mem == NULL (the two kinds the public macros build); "
                    "a hand-built area with a custom read function AND a non-NULL mem pointer whose answers differ from mem is not generated: the statement does "
                    "not say which of the two is 'the word currently stored there' (register_mcopy and register_init treat mem != NULL as memory-backed); "
                    "building the harness with cflags -DC03_HYBRID_AREAS adds 19 such tables with the read function's answer as the model"],
    "harnesses": [{
        "name": "c03_blockread", "src": "harness/c03_blockread.c", "shape": "espace", "opt": "-O2",
        "lib": ["src/registers/core.c"], "min_outcomes": 16,
        "require_outcomes": {"any": ["read-ok", "read-empty", "read-unmapped", "read-ok-with-unreadable", "read-ok-no-read-function", "iter-none", "iter-some", "iter-all",
                                     "fault-first-chunk", "fault-later-chunk",
                                     "reinit-read-ok", "reinit-read-unmapped", "reinit-iter-none", "reinit-iter-some", "reinit-iter-all",
                                     "reinit-iter-from-emptied-area"]},
        # top-* (tables at the top of the address space), big-* (large tables), read-ok-across-empty-area (zero-sized areas) and
        # read-ok-flagged-readable-no-read-function (accessor family) are not required: a library that refuses those tables at
        # register_init (narrower handle type; C04's business) ends them as *-init-refused with a cap, which is not a vacuity failure
    }],
}
