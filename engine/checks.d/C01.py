CHECK = {
    "level": "model_checking",
    "technique": "stateless bounded-exhaustive enumeration (type x byte order x backing x constraint configuration x closed value sets incl. all 16-bit values and ordered value pairs) of the real register_set/_unsafe/get against an independent codec+constraint reference",
    "rule": "a case is one constraint configuration x (handle/type-mismatch block | all 65536 values | one pre-state value x every value of the closed set, checked and unchecked); non-trivial = at least one set was decided (accepted or refused) against the reference",
    "assumptions": ["32/64-bit and float values are taken from the closed boundary set of DESIGN C01 (every 2^k, 2^k+-1, octet lanes, bounds and neighbours, every IEEE class), not all values; thorough adds all 2^32 patterns for u32/s32/f32 under one range constraint",
                    "unchecked set with a wrongly typed value is outside the statement and not generated"],
    "harnesses": [{
        "name": "c01_regset", "src": "harness/c01_regset.c", "shape": "espace", "opt": "-O2",
        "lib": ["src/registers/core.c"], "min_outcomes": 4,
        "require_outcomes": {"any": ["handles-ok", "sweep-mixed", "pairs-mixed", "pairs-all-accepted"]},
    }],
}
