import runpy, os
REGP_LIB = runpy.run_path(os.path.join(os.path.dirname(os.path.abspath(__file__)), "C08.py"))["REGP_LIB"]
CHECK = {
    "level": "model_checking",
    "technique": "stateless bounded-exhaustive enumeration of requests (reference-encoded, under every combination of the two checksum option bits) through the real regp_recv/regp_process/regp_free with a recording scripted memory backend; replies decoded by an independent decoder; sessions of the serving loop that regp_recv's documentation prescribes (one RPMaybeFrame, regp_process and regp_free after every regp_recv) enumerated as all sequences of 2..3 (thorough 4) receptions out of good requests, non-requests, corrupted frames and channel-level failures, with three RPMaybeFrame disciplines and heap/pool allocators, every received frame compared against a fresh-instance run (differential); frames invalid by an independent reading of doc/regp.txt (block sizes straddling 2^7..2^32) and scripted sink failures at every reply octet",
    "rule": "a case is one request (or one session, or one group of invalid frames of one block size): exactly one backend call with the request's fields and payload (none for reads that cannot fit), exactly one well-formed reply of the prescribed type/code/payload, balanced allocator ledger; no backend call in a round whose reception failed (corrupted frame or channel-level failure); every case is non-trivial except family-G cases whose sink failure offset lies behind the reply and family-F groups without an invalid frame",
    "assumptions": ["a read whose data fits the 160-octet allocator block behind the request's own header but not together with a full 16-octet response header may be served or answered with a transmit-overflow response without access (statement C09: 'a read whose answer cannot fit'); a read that does not fit behind the request's header must be refused that way",
                    "the 'buffer size' carried by overflow responses is accepted as block size, block size minus the frame descriptor, or that minus the request's header",
                    "response frames fed as input carry the payload doc/regp.txt 3.1 prescribes for their code (a receiver may reject others; the statement only demands no access and no reply)",
                    "the return values of regp_recv/regp_process are not compared; only an acknowledged request must not make regp_process report failure",
                    "addresses/sequence numbers/payload contents from the closed sets in the harness",
                    "the caller follows the loop in regp_recv's documentation: the RPMaybeFrame object is not initialised before the first call (modelled by a stand-in that designates a never-received write request) and is handed to regp_process and regp_free also when regp_recv returned a negative value",
                    "a request whose checksum option bits are not the ones doc/regp.txt 5.1/5.2 mandates for the transport (or that declares a payload checksum without payload) may be refused by reception (then: no access) or accepted (then: the full exchange is owed, with the read capacity counted from the received header)",
                    "'failed reception' for generated frames is decided by the reference reading of doc/regp.txt (regp_ref.h); frames valid under any admissible reading are not generated in family F",
                    "sink failures are persistent hard errors (-EIO, -ENOMEM, -EPIPE) at one octet offset of the reply; -EAGAIN/-EINTR are retried by the endpoint layer by contract and are not generated; when the reply cannot be sent only the memory access, the ledger and the next exchange are judged"],
    "harnesses": [{
        "name": "c06_process", "src": "harness/c06_process.c", "shape": "espace", "opt": "-O1",
        "lib": REGP_LIB, "min_outcomes": 6,
        "require_outcomes": {"any": ["read-acked", "write-acked", "error-response", "wordsize-mismatch", "non-request-ignored", "session-pair", "read-too-large-refused",
                                     "invalid-frame-no-access", "session-all-received", "session-with-failed-reception", "reply-unsendable"]},
    }],
}
