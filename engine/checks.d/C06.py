import runpy, os
REGP_LIB = runpy.run_path(os.path.join(os.path.dirname(os.path.abspath(__file__)), "C08.py"))["REGP_LIB"]
CHECK = {
    "level": "model_checking",
    "technique": "stateless bounded-exhaustive enumeration of requests (reference-encoded) through the real regp_recv/regp_process/regp_free with a recording scripted memory backend; replies decoded by an independent decoder; session pairs compared against fresh-instance runs (differential, one level closes the search because the server keeps no per-request state)",
    "rule": "a case is one request (or one ordered pair of frames on one session): exactly one backend call with the request's fields and payload, exactly one well-formed reply of the prescribed type/code/payload, balanced allocator ledger; every case is non-trivial",
    "assumptions": ["requests use block sizes for which request and answer fit the 160-octet allocator block (capacity boundary itself is C09's subject)",
                    "the 'buffer size' carried by overflow responses is accepted as block size or block size minus the frame descriptor",
                    "addresses/sequence numbers/payload contents from the closed sets in the harness"],
    "harnesses": [{
        "name": "c06_process", "src": "harness/c06_process.c", "shape": "espace", "opt": "-O1",
        "lib": REGP_LIB, "min_outcomes": 6,
        "require_outcomes": {"any": ["read-acked", "write-acked", "error-response", "wordsize-mismatch", "non-request-ignored", "session-pair"]},
    }],
}
