import runpy, os
REGP_LIB = runpy.run_path(os.path.join(os.path.dirname(os.path.abspath(__file__)), "C08.py"))["REGP_LIB"]
CHECK = {
    "level": "model_checking",
    "technique": "stateless bounded-exhaustive enumeration of requests (reference-encoded) through the real regp_recv/regp_process/regp_free with a recording scripted memory backend; replies decoded by an independent decoder; session pairs compared against fresh-instance runs (differential, one level closes the search because the server keeps no per-request state)",
    "rule": "a case is one request (or one ordered pair of frames on one session): exactly one backend call with the request's fields and payload (none for reads that cannot fit), exactly one well-formed reply of the prescribed type/code/payload, balanced allocator ledger; every case is non-trivial",
    "assumptions": ["a read whose data fits the 160-octet allocator block behind the request's own header but not together with a full 16-octet response header may be served or answered with a transmit-overflow response without access (statement C09: 'a read whose answer cannot fit'); a read that does not fit behind the request's header must be refused that way",
                    "the 'buffer size' carried by overflow responses is accepted as block size, block size minus the frame descriptor, or that minus the request's header",
                    "response frames fed as input carry the payload doc/regp.txt 3.1 prescribes for their code (a receiver may reject others; the statement only demands no access and no reply)",
                    "the return values of regp_recv/regp_process are not compared; only an acknowledged request must not make regp_process report failure",
                    "addresses/sequence numbers/payload contents from the closed sets in the harness"],
    "harnesses": [{
        "name": "c06_process", "src": "harness/c06_process.c", "shape": "espace", "opt": "-O1",
        "lib": REGP_LIB, "min_outcomes": 6,
        "require_outcomes": {"any": ["read-acked", "write-acked", "error-response", "wordsize-mismatch", "non-request-ignored", "session-pair", "read-too-large-refused"]},
    }],
}
