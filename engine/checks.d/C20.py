CHECK = {
    "level": "model_checking",
    "technique": "stateless bounded-exhaustive enumeration of closed executions of the real reader (sx_parse_string / sx_parse_stringn) against an independent recursive-descent reference reader, allocator owned at link time (ledger), inputs in exact-size heap blocks under ASan",
    "rule": "a case is one input in one presentation (NUL-terminated -> sx_parse_string; exact-size block without terminator -> sx_parse_stringn); inputs: every string of length 0..L over the ten characters '( ) space newline a 1 # x F -' in odometer order, then every tree of <= N nodes / depth <= D over symbols {a,foo,x-1} and integers {0,7,255,2^32,0xabcdef} in seven renderings (canonical, tight, wide, tab/newline, leading+trailing input, hex lower, hex upper); non-trivial = the reference reader opens a list or decodes a hexadecimal literal; the quantifier's 'coverage-guided random strings' are replaced by the exhaustive string family",
    "assumptions": [
        "reference grammar from the file comment of src/sx.c with the delimiter/token rules pinned by test/t-sx-parser.c: atoms end at ( ) whitespace or end of input; decimal = digits only; hex = #x + hex digits of either case; symbol = letter then letters, digits, '-'",
        "a token that starts with '-' is left open by the documentation: either answer is accepted, only memory safety, termination, ledger and no-tree-with-error are demanded there",
        "likewise a token that starts with a letter and contains a character nobody classifies ('#' in this alphabet: a#, x#F): open; '{' and '}' stay errors (pinned by t_sx_parse_token_error_symbol)",
        "leak = live again when the same input is presented a second time with a fresh ledger; a block allocated once and kept by the parser for later calls is not a leak",
        "integer vocabulary stays below 2^64; the tree family uses symbol characters from letters/digits/'-' only",
        "the ledger sees malloc/calloc/realloc/free/strdup/strndup referenced from sx.c (link-time --wrap); ASan red zones around exact-size blocks observe reads outside the input",
        "small-scope: string length and tree size up to the stated bound",
    ],
    "harnesses": [{
        "name": "c20_sx", "src": "harness/c20_sx.c", "shape": "espace",
        "lib": ["src/sx.c", "src/compat/strlcpy.c"],
        "ldflags": ["-Wl,--wrap=malloc,--wrap=calloc,--wrap=realloc,--wrap=free,--wrap=strdup,--wrap=strndup"],
        "min_outcomes": 14,
        "require_outcomes": {"any": [
            "ok-hex-upper", "ok-hex-lower", "ok-nested-empty", "ok-trailing-input", "ok-list-nested",
            "ok-empty-list", "err-blank", "err-eof-in-list", "err-eof-after-ws", "err-stray-close",
            "err-bad-token", "err-bad-token-in-list", "open-dash-token"]},
    }],
}
