CHECK = {
    "level": "model_checking",
    "technique": "stateless bounded-exhaustive enumeration of the real checksum functions against a bit-serial CRC-16/ARC reference (reflected polynomial 0xA001, no final xor)",
    "rule": "odometer over (state, octet) pairs, (state, two-octet buffer) pairs, structured buffers x initial value x every cut position, exact-size blocks of every length, 16-bit-word buffers of every length x every cut position; the quantifier's 'random buffers up to 4 KiB' are replaced by the structured family ramp / constants 00 ff a5 / walking one / each single octet followed by zeros, all 4 KiB in the thorough tier; a case is one row of the odometer (e.g. 2^16 pairs, or one buffer with all its cut positions); non-trivial = at least one octet is fed to the checksum",
    "assumptions": ["little-endian host with 8-bit bytes (the word variant's other branch is not compiled)",
                    "the buffer functions are a fold of the update step: the complete check of the step (2^24 pairs) plus the fold identities argues for every input; the long buffers guard the loop itself",
                    "ASan red zones behind exact-size heap blocks observe reads past the given length"],
    "harnesses": [{
        "name": "c16_crc", "src": "harness/c16_crc.c", "shape": "espace", "opt": "-O2",
        "lib": ["src/crc-16-arc.c"], "min_outcomes": 6,
        "require_outcomes": {"any": ["step-agrees", "pair-agrees", "split-agrees", "length-agrees",
                                     "words-agree", "empty-returns-state"]},
    }],
}
