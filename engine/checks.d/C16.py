CHECK = {
    "level": "model_checking",
    "technique": "stateless bounded-exhaustive enumeration of the real checksum functions against a bit-serial CRC-16/ARC reference (reflected polynomial 0xA001, no final xor); runs of zero octets in multi-GiB buffers are advanced in the reference by the 16x16 GF(2) matrix of the zero-octet step raised to the run length (anchored against the bit-serial loop); call histories are enumerated from freshly forked processes",
    "rule": "odometer over (state, octet) pairs, (state, two-octet buffer) pairs, structured buffers x initial value x every cut position, exact-size blocks of every length, 16-bit-word buffers of every length x every cut position; structured boundary family of lengths 2^k+{-1,0,1,5} for k=16..20 (octets and words; 4 cuts each), one long buffer continued in chunks of 21 sizes straddling 2^2..2^18, single calls over lengths straddling 2^31/2^32 (thorough: 2^31..2^34 octets, 2^30..2^32 words; quick: 2^32+5 and 2^31+5 octets, 2^31+5 words) in a zero-page mapping that ends at an inaccessible page; all 84 histories of 1..3 calls over the 4 entry points, each from a fresh process, x 3 contents x 5 lengths x 3 initial values; the quantifier's 'random buffers up to 4 KiB' are replaced by the structured family ramp / constants 00 ff a5 / walking one / each single octet followed by zeros, all 4 KiB in the thorough tier; a case is one row of the odometer (e.g. 2^16 pairs, one buffer with all its cut positions, one call history); non-trivial = at least one octet is fed to the checksum",
    "assumptions": ["little-endian host with 8-bit bytes (the word variant's other branch is not compiled)",
                    "the buffer functions are a fold of the update step: the complete check of the step (2^24 pairs) plus the fold identities argues for every input; the long buffers guard the loop itself, the boundary family guards its length arithmetic (64-bit size_t host: lengths up to 2^34+5 octets)",
                    "multi-GiB buffers are zero between a patterned head and tail (the kernel's zero page behind a MAP_NORESERVE mapping); if the address space cannot be mapped the run is reported as capped, not as passed",
                    "ASan red zones behind exact-size heap blocks (and a PROT_NONE page behind the multi-GiB mappings) observe reads past the given length",
                    "first-use behaviour is observed per forked child; the enumerating process makes no checksum call itself"],
    "harnesses": [{
        "name": "c16_crc", "src": "harness/c16_crc.c", "shape": "espace", "opt": "-O2",
        "lib": ["src/crc-16-arc.c"], "min_outcomes": 10,
        "require_outcomes": {"any": ["step-agrees", "pair-agrees", "split-agrees", "length-agrees",
                                     "words-agree", "empty-returns-state", "long-agrees", "long-words-agree",
                                     "chunked-agrees", "huge-agrees"]},
    }, {
        "name": "c16_first", "src": "harness/c16_first.c", "shape": "espace", "opt": "-O1",
        "lib": ["src/crc-16-arc.c"], "min_outcomes": 5,
        "require_outcomes": {"any": ["first-call-octets-continue", "first-call-octets-from-zero",
                                     "first-call-words-continue", "first-call-words-from-zero",
                                     "first-call-empty"]},
    }],
}
