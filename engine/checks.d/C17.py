CHECK = {
    "level": "fault_enumeration",
    "technique": "deviation-bounded exhaustive enumeration of driver behaviour scripts (scripted octet/chunk sources and sinks with call budgets) on the real endpoint code, checked against a stream-prefix model of what the drivers handed out and received",
    "rule": "a case = (operation, driver kind per side, count, stream length, aux geometry, behaviour script per driver); scripts over {1,2,k=asked-1,rest,0,EINTR,EAGAIN,EIO (+ENOMEM for sinks)} fall back to 'transfer everything asked' when they run out; enumerated by number of deviations from that default (all with 0, then 1, 2, ...): one driver = every script over the first 5 (thorough 6) of 8 call slots plus every placement of <=3 (4) deviations over all 8; two drivers = every placement of <=3 (4) deviations over 6+6 call slots; the property's 'random long transfers' clause is replaced by this structured family plus the library's own buffer/chunk-list/trivial endpoints over every cut of streams <=4 (6) octets into <=3 chunks and every sink capacity; non-trivial = at least one partial transfer, zero-length return, EINTR/EAGAIN, hard error or end-of-stream was actually answered to the library during the case (real endpoints: more than one chunk, or source/sink shorter than the count)",
    "assumptions": [
        "driver answers never exceed what was asked; a driver that answers 0/EINTR/EAGAIN forever is outside the alphabet (scripts are finite)",
        "counts N <= 6, scripts <= 8 (6+6) call slots, aux buffers <= 4 octets (small-scope)",
        "the getbuffer extension is not implemented by any endpoint in the tree and its contract is not part of the statement: sts_some/sts_atmost/sts_n/sts_drain are exercised on endpoints without it",
        "ASan red zones around exact-size destination, source and auxiliary blocks observe out-of-bounds accesses",
    ],
    "harnesses": [{
        "name": "c17_endpoints", "src": "harness/c17_endpoints.c", "shape": "espace",
        "lib": ["src/endpoints/core.c", "src/endpoints/buffer.c", "src/endpoints/trivial.c",
                "src/endpoints/instrumentable.c", "src/byte-buffer.c"],
        "min_outcomes": 14,
        "require_outcomes": {"any": [
            "ok-default-driver", "ok-after-partial", "ok-after-interruption", "ok-after-zero-return",
            "ok-after-partial-and-interruption", "hard-error", "invalid-refused", "source-end",
            "atmost-short", "atmost-full", "drain-complete", "drain-complete-after-deviation", "drain-hard-error",
            "real-ok-across-chunks", "real-sink-full", "real-source-end", "real-drain-across-chunks"]},
    }],
}
