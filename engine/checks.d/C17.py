CHECK = {
    "level": "fault_enumeration",
    "technique": "deviation-bounded exhaustive enumeration of driver behaviour scripts (scripted octet- and chunk-style sources and sinks with call budgets, plus the library's own buffer/chunk-list/trivial endpoints behind a counting pass-through) on the real endpoint code; every execution is checked against a stream-prefix model of what the drivers handed out, received and answered",
    "rule": "a case = (operation, driver kind per side, count, stream length, aux geometry, behaviour script per driver). Scripts are finite sequences over {1, 2, k=asked-1, rest, 0, EINTR, EAGAIN, hard error = EIO (sinks also ENOMEM, the documented 'out of space')} and fall back to 'transfer everything asked' when they run out; octet drivers use {rest, 0, EINTR, EAGAIN, hard error}. Enumeration is by number of deviations from the default answer: everything with 0 deviations, then 1, 2, ... so the lowest-numbered counterexample has the fewest. One driver (source_get_chunk, sink_put_chunk, the two at-most forms, get/put octet; N 1..6, N=0 and SSIZE_MAX+1): every script over the first 5 (thorough 6) of 8 call slots plus every placement of <=3 (4) deviations over all 8. Two drivers (sts_cbc, sts_some, sts_atmost, sts_n_cbc, sts_n, sts_drain_cbc, sts_drain, sts_some_aux, sts_atmost_aux, sts_n_aux, sts_drain_aux; all four octet/chunk pairings): every placement of <=3 (4) deviations over 6+6 call slots, counts {0,1,2,3,6} (0..6), stream lengths {0,1,3,5} (0..6), streams that end one octet early, 6 (8) aux geometries with 0<=offset<used<size<=6 (one with offset>0 and counts between the region length and `used`) of which 2 (4) go to the full deviation bound and the rest to one less. The property's 'random long transfers with random scripts' is replaced by a structured exhaustive family: transfers of 40 octets under every periodic script of period <=3 (4) for one driver and <=2 (3) per side for two drivers that contains at least one progressing answer, plus the library's own source_from_buffer/source_from_chunks/sink_to_buffer/source_zero/source_empty/sink_null over every cut of streams <=4 (6) octets into <=3 chunks, every count and every sink capacity. Non-trivial = at least one partial transfer, zero-length return, EINTR/EAGAIN, hard error or end-of-stream was actually answered to the library during the case (library endpoints: more than one chunk, or source or sink shorter than the count). At start-up the checker is run on an independent reference implementation (must pass) and on four deliberately broken variants of it (must be rejected).",
    "assumptions": [
        "driver answers never exceed what was asked; a driver that answers 0/EINTR/EAGAIN for ever is outside the alphabet (scripts are finite), so every retry loop is bounded by a call budget and overrunning it is clause C17/hang",
        "small scope: counts <= 6 (40 in the periodic family), scripts <= 8 (6+6) call slots, auxiliary buffers <= 6 octets",
        "the octets between offset and used are taken as the auxiliary buffer's region, as the code does; geometries keep the free octets behind `used` non-empty too; the memory check is against the whole buffer (red zones + pointer ranges seen by the drivers), and for the non-rewinding forms (sts_some_aux, sts_atmost_aux) every range handed to a driver has to lie inside [offset,used) or inside [used,size) (the other reading of the region) and the octets in front of offset stay untouched",
        "how much an implementation asks a driver for in one call is not judged (requests of any size up to SSIZE_MAX/2 are served); a short answer because the stream ends is not counted as a driver deviation",
        "c17_endpoints exercises sts_some/sts_atmost/sts_n/sts_drain on endpoints without the getbuffer extension; c17_getbuffer drives the same four operations through a source that offers a scratch region, with partial-transfer scripts on both sides; using the offer is optional (memory of the scratch block outside the offered region must not be used; the at-most forms are bounded by the count asked, not by the region; a drain's return value is not pinned); sinks with a getbuffer extension are not driven (the code gives them no way to learn how much was stored)",
        "the return value of a drain without a scripted hard error is not pinned (both harnesses); whether an at-most form passes an interruption on or retries it is left open (the outcome classes atmost-interrupted / plumb-interrupted are not required); N=0 / N>SSIZE_MAX must be refused with a negative code and without a driver call (the code itself is not pinned)",
    ],
    "harnesses": [{
        "name": "c17_endpoints", "src": "harness/c17_endpoints.c", "shape": "espace",
        "lib": ["src/endpoints/core.c", "src/endpoints/buffer.c", "src/endpoints/trivial.c",
                "src/endpoints/instrumentable.c", "src/byte-buffer.c"],
        "min_outcomes": 20,
        "require_outcomes": {"any": [
            "ok-default-driver", "ok-after-partial", "ok-after-interruption", "ok-after-zero-return",
            "ok-after-partial-and-interruption", "hard-error", "invalid-refused", "source-end",
            "atmost-short", "atmost-full",
            "drain-complete", "drain-complete-after-deviation", "drain-hard-error",
            "real-ok-across-chunks", "real-atmost-short", "real-sink-full", "real-source-end",
            "real-drain-across-chunks"]},
    }, {
        "name": "c17_getbuffer", "src": "harness/c17_getbuffer.c", "shape": "espace",
        "lib": ["src/endpoints/core.c", "src/byte-buffer.c"],
        "min_outcomes": 4,
        "require_outcomes": {"any": ["n-moved", "n-source-ended", "drained", "atmost-moved"]},
    }],
}
