CHECK = {
    "level": "model_checking",
    "technique": "stateless bounded-exhaustive enumeration of values and of decoder input strings on the real varint code, compared with an independent LEB128 reference; every decoder input in an exact-size heap block under ASan",
    "rule": "values: one case per structured value (both signednesses), contiguous 32-bit ranges as cases of 2^12 (quick) / 2^20 (thorough: all 2^32) values; strings: one case per octet string, odometer in lexicographic order, shorter first, all four type variants x three decoders (buffer, octet source, buffer-backed source) per case. The quantifier's 'random 64-bit values' and 'random strings' are replaced by structured exhaustive families (x<<s and complements, 2^k+-1, septet and octet lane patterns; thorough: odd*2^s for every odd < 2^16) and by the full 6-letter alphabet up to the length bound. Non-trivial = value whose encoding has >= 2 octets / string whose first octet carries the continuation bit",
    "assumptions": ["64-bit values outside the structured families are not enumerated",
                    "decoder input octets are drawn from {00,01,7f,80,81,ff}; length <= 8 (quick, plus lengths 9..11 over {00,7f,80}) / 11 (thorough)",
                    "encoders are only given fresh buffers (offset = used = 0) of exactly the documented maximum size",
                    "sources deliver one octet per call and -ENODATA at the end; retry answers (0, -EINTR, -EAGAIN) are not part of this property's quantifier",
                    "ASan red zones around exact-size heap blocks observe reads beyond the buffer's memory",
                    "'rejected as illegal' is read as the illegal-sequence code (-EILSEQ); where the unterminated digits also exceed the type's width "
                    "(last octet of the maximum length carries bits beyond 32/64) a second failure class applies and any negative code is accepted"],
    "harnesses": [{
        "name": "c14_varint", "src": "harness/c14_varint.c", "shape": "espace", "opt": "-O2",
        "lib": ["src/variable-length-integer.c", "src/byte-buffer.c", "src/endpoints/core.c", "src/endpoints/buffer.c"],
        "min_outcomes": 20,
        "require_outcomes": {
            "quick": ["rt32-len1", "rt32-len5", "rt64-len1", "rt64-len9", "rt64-len10",
                      "dec-trunc32-trunc64", "dec-ill32-trunc64", "dec-ill32-ill64",
                      "dec-ill32-ok64-canonical", "dec-ill32-ok64-overlong", "dec-ok-canonical",
                      "dec-ok-overlong", "dec-ok-overflow32-canonical64", "dec-ill32-ok64-overflow", "sweep32-maxlen3"],
            "thorough": ["rt32-len1", "rt32-len5", "rt64-len1", "rt64-len9", "rt64-len10",
                         "dec-trunc32-trunc64", "dec-ill32-trunc64", "dec-ill32-ill64",
                         "dec-ill32-ok64-canonical", "dec-ill32-ok64-overlong", "dec-ill32-ok64-overflow",
                         "dec-ok-canonical", "dec-ok-overlong", "dec-ok-overflow32-canonical64",
                         "sweep32-maxlen3", "sweep32-maxlen4", "sweep32-maxlen5", "sweep64-maxlen10"],
        },
    }],
}
