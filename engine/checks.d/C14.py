CHECK = {
    "level": "model_checking",
    "technique": "stateless bounded-exhaustive enumeration of values, of decoder input strings, of descriptor states and short operation histories, of buffer geometries on a power-of-two boundary family (real, lazily mapped memory in front of an inaccessible page) of driver answer scripts, of decode histories on one descriptor in every fill-mark flavour (filled / space / partly) with cut-off tails, of placements of the result object inside the memory being decoded and of sink drivers that encode while they are written to, on the real varint code, compared with an independent LEB128 reference; every small decoder input and encoder target in an exact-size heap block under ASan",
    "rule": "values: one case per structured value (both signednesses), contiguous 32-bit ranges as cases of 2^12 (quick) / 2^20 (thorough: all 2^32) values; strings: one case per octet string, odometer in lexicographic order, shorter first, all four type variants x three decoders (buffer, octet source, buffer-backed source) per case. The quantifier's 'random 64-bit values' and 'random strings' are replaced by structured exhaustive families (x<<s and complements, 2^k+-1, septet and octet lane patterns; thorough: odd*2^s for every odd < 2^16) and by the full 6-letter alphabet up to the length bound. "
            "reuse: one case per (type, value, size, used, offset) and per operation history on one descriptor; windows: one case per (string, offset, length behind the offset) resp. (type, value, offset, fill mark, free length); scripts: one case per (type, driver kind, stream of 1..3 varints through one Source/Sink, placement of driver answers other than 'served'), odometer over the placements; decode histories: one case per (memory = 0..2 (thorough 3) complete varints + tail, exact-size block or block that goes on with terminators, fill mark 0..size, type of the varint decodes, type of the tail decode); in place: one case per (type, decoder, value, position of the encoding, aligned position of the result object in the same 16/24-octet block); nested: one case per (outer type, outer value, sink kind, inner type, inner value). "
            "Non-trivial = value whose encoding has >= 2 octets / string whose first octet carries the continuation bit / descriptor with a non-zero fill mark resp. history with two encodes / window of more than 255 octets / script with at least one disturbance actually given by the driver / decode history with at least one successful decode in front of a rest that is cut off by the end of the memory / result object inside the buffer's memory next to (not overlapping) an encoding of >= 2 octets / nested encode of an outer value of >= 2 octets",
    "assumptions": ["64-bit values outside the structured families are not enumerated",
                    "decoder input octets are drawn from {00,01,7f,80,81,ff}; length <= 8 (quick, plus lengths 9..11 over {00,7f,80}) / 11 (thorough)",
                    "encoders on descriptors that are not fresh: the statement does not say where the form goes; three readings are accepted call by call (written at the read cursor with the fill mark set to its end; written at the read cursor with the fill mark never moved backwards, used = max(used, offset + len); appended at the fill mark), anything else is a violation; success is demanded only when the descriptor holds nothing unread (offset == used, where the readings coincide) and the documented maximum (5/10 octets) is free behind the fill mark; a refusal of a descriptor with unread data (offset != used) or with less room is accepted and nothing is demanded of a refused call; cursor operations between the calls are plain assignments to the public struct",
                    "decodes inside histories are only issued when the unread part starts with a complete canonical encoding (verdict independent of whether a decoder is bounded by the fill mark or by the memory)",
                    "sources deliver one octet per call and -ENODATA at the end; scripted drivers additionally answer 0, -EINTR, -EAGAIN or -EIO at every call position (at most 2 per varint / 1 per stream quick, 3 / 2 thorough) and then leave a poison octet (00 or d5) in the caller's octet. After such an answer an error return is always accepted (the statement does not say which answers are retried); a success must be exact: value, count and consumed octets are those of the delivered octets",
                    "scripted sinks answer 0, -EINTR, -EAGAIN, -EIO at every call position, chunk sinks also take at most 1, 2 or 3 octets per call; after any such disturbance an error return is accepted, a success must have delivered exactly the minimal form; the return value of the sink encoders is only required to be non-negative on success",
                    "a library call that makes more than 48 driver calls for one varint is reported as a hang",
                    "large windows are real memory (one 8 GiB MAP_NORESERVE mapping per process, only touched pages exist) that ends at an inaccessible page: a read beyond the buffer's memory faults; declared sizes larger than the memory behind them are not generated",
                    "ASan red zones around exact-size heap blocks observe reads beyond the buffer's memory",
                    "'rejected as illegal' is read as: an error, and not the code that says 'cut off, more octets needed' (-ENODATA); which code says 'illegal' is not fixed by the statement. Where the unterminated digits also exceed the type's width "
                    "(last octet of the maximum length carries bits beyond 32/64) a second failure class applies and any negative code is accepted. "
                    "Likewise (audit 6) where the memory behind the read cursor (in decode histories also: the fill mark) ends exactly at the type's maximum, all of it continuation octets: "
                    "'cut off by the end of the buffer' is true of that input as well, a buffer decoder that tests the end of the memory before the maximum answers the cut-off code and consumes nothing; "
                    "any negative code of the BUFFER decoder is accepted there (the source decoders, which have been handed the maximum number of octets and no end, still owe a code other than -ENODATA)",
                    "in place: the round-trip sentence is also demanded when the (aligned) result object lies inside the buffer's memory but does not overlap the encoding (canonical encodings only; nothing is demanded of the buffer's content afterwards). "
                    "Placements where the result object overlaps the encoding are run and logged but NOT judged (audit 5: the statement says nothing about the result aliasing the input; a decoder that sets *n = 0 on entry and accumulates directly into *n is ordinary hardening); class inplace-overlapping is optional; seeded change C14i is no longer reported",
                    "decode histories: the cut-off sentence (error, consumes nothing, no read beyond the memory) is demanded in every fill-mark flavour, also when the read cursor is beyond the fill mark (a byte_buffer_space() descriptor after its first decode); "
                    "the round-trip sentence only when the whole encoding lies in [offset, used): for a complete encoding that reaches beyond the fill mark an exact success or a refusal are both accepted (the statement does not say such octets are in the buffer), a refusal ends the history (trivial class dechist-*-refused-beyond-mark); "
                    "only the classes of the filled flavour are required, those of the space/partly flavours depend on that choice and are optional",
                    "a byte_buffer_set that refuses a window descriptor of >= 2^31 octets (a size limit of the byte buffer, e.g. size > INT32_MAX) ends the case as the trivial class window-refused-big and records a cap (exhaustive=False, exit 0); the window-*-big classes are therefore optional; a refusal below 2^31 octets remains an infrastructure failure (exit 2)",
                    "nested: a sink's driver may itself call a sink encoder on another sink before it stores the chunk/octet it was handed (stacked sinks); both encodings must deliver the minimal form. No driver answers other than 'took everything' in this family. "
                    "This demands re-entrancy of varint_*_to_sink, on which the statement has no sentence (audit 5: a `static` scratch array in the sink encoders is correct for every sink that does not call back), so the family is gated: a start-up probe, outside any case, "
                    "runs every (outer type, inner type, sink kind) x outer values {0x80, all-ones} x inner values {chunk length, 1234, all-ones} with and, where that goes wrong, without the inner call; if an encoding is wrong only when the driver encodes too, "
                    "the nested cases are numbered but not run (trivial class nested-not-run, cap, exhaustive=False, exit 0), never a violation; nested-chunk-sink / nested-octet-sink are not required; seeded change C14j is no longer reported",
                    "vacuity guard: only classes that every implementation satisfying the statement produces are required (encodes on descriptors with offset == used); the classes of encodes below the fill mark (dirty-encoded-below-mark, history-reencoded-below-mark) are reported but optional, because refusing such descriptors is admissible"],
    "harnesses": [{
        "name": "c14_varint", "src": "harness/c14_varint.c", "shape": "espace", "opt": "-O2",
        "lib": ["src/variable-length-integer.c", "src/byte-buffer.c", "src/endpoints/core.c", "src/endpoints/buffer.c"],
        "min_outcomes": 38,
        "require_outcomes": {
            "quick": ["rt32-len1", "rt32-len5", "rt64-len1", "rt64-len9", "rt64-len10",
                      "dec-trunc32-trunc64", "dec-ill32-trunc64", "dec-ill32-ill64",
                      "dec-ill32-ok64-canonical", "dec-ill32-ok64-overlong", "dec-ok-canonical",
                      "dec-ok-overlong", "dec-ok-overflow32-canonical64", "dec-ill32-ok64-overflow", "sweep32-maxlen3",
                      "dirty-encoded-at-mark", "history-reencoded-at-mark",
                      "window-ok", "window-cutoff", "window-encoded",
                      "dechist-filled-cutoff", "dechist-filled-ok", "dechist-filled-illegal",
                      "srcscript-undisturbed", "srcscript-zero", "srcscript-eintr", "srcscript-eagain", "srcscript-hard",
                      "sinkscript-undisturbed", "sinkscript-zero", "sinkscript-eintr",
                      "sinkscript-eagain", "sinkscript-hard",
                      "inplace-disjoint"],
            "thorough": ["rt32-len1", "rt32-len5", "rt64-len1", "rt64-len9", "rt64-len10",
                         "dec-trunc32-trunc64", "dec-ill32-trunc64", "dec-ill32-ill64",
                         "dec-ill32-ok64-canonical", "dec-ill32-ok64-overlong", "dec-ill32-ok64-overflow",
                         "dec-ok-canonical", "dec-ok-overlong", "dec-ok-overflow32-canonical64",
                         "sweep32-maxlen3", "sweep32-maxlen4", "sweep32-maxlen5", "sweep64-maxlen10",
                         "dirty-encoded-at-mark", "history-reencoded-at-mark",
                         "window-ok", "window-cutoff", "window-encoded",
                         "dechist-filled-cutoff", "dechist-filled-ok", "dechist-filled-illegal",
                         "srcscript-undisturbed", "srcscript-zero", "srcscript-eintr", "srcscript-eagain", "srcscript-hard",
                         "sinkscript-undisturbed", "sinkscript-zero", "sinkscript-eintr",
                         "sinkscript-eagain", "sinkscript-hard",
                      "inplace-disjoint"],
        },
    }],
}
