CHECK = {
    "level": "model_checking",
    "technique": "stateless bounded-exhaustive enumeration of closed executions of every flenp_* entry point on the real code "
                 "(inputs x buffer states x chunk lists x destination capacities x source fragmentation scripts) against an "
                 "independently written prefix codec",
    "rule": "odometer, simplest first: encoders over every buffer state (offset<=used<=size<=S) x every n<=rest x 6 kinds x 8 entry "
            "points x {chunk sink, octet sink}; every chunk list (<=C chunks, rest 0..3, lead/slack 0..1, active<=A) incl. empty and "
            "inactive chunks; lengths 1..1100 and 65534..65536 on real memory; the 2^31/2^32/SSIZE_MAX maxima +-1 through fake "
            "buffers and a segment sink that never dereferences beyond the 16 real octets; decoders over every destination buffer "
            "state and capacities len-1,len,len+1, lengths 1..1100 and the 16-bit maxima, 32-bit and SSIZE_MAX prefix values (never beyond the "
            "kind's maximum) against real destinations of 1 and 7 octets; streams of 1..3 frames (<=L octets) under all 2^(L-1) fragmentations by a chunk source, a "
            "130-octet frame (two-octet varint prefix) under all fragmentations with <=2 cuts, and the same streams through an "
            "octet source.  The quantifier text names no random part; nothing is sampled.  Non-trivial = buffer case where "
            "offset>0 or free space != unread or n<rest, chunk list with >1 chunk or an inactive chunk, stream with >=1 cut or "
            ">=2 frames, every memory/decoder/maxima case.",
    "assumptions": [
        "64-bit little-endian host (size_t and ssize_t 64 bit)",
        "payload octets are position dependent pat(i)=1+i%199; payload *values* are not enumerated (framing does not look at them)",
        "sinks accept a whole request per call (sink-side short writes belong to C17); sources fragment by positive short reads only "
        "(0 / EINTR / EAGAIN answers belong to C17)",
        "varint kind: lengths <= SSIZE_MAX-10 have to be accepted, > SSIZE_MAX (or a total that does not fit ssize_t) refused, "
        "the values in between are left open",
        "prefix-object encoders return a status: demanded >= 0 plus a prefix view (anywhere inside the object's prefix storage) "
        "holding the encoding and a payload view / chunk list designating exactly the octets (sequence of non-empty address ranges; "
        "the representation of the list is not compared)",
        "decoders: prefix values beyond the kind's maximum (varint: > SSIZE_MAX) are outside the statement and not generated; "
        "destinations are always real exact-size blocks (no claimed capacities), so a write inside the destination is never an alarm",
        "decode_source_to_sink: only a non-negative return is demanded on success (the sink content decides); "
        "accepting decodes at the 32-bit maxima (4 GiB destinations) are not run",
        "ASan red zones around exact-size heap blocks observe writes past a destination",
    ],
    "harnesses": [{
        "name": "c13_lenprefix", "src": "harness/c13_lenprefix.c", "shape": "espace",
        "lib": ["src/length-prefix.c", "src/endpoints/core.c", "src/byte-buffer.c", "src/variable-length-integer.c"],
        "min_outcomes": 10,
        "require_outcomes": {"any": ["enc-accept", "enc-refuse", "chunks-accept", "chunks-refuse",
                                     "encmax-accept", "encmax-refuse", "dec-accept", "dec-enomem",
                                     "decmax-enomem", "stream-inorder", "stream2-inorder", "stream-octet"]},
    }],
}
