CHECK = {
    "level": "model_checking",
    "technique": "stateless bounded-exhaustive enumeration of closed executions of every flenp_* entry point and of every lenp_* compatibility entry point "
                 "of include/ufw/length-prefix.h on the real code "
                 "(inputs x buffer states x chunk lists x destination capacities x source fragmentation scripts x sink answer scripts x "
                 "request histories of _n slices off one buffer x histories of accepted and refused calls on one prefix object x aliased memory x drivers that call the library themselves on lower endpoints) "
                 "against an independently written prefix codec; counts beyond 2^31 are "
                 "covered by structured boundary families through buffers/destinations that are never touched (fake extents over 16 real "
                 "octets, an untouched 8 GiB anonymous mapping) and drivers that identify octets by address (a decoder that asks its source to "
                 "fill memory outside that mapping -- a bounce buffer -- cannot be followed this way: such cases are ended as not judged, "
                 "a cap, never a violation)",
    "rule": "7 'kinds' = the 6 prefix kinds through flenp_* plus the varint kind through the lenp_* entry points of the header (called in call syntax, result converted as by "
            "`ssize_t rc = lenp_...()`), every family below runs over all 7. "
            "Odometer, simplest first: encoders over every buffer state (offset<=used<=size<=S) x every n<=rest x 6 kinds x 8 entry "
            "points x {chunk sink, octet sink}; the two _n entry points on every buffer state (size<=4/6, offset>0 and empty included) asked "
            "for n beyond every kind's maximum and beyond the content (256, 2^16, 2^31, and every value within size+1 of 2^32, SSIZE_MAX "
            "and SIZE_MAX, i.e. every n for which offset+n wraps): admissible answers are a refusal with nothing emitted followed by a "
            "second slice off the same buffer, or (at-most reading) a frame of exactly the unread octets with the buffer advanced by "
            "their number; "
            "every chunk list (<=C chunks, rest 0..3, lead/slack 0..1, every active index<=A) incl. empty and "
            "inactive chunks; the four sink encoders (lengths<=3/5) into sinks that answer within the driver contract but not all at "
            "once: every placement of <=2/3 answers from {1, asked-1, 0, EINTR, EAGAIN} (octet sinks: {0, EINTR, EAGAIN}) over the "
            "first 4/6 (6/8) sink calls; lengths 1..1100 and 65534..65536 on real memory; the 2^31/2^32/SSIZE_MAX maxima +-1 through fake "
            "buffers and a segment sink that never dereferences beyond the 16 real octets, also with a first sink answer of 1, 2^31, "
            "2^32-11, 2^32-4, 2^32-5, 2^32 octets (counts whose low 32 bits read as a negative number, an errno code or 0); "
            "decoders over every destination buffer "
            "state and capacities len-1,len,len+1, lengths 1..1100 and the 16-bit maxima, 32-bit and SSIZE_MAX prefix values (never beyond the "
            "kind's maximum) against real destinations of 1 and 7 octets; accepting decodes of 2^32-3, 2^32-1, 2^32+5, 2^33-3 octets into an "
            "untouched mapping with a first source read of 1, 2^31, 2^32-11, 2^32-4, 2^32-5, 2^32, 2^33-4 octets; decode_source_to_sink on frames of 2^31, 2^31+7, 2^32-3, 2^32-1, 2^32+5, 2^33-3 octets from a "
            "source that offers the untouched mapping as its scratch block (getbuffer extension) into a counting sink, same first reads (octets identified by address and count); streams of 1..3 frames (<=L octets) under all 2^(L-1) fragmentations by a chunk source (streams <=10/13 octets also by a chunk source that offers a scratch "
            "block of 1, 3 or 8 octets through the getbuffer extension, sink decoder), a "
            "130-octet frame (two-octet varint prefix) under all fragmentations with <=2 cuts, and the same streams through an "
            "octet source; "
            "enc-sum: chunk lists of 2..4 equal fake-extent chunks whose unread octets add up to 2^31-1, 2^31, 2^31+5, 0x90000000, 2^32-1, 2^32, 2^32+5, 0x180000000 (no single chunk near a boundary), "
            "chunks_use / chunks_to_sink; "
            "enc-alias / dec-alias (aliased memory, see assumptions): memory_to_sink / buffer_to_sink / buffer_to_sink_n into a chunk or octet sink that appends to the memory of the ByteBuffer the payload is "
            "taken from, through a descriptor of its own (0/1 consumed octets in front, unread <= 4/6 and 130, 300, every n, room exact or +1; buffer_to_sink_n also as every composition of the unread octets into a history of slices), "
            "and the three decoders from a chunk or octet source that reads (through a descriptor of its own) the unread content of the memory the payload is appended to (1..2 frames of <= 3/5 and 130 octets, room exact, +1, and one short); "
            "reent-enc / reent-dec (stacked endpoints; gated by a start-up probe, see assumptions: run only when the library proves re-entrant, otherwise numbered and classed reent-not-run with a cap): the four sink encoders (lengths 1,3,300 / 1,2,3,130,300,65535; chunk sink, chunk sink taking one octet per call, octet sink) and the three decoders "
            "(source of the same three styles; decode_source_to_sink also with the sink stacked) whose driver, in its call 0, 1 (thorough: ..3) or in each of its first 8 calls, before or after doing its own job, "
            "calls one of the 11 entry points with one of the 6 kinds on lower endpoints of its own - with a payload/frame of its own (2, 200 / 1, 2, 200, 300 octets) or, for sink drivers and the four sink "
            "encoders, with exactly the pointer and count it was handed (tunnelling) - and sources that obtain what they hand out by decoding (3 decoders x 6 kinds) a lower stream that carries the outer stream "
            "in frames of 1, 2 or 5 octets; both the outer and every lower call are judged by the oracle of their entry point. "
            "obj-hist (histories on one prefix object): every sequence of <= 3 (thorough 4) calls on ONE LengthPrefixBuffer over the alphabet {memory_encode, buffer_encode, buffer_encode_n} x {1, 5 octets: accepted; "
            "maximum+1, 2^64-1 octets through fake extents: refused}, and of <= 4 (5) chunks_use calls on one LengthPrefixChunks (list totals 3, 6, maximum+1, 2^64-1): every accepted call is held to the usual oracle "
            "of its entry point, after every refused call the object is inspected (see assumptions). "
            "The quantifier text names no random part; nothing is sampled.  Non-trivial = buffer case where "
            "offset>0 or free space != unread or n<rest, chunk list with >1 chunk or an inactive chunk, stream with >=1 cut or "
            ">=2 frames, sink-script case in which a deviating answer was really delivered, stacked-endpoint case in which at least one lower call was really made from inside a driver, "
            "every memory/decoder/maxima/refusal/aliasing case.",
    "assumptions": [
        "64-bit little-endian host (size_t and ssize_t 64 bit)",
        "payload octets are position dependent pat(i)=1+i%199; payload *values* are not enumerated (framing does not look at them)",
        "sinks answer within the driver contract of endpoints/core.c (a count <= asked, 0, -EINTR, -EAGAIN; hard sink errors are not "
        "scripted: the statement does not say what an encoder does with them); sources fragment by positive short reads only "
        "(0 / EINTR / EAGAIN answers of a source belong to C17; the varint prefix is read octet-wise through the at-most API)",
        "re-entrancy: the statement has no sentence on it (audit 5: a `static` prefix scratch object in the sink encoders frames everything correctly for every sink that does not call back into the library). "
        "The stacked-endpoint families (a driver that frames / de-frames on a lower endpoint of its own through the same library) are therefore gated like dec-huge: a start-up probe, run in every process "
        "outside any case, executes every outer entry point x 7 kinds x 3 driver styles (lengths 3, 300) with every lower entry point x 6 kinds made before / after the driver's job in each of its first "
        "8 calls (own payload of 2 octets, tunnelled, and the tunnelling sources), and where such an execution is wrong repeats it with the lower calls switched off: if an execution is wrong only when "
        "a lower call is made, the library is not re-entrant, the reent-* cases are numbered but not run (trivial class reent-not-run, cap, exhaustive=False, exit 0) - never a violation; the reent-* "
        "classes are not required; seeded changes C13k and C13n (static scratch) are no longer reported. The same rule is applied per case (audit 6: the probe's lower calls have an own payload of 2 octets, a non-reentrancy that depends on the size of the lower call passes it): a reent-* execution runs with its failures noted, not reported; if it failed and nested calls were made it is repeated with the nested calls switched off, and if it then passes the case ends as reent-not-reentrant (trivial, cap) instead of a violation; otherwise the noted failure is reported. Where the library is re-entrant by the probe, both the outer call and the call made from "
        "inside the driver are held to the oracle of their entry point; the lower endpoints are objects of the driver, never the outer call's own arguments",
        "aliasing between the arguments of one call, decided as follows. Admitted (the designated octets are fixed by the arguments when the call is made and nobody writes them during the call): "
        "a sink that appends behind the fill mark of the memory the payload is taken from (memory_to_sink, buffer_to_sink, buffer_to_sink_n: the frame is the memory behind the old fill mark, "
        "_n advances the argument's offset by n and leaves it otherwise as handed in), and a source that reads the unread content of the memory the payload is appended to (all three decoders; "
        "decode_source_to_sink with source and sink on one memory block). What is aliased is the MEMORY only: every driver has a ByteBuffer descriptor of its own over it, the descriptor passed as the "
        "call's argument is a separate object that nobody but the library touches during the call (a library working on a local copy of its argument descriptor and writing it back is legitimate: audit 5), "
        "and the harness carries fill mark / read position from one descriptor to the other between calls. Not admitted, not generated: a sink appending to a chunk of "
        "the chunk list being framed (the total is a moving target; no implementation can snapshot it without extra storage), a prefix object whose own payload view is passed as the buffer argument, "
        "a decode destination overlapping the unread stream",
        "_n entry points: the statement has no sentence for n > unread content; such n are only generated where n is also beyond "
        "the kind's maximum, and two answers are accepted: (a) a refusal (any negative code) with nothing emitted, or (b) a frame "
        "of exactly the `rest` unread octets (prefix = rest, payload = those octets, total reported, buffer advanced by rest) when "
        "rest is a length the kind frames; with rest = 0 an accepting return is judged by the read position only (a frame of no "
        "octets is outside the statement); an accepting return that is neither is reported (*-refuses-overmax).  A refused _n "
        "request may or may not advance the buffer, but the read position must stay "
        "inside [old offset, used] (clause *-position): a buffer is only ever advanced, and the next slice carries unread octets",
        "counts >= 2^31 are observed by address: the drivers of those cases do not touch the octets (no 4 GiB allocation); an "
        "implementation that bounces such transfers through a private buffer is not supported by these cases: the dec-huge family first "
        "probes both decoders on a 64 MiB mapping and is not run (outcome dechuge-not-run, run reported non-exhaustive, exit 0) if the "
        "source is asked to fill memory outside the mapping (exact: the first such call decides, any bounce size) or if pages of the "
        "mapping came into existence; inside a case the same observation ends the case as dechuge-not-judged with a cap; a read that "
        "names the mapping but not destination+moved is a violation only if no page of the mapping exists afterwards (the decoder "
        "never moved octets itself); addresses outside the mapping are never logged; a sink/source of these cases stops serving after 256 calls, and a run in which everything moved until then was the designated payload in order is not judged (an implementation that moves little per call)",
        "fake-extent families (enc-max, its first-sink-answer form, enc-sum; audit 6): accepting SINK-encoder calls are handed a buffer that claims >= 2^31 octets over 16 real ones and the payload is recognised by the pointer the sink is handed; both rest on the encoder passing the caller's memory straight to its sink, which the statement does not say (an encoder that reads its own input - staging through a private buffer, emitting short pieces octet by octet - is legitimate). Gated like dec-huge: a probe on real memory (the four sink encoders x 4 kinds on a 300-octet payload, chunk list 300 + 2 octets) decides; if any sink call carrying octets behind the prefix names memory outside the caller's blocks, those cases are numbered but not run (class encmax-not-run, cap, exhaustive=False, exit 0); in a case that runs, octets behind a correct prefix that arrive from memory that is not the caller's end the case as encmax-not-judged (cap). Refusals (nothing is read before a refusal) and the prefix-object encoders (views, nothing is read) always run; encmax-partial-sink is not a required class any more",
        "varint kind: lengths <= SSIZE_MAX-10 have to be accepted, > SSIZE_MAX (or a total that does not fit ssize_t) refused, "
        "the values in between are left open",
        "prefix-object encoders return a status: demanded >= 0 plus a prefix view (anywhere inside the object's prefix storage, whose extent is sizeof the object's prefix_ member as compiled - audit 6) "
        "holding the encoding and a payload view / chunk list designating exactly the octets (sequence of non-empty address ranges; "
        "the representation of the list is not compared)",
        "'refused before anything is emitted' for the entry points that emit into a prefix object: what they emit is what they put into the object (prefix octets, designation of the payload), and the object is kept "
        "by its owner for sending / re-sending; after a refused call two states are admitted: (A) the frame of the last accepted call exactly as it was (prefix view holds the same octets, payload view designates the same "
        "octets) or (B) no frame at all (prefix view or payload view empty - a refusal that nulls the object first is legitimate, cf. C18); reported (clause *-refuses-overmax): a non-empty prefix view together with "
        "a non-empty payload view that are not those of (A), e.g. the previous prefix in front of the refused message; a non-empty prefix view lying outside the object's storage is not dereferenced and not judged; "
        "chunks_use: the payload list is the caller's (set before the call), only the prefix view is judged (as it was, or empty); histories on a sink are not a subject (a sink has no state the statement speaks of)",
        "decoders: prefix values beyond the kind's maximum (varint: > SSIZE_MAX) are outside the statement and not generated; "
        "destinations are always real exact-size blocks (no claimed capacities), so a write inside the destination is never an alarm",
        "decode_source_to_sink: only a non-negative return is demanded on success (the sink content decides); when the sink has no room, any negative code is accepted and nothing beyond the sink's room may be delivered (whether a sink has room is the sink's answer and reaches the caller through the plumbing of endpoints/core.c, for which C17 admits any negative code - audit 6; -ENOMEM stays demanded of the memory and buffer decoders, whose destination the decoder itself measures); "
        "its accepting decodes at the 32-bit maxima (dec-huge-sink) rest on the decoder moving the payload through the block the source offers: a probe with a 64 MiB frame decides; "
        "if the source is asked to fill other memory the family is not run / the case not judged (cap, exhaustive=False, exit 0), never a violation",
        "ASan red zones around exact-size heap blocks observe writes past a destination",
    ],
    "harnesses": [{
        "name": "c13_lenprefix", "src": "harness/c13_lenprefix.c", "shape": "espace",
        "lib": ["src/length-prefix.c", "src/endpoints/core.c", "src/byte-buffer.c", "src/variable-length-integer.c"],
        "min_outcomes": 10,
        "require_outcomes": {"any": ["enc-accept", "enc-refuse", "chunks-accept", "chunks-refuse",
                                     "encmax-accept", "encmax-refuse", "dec-accept", "dec-enomem",
                                     "decmax-enomem", "stream-inorder", "stream2-inorder", "stream-octet",
                                     "refuse-n", "refuse-n-offset", "refuse-n-then-slice",
                                     "encbeh-zero-return", "encbeh-interruption", "encbeh-partial", "encbeh-mixed",
                                     "stream-getbuffer",
                                     "encsum-accept", "encsum-refuse", "alias-enc", "alias-enc-slices", "alias-dec", "alias-dec-enomem",
                                     "objhist-refused-after-accept", "objhist-refused-first", "objhist-chunks-refusal", "objhist-no-refusal"]},
        # reent-enc / reent-enc-tunnel / reent-dec / reent-dec-tunnel / reent-dec-sink are not required: on a library that is not
        # encmax-partial-sink is not required: a sink encoder that hands its sink octets from memory of its own makes the fake-extent
        # families end as encmax-not-run / encmax-not-judged (cap)
        # re-entrant (start-up probe) the whole family ends as reent-not-run (with a cap: exhaustive=False), not a vacuity failure
        # dechuge-accept / dechuge-sink-accept are not required: a decoder that does not deliver in place makes the whole family end as
        # dechuge-not-run / dechuge-not-judged (with a cap: exhaustive=False), which is not a vacuity failure
    }],
}
