import os as _os
# compiled with the library's flags next to the ufw sources of the mixed builds (tells the harness what the
# library's translation units see as sizeof(rb_iter) / sizeof(octet_ring)); an absolute path survives os.path.join
_LIBSIDE = _os.path.join(_os.path.dirname(_os.path.dirname(_os.path.dirname(_os.path.abspath(__file__)))), "harness", "c19_libside.c")

CHECK = {
    "level": "model_checking",
    "technique": "explicit-state search to fixpoint over (ring implementation state, model queue) pairs; the implementation state is the object's octet image (every word that points into the storage replaced by its offset) plus the storage cells, so no particular encoding of head/tail/empty is assumed; six instances of the template: uint8_t (the library's octet_ring), uint16_t, uint32_t, float, double, int64_t; "
                 "roots: init (mode probed, not assumed), init+override(off), init+override(on), init of a 0xff-filled object (capacities <= 3); "
                 "re-initialisation of the used object (NAME_init on fresh storage, capacities cap-1/cap/cap+1/1/max) is an operation of the search, its model is an empty ring of the new capacity whose mode is probed on a copy of the re-initialised object (the statement is silent on the mode after re-initialisation); "
                 "observers and both iterators run in every state, every iteration on iterator objects with 7 different histories; "
                 "plus a bounded-exhaustive family of structured histories on capacities straddling 2^8 and 2^16 (thorough also 2^15, 2^17); "
                 "thorough only: the library's octet_ring driven on capacities 2^31+16 and 2^32+8 (lazily committed anonymous memory between two inaccessible pages, one process per capacity) through fill / overfill / change of mode on the full ring / drain (override off) and fill / evict once around / clear / refill (override on), "
                 "the model being the interval of sequence numbers of the queued elements and a value function of the sequence number; size/empty/full and both iterators over their first 64 elements at checkpoints straddling 2^31, 2^32 and the capacity, counted in puts, gets and evictions; "
                 "build variants: the search at capacities 1..3 is repeated with assertions enabled everywhere (the repository's default build type), and with the library objects and the application (this harness with its own template instances) built with different NDEBUG settings, both ways (the two mixed builds only if a start-up probe finds the object layouts of both sides equal)",
    "rule": "a case is one transition (operation applied to a reachable state) followed by size/empty/full and both iterators run to completion; non-trivial = everything but clear of an empty ring; "
            "path numbers 0..5 are put(A) put(B) get clear override(on) override(off), 100+B is NAME_init(object, fresh storage, B); "
            "layout probe cases (mixed builds): sizeof/alignof of rb_iter and of octet_ring on both sides of the library boundary; "
            "probe cases: init, cap puts, one more put, get (decides the mode the model gives a freshly initialised ring); "
            "big cases: one structured history (rotate cursors, fill, overfill, iterate, drain, iterate, two more puts, iterate, drain to empty); "
            "huge cases (thorough): one history of about 2 x capacity operations on a ring of 2^31+16 or 2^32+8 octets -- override off: rotate, fill, two dropped puts, override(on) + two evicting puts + override(off) + one dropped put, drain to empty (with 32 left: 32 puts across the wrap, 32 gets), get on empty; "
            "override on: rotate, fill, capacity+32 evicting puts, 64 gets, 2 puts, clear, 65 puts -- every get compared with the oldest element, observers (size/empty/full, both iterators over their first 64 elements, to completion on shorter queues) at every checkpoint; "
            "outcome huge-slow / huge-unmapped: the case was not run (projected time beyond half its watchdog budget / no address range), run marked non-exhaustive",
    "assumptions": ["two element values per type (float/double: fractions of either sign; int64_t: a negative value and one beyond 2^32), compared by bit pattern; capacities up to the stated bound (small-scope); large capacities only through the structured family named in the bound, with position-dependent element values",
                    "rings of more than 2^31 / 2^32 slots (thorough): octet_ring only (the template is the same text for every element type; 2 and 4 GiB of real memory per ring, one ring at a time per process, two processes); capacities 2^31+16 and 2^32+8, rotation 0 and 1 (2^32+8: 0); "
                    "the iterators are not run to completion there but over the oldest 64 (old-to-new) and the newest 64 (new-to-old) elements at each checkpoint: the checkpoints (fill level, number of evictions, number of gets at 1, 2, 32, 64, 65, 2^k-32, 2^k-1, 2^k, 2^k+1, 2^k+32 for 2^k in {2^31, 2^32} below the capacity, cap-32, cap-1, cap, and for evictions cap+1, cap+32) put both ends of the queue on either side of each such slot number and of the wrap; "
                    "element number s has the value ((s * 0x9e3779b97f4a7c15) >> 56) | 1: odd, so distinct from the 0 of an empty get and from the even value 0x7e of a put the model says is dropped; a misplaced element is seen with probability 127/128 per compared element (64 per window)",
                    "the statement sets no speed: each huge case states a watchdog budget proportional to its work (60 s + 40 ns per operation; the unchanged library needs about 9 ns); a start-up probe (64 KiB ring: 4 Mi evicting puts, get/put pairs, iterator steps, best of three) projects its time, and a case projected beyond half its budget is not run (cap huge-slow, non-exhaustive) instead of being reported as a hang; the clock is not consulted in a replay and never printed",
                    "instances: library octet_ring (uint8_t) and harness instantiations of the same macro template for uint16_t/uint32_t/float/double/int64_t ('get returns the oldest element' holds for every element type the template is instantiated with)",
                    "the ring object is a flat struct; a state is restored on a fresh exact-size block by copying the object's octets (padding included) and pointing every aligned pointer-sized word whose value lay in [storage, storage + capacity * sizeof(TYPE)] at the same offset of the new block (the storage pointer, cached positions); keys and printed object images hold the offsets, never addresses; an integer member that happens to equal an address inside the storage would be mistaken for such a pointer",
                    "the state set of one search is limited to 8 x (from capacity 7: 4 x) (24 * cap * 2^cap + 400) states (the unchanged library reaches 78..243714 at capacities 1..10): an object whose image never repeats (counters of dropped/evicted elements) has no fixpoint, its search stops at the limit and the run is marked non-exhaustive",
                    "no clause inspects head/tail or the iterator's index, and the harness names no member of the ring object: a slot outside the storage is observed by ASan on the exact-size block; a ring that moved its storage is seen by the pointer-rebasing restore (the fresh block's cells no longer follow the queue) and by ASan",
                    "NDEBUG is a per-translation-unit setting of the C standard and not part of the statement: the property has to hold with assertions enabled (a failed assertion on a history of the statement is reported as memsafe/abort), and when the separately built library objects (octet_ring, rb_iter_done, rb_iter_advance) and the application that instantiates the header templates disagree on NDEBUG -- provided the two sides agree on the layout of the public object types: the statement does not promise a layout independent of NDEBUG (a debug-only member of rb_iter or of the ring object is a legitimate design, such a library is built with its application's setting), so each mixed harness compares sizeof/alignof of rb_iter and octet_ring as seen by a file compiled with the library's flags (harness/c19_libside.c) with its own view at start-up and does not search on a mismatch (two probe cases, cap `layout-ndebug`, run marked non-exhaustive)",
                    "the override mode chosen by init is not assumed: it is observed on a fresh zeroed object (fill, one more put, get: dropped or evicted) and the model of every ring that was initialised for the first time -- on a zeroed object or on one that held 0xff octets -- starts in that mode; every other history sets the mode explicitly",
                    "the statement is silent on the mode of a ring that is initialised again after use (as a fresh one, or the mode configured before: either is a correct queue): it is observed on a copy of the re-initialised object (fill, one more put, get) and the model continues with what was seen; neither dropped nor evicted is a violation (C19/put-full)",
                    "NAME_init on a used object is read as the start of a new history of the statement (the ring then has the new capacity and is empty); a re-initialised state identical (object image, cells, model incl. mode) to the fresh root of another capacity is not explored again in this partition, that capacity's own search explores it",
                    "an rb_iter object may hold anything when NAME_iter is called on it (zero, 0xff, a finished or unfinished iteration over another ring or over this ring in the other direction): the statement's iterator clauses do not depend on the iterator object's past",
                    "capacity 0 is not generated: the quantifier starts at capacity 1, and a ring of no elements has no admissible behaviour to compare (the unchanged library computes index % 0 there)",
                    "the lineage of the 0xff-filled object is kept within capacities <= 3 (its padding octets differ from a fresh object's, so none of its states is shared with the other roots)"],
    "harnesses": [{
        "name": "c19_ring", "src": "harness/c19_ring.c", "shape": "estate",
        "lib": ["src/octet-ring.c", "src/ring-buffer-iter.c"], "shards": 16, "opt": "-O2", "min_outcomes": 12,
        "require_outcomes": {"any": ["put-evicts", "put-dropped", "get-empty", "get-oldest", "clear",
                                     "reinit", "initial-dirty-object", "big-stored", "big-dropped", "big-evicts"]},
        # huge-dropped / huge-evicts (thorough) are not required here: a machine too slow for the family caps it
        # (huge-slow), which must not read as a vacuous run; the process that drives a huge capacity guards itself
        # (mc_broken when neither the histories of both modes nor a cap were seen)
    }] + [{
        # the same search (capacities 1..3) in the other NDEBUG configurations: NDEBUG is a per-translation-unit
        # setting, the library objects and the application's own template instances are built separately
        "name": n, "src": "harness/c19_ring.c", "shape": "estate",
        "lib": ["src/octet-ring.c", "src/ring-buffer-iter.c"], "shards": 4, "opt": "-O1", "min_outcomes": 9,
        "cflags": ["-DC19_LIGHT"] + fl,
        "require_outcomes": {"any": ["put-evicts", "put-dropped", "get-empty", "get-oldest", "clear", "reinit", "initial-dirty-object"]},
    } for n, fl in (("c19_ring_assertions", ["-UNDEBUG"]),)] + [{
        # mixed builds: gated on a start-up probe (do library and application agree on sizeof/alignof of rb_iter and
        # octet_ring?).  A library whose public layouts depend on NDEBUG is not searched in a mixed build (cap, two probe
        # cases only), so the search's outcome classes cannot be required here; a shard that did search guards itself
        # (mc_broken below 6 classes), and the all-assertions harness above keeps the full guard.
        "name": n, "src": "harness/c19_ring.c", "shape": "estate",
        "lib": ["src/octet-ring.c", "src/ring-buffer-iter.c", _LIBSIDE], "shards": 4, "opt": "-O1", "min_outcomes": 2,
        "cflags": ["-DC19_LIGHT"] + fl,
        "require_outcomes": {},
    } for n, fl in (("c19_ring_lib_assertions_app_ndebug", ["-UNDEBUG", "-DC19_APP_NDEBUG"]),
                    ("c19_ring_lib_ndebug_app_assertions", ["-DC19_APP_DEBUG"]))],
}
