CHECK = {
    "level": "model_checking",
    "technique": "explicit-state search to fixpoint over (ring implementation state, model queue) pairs; the implementation state is the object's octet image (storage pointer blanked) plus the storage cells, so no particular encoding of head/tail/empty is assumed; roots: init+override(off) and init+override(on); observers and both iterators run in every state",
    "rule": "a case is one transition (operation applied to a reachable state) followed by size/empty/full and both iterators run to completion; non-trivial = everything but clear of an empty ring",
    "assumptions": ["two element values per type; capacities up to the stated bound (small-scope)",
                    "instances: library octet_ring (uint8_t) and harness instantiations of the same macro template for uint16_t/uint32_t",
                    "the ring object is a flat struct whose only pointer is the member `data` (the harness re-points it at a fresh exact-size block per transition); a state is restored by copying the object's octets, padding included",
                    "no clause inspects head/tail or the iterator's index: a slot outside the storage is observed by ASan on the exact-size block",
                    "the override mode chosen by init is not assumed: every explored history starts with an explicit override(on) or override(off)"],
    "harnesses": [{
        "name": "c19_ring", "src": "harness/c19_ring.c", "shape": "estate",
        "lib": ["src/octet-ring.c", "src/ring-buffer-iter.c"], "shards": 16, "opt": "-O2", "min_outcomes": 8,
        "require_outcomes": {"any": ["put-evicts", "put-dropped", "get-empty", "get-oldest", "clear"]},
    }],
}
