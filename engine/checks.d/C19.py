CHECK = {
    "level": "model_checking",
    "technique": "explicit-state search to fixpoint over (ring implementation state, model queue) pairs; observers and both iterators run in every state",
    "rule": "a case is one transition (operation applied to a reachable state) followed by size/empty/full and both iterators run to completion; non-trivial = everything but clear of an empty ring",
    "assumptions": ["two element values per type; capacities up to the stated bound (small-scope)",
                    "instances: library octet_ring (uint8_t) and harness instantiations of the same macro template for uint16_t/uint32_t"],
    "harnesses": [{
        "name": "c19_ring", "src": "harness/c19_ring.c", "shape": "estate",
        "lib": ["src/octet-ring.c", "src/ring-buffer-iter.c"], "shards": 16, "opt": "-O2", "min_outcomes": 8,
        "require_outcomes": {"any": ["put-evicts", "put-dropped", "get-empty", "get-oldest", "clear"]},
    }],
}
