import runpy, os
REGP_LIB = runpy.run_path(os.path.join(os.path.dirname(os.path.abspath(__file__)), "C08.py"))["REGP_LIB"]
CHECK = {
    "level": "fault_enumeration",
    "technique": "exhaustive fault enumeration on reference-encoded frames (all 1-/2-bit flips, all bursts up to 16 bits in transmission order, all truncations, extensions) and exhaustive generation of frames over all option-bit / type / meta / length / checksum combinations, each run through the real regp_recv/regp_process; verdict compared with an independent reading of doc/regp.txt",
    "rule": "part 1: a case is (corpus frame, fault family chunk: all single-bit flips | all second bits for one first bit | all burst patterns at one bit offset | all truncations+extensions); part 2: a case is (transport, version, type, option bits) x meta x block size x payload length x checksums x header cuts; non-trivial = at least one faulted/generated frame was decided against the reference (all but empty two-bit tails)",
    "assumptions": ["a burst is a run of consecutive bits in line transmission order (least significant bit of each octet first), applied to the raw frame before SLIP encoding",
                    "corrupted frames that the reference decoder itself finds valid (undetectable by the protocol) are counted, reported as a cap and skipped; none is expected for the enumerated fault classes",
                    "where doc/regp.txt does not decide (payload-CRC bit on a frame without payload; transport-mandated option bits violated; a response whose payload is not the one section 3.1 prescribes for its code) the verdict set contains both readings",
                    "the document does not order the receiver's tests: a frame that is wrong in several ways may be classified by any fault class that applies to it (the reference verdict is the union of all applicable classes)",
                    "the classification is observed in RPMaybeFrame.error.id; regp_recv may additionally return a negative value for a classified frame",
                    "memory of the matching word size is attached, so that non-execution is due to the verdict alone"],
    "harnesses": [{
        "name": "c07_corrupt", "src": "harness/c07_corrupt.c", "shape": "espace", "opt": "-O2",
        "lib": REGP_LIB, "min_outcomes": 4,
        "require_outcomes": {"any": ["valid-accepted", "detected-3+classes", "detected-1class", "valid-and-invalid"]},
    }],
}
