CHECK = {
    "level": "model_checking",
    "technique": "explicit-state search to fixpoint over the real RegisterTable (storage image + table flags) under typed set / bit set / bit clear / block write / sanitise (+ one-fault environment operations on callback-backed tables) in lock-step with a flat reference model; plus complete enumeration of corruption images followed by sanitise, fault-free and under every single read / write callback fault position",
    "rule": "part 1: a case is one transition (operation applied to a reachable state), all non-trivial; part 2: a case fixes the corruption symbol of two words and the fault position (none / k-th write / k-th read callback answers IO_ERROR) and enumerates every combination of the remaining words of the corrupted areas, sanitise once per image",
    "assumptions": ["small tables covering every register type and the min/max/range/callback/none constraint kinds: the original nine (+3 thorough), registers in write-only areas (memory / callback-backed), SKIP_DEFAULTS areas (memory / callback-backed), an area without write callback in front of a writable one, an unconstrained f64, and three adjacent areas with every non-empty subset holding registers (the others entry-less); operands restricted to boundary values so that the reachable set is finite",
                    "typed operations are only generated for registers in areas that are readable and writable and have a write callback (SKIP_DEFAULTS or not)",
                    "always-fail registers are excluded (the statement's sanitise clause names no/min/max/range/callback constraints); sanitise is not judged on tables with registers in write-only areas",
                    "corruption of an area that has no write callback or is flagged read-only, and sanitise runs during which an area callback answered IO_ERROR: only 'SUCCESS implies every constrained register satisfies its constraint' is demanded (the statement does not say what sanitise returns or leaves behind when a reset cannot be carried out)",
                    "part 2 corrupts the first area (tables 6, 7, 15, 17: the first two; the three-area tables: all three)"],
    "harnesses": [{
        "name": "c05_invariant", "src": "harness/c05_invariant.c", "shape": "estate", "opt": "-O2",
        "lib": ["src/registers/core.c"], "min_outcomes": 13,
        "require_outcomes": {"any": ["set-accepted", "set-refused", "bitop-accepted", "bitop-refused-constraint", "bitop-refused-operand",
                                     "block-accepted", "block-refused", "sanitise-clean", "sanitise-mixed",
                                     "fault-injected", "sanitise-fault-reached", "sanitise-unwritable-corrupted"]},
    }],
}
