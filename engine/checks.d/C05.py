CHECK = {
    "level": "model_checking",
    "technique": "explicit-state search to fixpoint over the real RegisterTable (storage image + touched marks) under typed set / bit set / bit clear / block write / sanitise in lock-step with a flat reference model; plus complete enumeration of corruption images followed by sanitise",
    "rule": "part 1: a case is one transition (operation applied to a reachable state), all non-trivial; part 2: a case fixes the corruption symbol of two words and enumerates every combination of the remaining words of the area, sanitise once per image",
    "assumptions": ["four small tables covering every register type and the min/max/range/callback/none constraint kinds; operands restricted to boundary values so that the reachable set is finite",
                    "typed operations are only generated for registers in plain read-write areas",
                    "always-fail registers are excluded (the statement's sanitise clause names no/min/max/range/callback constraints)"],
    "harnesses": [{
        "name": "c05_invariant", "src": "harness/c05_invariant.c", "shape": "estate", "opt": "-O2",
        "lib": ["src/registers/core.c"], "min_outcomes": 10,
        "require_outcomes": {"any": ["set-accepted", "set-refused", "bitop-accepted", "bitop-refused-constraint", "bitop-refused-operand",
                                     "block-accepted", "block-refused", "sanitise-clean", "sanitise-mixed"]},
    }],
}
