CHECK = {
    "level": "fault_enumeration",
    "technique": "exhaustive enumeration of environment deviations on the real PersistentStorage: every power-cut point (every medium write call of every store x every number of applied octets 0..len, longjmp out of the library, fresh instance validates/fetches) and every single I/O fault position (every medium call of every operation x every short transfer count 0..len-1), medium and fault plan owned by the harness, checksum references written independently",
    "rule": "odometer over (data size, placement, checksum, auxiliary buffer) x operation; crash cases: x 3 image pairs (generic, sum-preserving, CRC-preserving: both images valid, mixed images collide on purpose so that validation does succeed after some cuts) x write-call ordinal 0..2 x applied octets 0..max(len,cs); fault cases: x medium-call ordinal 0..N+cs+1 x transferred octets 0..max(N,cs)-1; one dry (fault-free) case per operation checks that these caps cover every call (else the run is marked capped); a case is non-trivial when the deviation was reached (cut fired / fault injected) and no oracle failed; deviations beyond the execution's real calls/lengths are the trivial classes cut-not-reached / fault-not-reached",
    "assumptions": [
        "data sizes up to the stated bound (small-scope); one fault or one cut per execution (the quantifier's single-fault family; double faults are not enumerated because the first one must already end the operation)",
        "a power cut applies a prefix of the interrupted write in address order; earlier writes are complete (no reordering, no bit-level tearing)",
        "auxiliary buffer size 0 is excluded here: it is C10's livelock finding, every operation would only repeat it",
        "placement of checksum and data image inside the region (either first) and byte order of the checksum octets (little or big endian): whatever the fault-free store of the previous image used; neither is fixed by the statement",
        "validate on a fresh instance runs fault-free; nothing is demanded when it does not succeed (the statement is an implication)",
        "a case whose fault-free baseline already misbehaves (store of the previous/new image fails or spins, access outside the region: property C10) is classed precondition-failed, reports nothing against C11 and marks the run capped (not exhaustive)",
    ],
    "harnesses": [{
        "name": "c11_persistent_faults", "src": "harness/c11_persistent_faults.c", "shape": "espace",
        "lib": ["src/persistent-storage.c"], "opt": "-O1",
        "min_outcomes": 12,
        "require_outcomes": {"any": ["dry-store-ok", "dry-op-ok",
                                     "cut-invalid", "cut-valid-old", "cut-valid-new",
                                     "torn-invalid", "torn-valid-mixed-consistent",
                                     "io-error-failed-read", "io-error-short-read",
                                     "io-error-failed-write", "io-error-short-write",
                                     "cut-not-reached", "fault-not-reached"]},
    }],
}
