CHECK = {
    "level": "model_checking",
    "technique": "bounded-exhaustive enumeration of ALL area lists x ALL register lists over small grids (x default/area options) through the real register_init, compared with the statement's rule list; post-conditions checked through the public API. Three structured boundary families carry the same oracle to large scopes (WIDE: area sizes/bases around 2^16, 2^17, 2^31 and the top of the address space; LONG: register counts around 2^8 and 2^16 and area counts around 2^8, one violated rule at an index around the boundary). HISTORY: every ordered pair of descriptions of a family is initialised one after the other in the same descriptor arrays (first descriptions grouped by the residue they leave in the descriptors, full-key comparison); the second initialisation is held against the statement like a fresh one and, as a differential oracle, must iterate like a fresh twin over every address window",
    "rule": "a small-grid case is (area list, register list): every bad-default mask x area option x type variant x fresh/re-initialised table object is initialised and compared with the reference rule list; after failure 9 operations must answer UNINITIALISED, after success defaults, zeroed memory and area entry ranges are checked (dirty-descriptor runs also iterate like a fresh twin). A WIDE case is (area size, base, neighbour, backing) with every register list of its address menu inside; a LONG case is one table; a HISTORY case is one second description run after every residue. Every case is non-trivial",
    "assumptions": ["small grids as stated in the bound (bases/addresses <= 10, sizes 1..4 words, <= 3 areas, <= 5 registers); large scopes only through the boundary families of the bound",
                    "where an invalid default at a lower index competes with a hole at a higher index (and likewise order vs overlap) both the rule-major and the index-major answer are accepted (statement leaves it open)",
                    "zero-size areas are not generated; register or area extents that run past address 2^32-1 (wrapping ranges) are not generated, extents ending exactly at 2^32 are (every word of them has a valid address)",
                    "area lists of 65535 or more areas are not generated (the library's own size limit, not a rule of the statement)",
                    "for an area without registers only count == 0 is demanded of its record; what its stale first/last may be is observed through iteration only, and only by comparing two objects with the same description (what iteration has to visit is C03's statement)",
                    "re-initialisation rewrites the description fields of the descriptors in place and ends the lists with REGISTER_AREA_END / REGISTER_ENTRY_END; the backing blocks are new (filled with 0xa5a5), slots behind the new sentinels keep what the first description left there"],
    "harnesses": [{
        "name": "c04_init", "src": "harness/c04_init.c", "shape": "espace", "opt": "-O2",
        "lib": ["src/registers/core.c"], "min_outcomes": 8,
        "require_outcomes": {"any": ["all-refused", "all-accepted", "mixed", "wide-mixed", "long-accepted", "long-refused",
                                     "reinit-accepted", "reinit-refused"]},
    }],
}
