CHECK = {
    "level": "model_checking",
    "technique": "bounded-exhaustive enumeration of ALL area lists x ALL register lists over small grids (x default/area options) through the real register_init, compared with the statement's rule list; post-conditions checked through the public API",
    "rule": "a case is (area list, register list): every bad-default mask x area option x type variant x fresh/re-initialised table object is initialised and compared with the reference rule list; after failure 9 operations must answer UNINITIALISED, after success defaults, zeroed memory and area entry ranges are checked; every case is non-trivial",
    "assumptions": ["grids as stated in the bound (bases/addresses <= 10, sizes 1..4 words, <= 3 areas, <= 5 registers)",
                    "where an invalid default at a lower index competes with a hole at a higher index (and likewise order vs overlap) both the rule-major and the index-major answer are accepted (statement leaves it open)",
                    "zero-size areas and address wrap-around are not generated"],
    "harnesses": [{
        "name": "c04_init", "src": "harness/c04_init.c", "shape": "espace", "opt": "-O2",
        "lib": ["src/registers/core.c"], "min_outcomes": 3,
        "require_outcomes": {"any": ["all-refused", "all-accepted", "mixed"]},
    }],
}
