_VALUE = ["value-unsigned", "value-signed-negative", "value-signed-nonnegative", "value-float-nan",
          "value-float-inf", "value-float-subnormal", "value-float-normal", "wide-argument", "wide-sign-extension",
          "swap-inrange", "swap-wide", "swap-sweep-inrange", "inrange-accept", "inrange-reject",
          "typed-image-u16", "typed-image-u32", "typed-image-u64"]
_LIGHT = _VALUE + ["sweep-unsigned", "sweep-signed-negative", "sweep-signed-both"]

CHECK = {
    "level": "model_checking",
    "technique": "stateless bounded-exhaustive enumeration of every bf_* function (macro-generated table of 48 ref/set pairs, 7 swap helpers, 8 range predicates, compared at start-up with the definitions found in the header being compiled; a forward prototype -- a match whose statement ends in `;` before any `{` -- is not a definition) against shift/mask arithmetic on uint64_t; floats compared by bit pattern; the same enumeration is run on four builds of the header: -O2 with the swap builtins, -O2 and -O1 with the portable swap bodies (these three under ASan, UBSan and -fsanitize=alignment), and -O2 with the swap builtins without any sanitizer instrumentation (the optimiser then uses type-based alias analysis on the codec's accesses as it does in a release build)",
    "rule": "odometer over (build, function row, value pattern, offset 0..7): complete sweeps of all 2^16 / 2^24 patterns (thorough: all 2^32 of the 32-bit integer and f32 rows, of swap24/swap32 and of inrange_u24/s24) in cases of at most 2^20 patterns; for every row the structured family {every octet lane x every octet value on backgrounds 00/ff/a5, single bits and complements, 2^k+-1 and -(2^k)+-1, width and sign boundaries, the unit test's constants, float classes incl. signalling/quiet NaN payloads} at every offset in an exact-size block and in a canaried block; for every row x element type {uint16_t, uint32_t, uint64_t} the edges, test constants and float classes at every offset inside an object of that declared type which is written and read back through lvalues of that type directly around the codec call (store: whole image compared; load: before and after the image is rewritten); the portable-swap builds repeat everything except the 2^32 row/predicate sweeps and sweep the 24-bit rows at a rotating offset; the quantifier's '10^7 random values' are replaced by this structured family; non-trivial = the pattern's octets are not all equal (octet order observable), sweeps and typed images always, inrange: argument not 0",
    "assumptions": ["little-endian host with 8-bit bytes and IEEE-754 floats: native order is checked as little-endian, the SYSTEM_ENDIANNESS_BIG and 16-bit-byte branches of the header are not compiled",
                    "the header as committed is checked; tools/make-binary-format.scm is not executed",
                    "for 40..64-bit rows only the structured family is enumerated (small-scope over lanes, bits and boundaries), not all patterns",
                    "arguments of a partial-width setter that are not a value of its width (bits above the width set, not a sign extension): the statement speaks of storing a value of that width, so only 'nothing outside width/8 octets is written' and memory safety are demanded -- a setter may store the low octets or refuse (return anything, write nothing); signed arguments that are the sign extension of a W-bit value are values of the width: octets, returned address and neighbours are demanded; swap helpers on arguments wider than the swap: only the low width/8 octets of the result",
                    "ASan red zones directly behind/in front of exact-size heap blocks observe accesses outside the datum",
                    "'at any alignment' is observed in two ways: the octets and the value at offsets 0..7, and UBSan's alignment check on every access the codec makes (a codec that dereferences a uintNN_t lvalue at an odd address is undefined there even if this host tolerates it)",
                    "build configurations covered: UFW_USE_BUILTIN_SWAP defined (all three builtins) and undefined (none); clang -O1 and -O2, with and (at -O2) without sanitizer instrumentation, and -O0 without instrumentation where every load is preceded by a call that fills the stack region the loader is about to use with a5 (a loader returning octets it never initialised shows them); other compilers (the engine builds with clang only; a gcc build variant would need a `cc` key in checks.d) and partial builtin availability are not",
                    "in the build without sanitizers accesses outside the datum are observed through the in-band canaries and the typed images only (no red zones)"],
    "harnesses": [{
        "name": "c15_binfmt", "src": "harness/c15_binfmt.c", "shape": "espace", "opt": "-O2",
        "cflags": ["-fsanitize=alignment"],
        "lib": [], "min_outcomes": 17,
        "require_outcomes": {
            "any": _LIGHT,
            "thorough": ["value-unsigned", "value-signed-negative", "value-float-nan", "wide-argument", "wide-sign-extension",
                         "swap-inrange", "swap-wide", "inrange-accept", "inrange-reject",
                         "typed-image-u16", "typed-image-u32", "typed-image-u64",
                         "sweep-unsigned", "sweep-signed-negative", "sweep-signed-both",
                         "sweep-float-nan", "sweep-float-finite", "swap-sweep-wide",
                         "inrange-sweep-accept", "inrange-sweep-reject"],
        },
    }, {
        "name": "c15_binfmt_o2_portable_swap", "src": "harness/c15_binfmt.c", "shape": "espace", "opt": "-O2",
        "cflags": ["-fsanitize=alignment", "-UUFW_USE_BUILTIN_SWAP", "-DC15_LIGHT"],
        "lib": [], "min_outcomes": 17,
        "require_outcomes": {"any": _LIGHT, "thorough": _LIGHT + ["swap-sweep-wide"]},
    }, {
        "name": "c15_binfmt_o1_portable_swap", "src": "harness/c15_binfmt.c", "shape": "espace", "opt": "-O1",
        "cflags": ["-fsanitize=alignment", "-UUFW_USE_BUILTIN_SWAP", "-DC15_LIGHT", "-DC15_O1"],
        "lib": [], "min_outcomes": 17,
        "require_outcomes": {"any": _LIGHT, "thorough": _LIGHT + ["swap-sweep-wide"]},
    }, {
        "name": "c15_binfmt_o2_plain", "src": "harness/c15_binfmt.c", "shape": "espace", "opt": "-O2",
        "cflags": ["-fno-sanitize=all", "-DC15_LIGHT", "-DC15_PLAIN"],
        "lib": [], "min_outcomes": 17,
        "require_outcomes": {"any": _LIGHT, "thorough": _LIGHT + ["swap-sweep-wide"]},
    }, {
        "name": "c15_binfmt_o0_plain", "src": "harness/c15_binfmt.c", "shape": "espace", "opt": "-O0",
        "cflags": ["-fno-sanitize=all", "-DC15_LIGHT", "-DC15_PLAIN", "-DC15_O0"],
        "lib": [], "min_outcomes": 17,
        "require_outcomes": {"any": _LIGHT, "thorough": _LIGHT + ["swap-sweep-wide"]},
    }],
}
