CHECK = {
    "level": "model_checking",
    "technique": "bounded-exhaustive exploration of register_block_write over a small-scope table family x valid storage images x one earlier operation from a per-table history alphabet (incl. one-fault environment operations) x every (address,length) window x boundary word patterns, against a flat address-space reference model",
    "rule": "a case is (table, storage image, earlier operation or none, window): every pattern of the window is written to the real table and compared with the flat model evaluated on the storage as the earlier operation left it; without an earlier operation the storage is restored between writes, with one the table object is put back to its post-initialisation image, the storage image re-established and the earlier operation repeated before every write; every case on a table that register_init accepted is non-trivial (at least the empty or one real write is decided)",
    "assumptions": ["tables from the small-scope family of harness/regfam.h (<= 3 areas, <= 5 registers, addresses 0..9) plus the harness's own extension: s32/s64/f64 registers (singles at every placement x every constraint kind, adjacent pairs) in a one-area and a 4+4 two-area layout, areas carrying REG_AF_SKIP_DEFAULTS besides RW / WO",
                    "word patterns: 7 symbols all-equal, current content with one word replaced, current content with one register's overlapped part replaced by each boundary/undecodable value",
                    "storage images are set out of band to valid register contents (default / bounds / a distinct pattern), i.e. states reachable by accepted writes",
                    "earlier operations: sanitise (clean storage; one register corrupted out of band), refused / accepted typed set, refused block writes (hole; violating value), accepted block write, bit operations, block read + get, re-initialisation; on callback-backed areas also sanitise / typed set / block write with one read or write callback answering IO_ERROR.  Their own results are not judged (outside the statement); the block write after them is",
                    "no area callback fails during the block write under test (the statement does not say what an I/O error of the backing store yields)",
                    "where several failure classes apply the oracle accepts any of them with that class's first address (statement leaves the precedence open); an infinite or subnormal float overlay that also lies outside the register's constraint is in both classes 'invalid' and 'out-of-range' (NaN: 'invalid' only)",
                    "a table that register_init refuses ends its cases as trivial ones (outcome init-refused, not required): whether a description is accepted is C04's sentence; 'initialised' is observed through the block write's own result only, not through RegisterTable.flags"],
    "harnesses": [{
        "name": "c02_blockwrite", "src": "harness/c02_blockwrite.c", "shape": "espace", "opt": "-O2",
        "lib": ["src/registers/core.c"], "min_outcomes": 7,
        "require_outcomes": {"any": ["zero-length", "all-accepted", "all-refused", "mixed",
                                     "hist-earlier-op-succeeded", "hist-earlier-op-refused", "hist-earlier-op-fault-reached"]},
    }],
}
