CHECK = {
    "level": "model_checking",
    "technique": "bounded-exhaustive exploration of register_block_write over a small-scope table family x valid storage images x every (address,length) window x boundary word patterns, against a flat address-space reference model",
    "rule": "a case is (table, storage image, window): every pattern of the window is written to the real table and compared with the flat model, storage restored in between; every case is non-trivial (at least the empty or one real write is decided)",
    "assumptions": ["tables from the small-scope family of harness/regfam.h (<= 3 areas, <= 5 registers, addresses 0..9)",
                    "word patterns: 7 symbols all-equal, current content with one word replaced, current content with one register's overlapped part replaced by each boundary/undecodable value",
                    "storage images are set out of band to valid register contents (default / bounds / a distinct pattern), i.e. states reachable by accepted writes",
                    "where several failure classes apply the oracle accepts any of them with that class's first address (statement leaves the precedence open)"],
    "harnesses": [{
        "name": "c02_blockwrite", "src": "harness/c02_blockwrite.c", "shape": "espace", "opt": "-O2",
        "lib": ["src/registers/core.c"], "min_outcomes": 4,
        "require_outcomes": {"any": ["zero-length", "all-accepted", "all-refused", "mixed"]},
    }],
}
