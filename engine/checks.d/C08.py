REGP_LIB = ["src/register-protocol.c", "src/crc-16-arc.c", "src/rfc1055.c", "src/length-prefix.c",
            "src/variable-length-integer.c", "src/endpoints/core.c", "src/endpoints/buffer.c",
            "src/endpoints/trivial.c", "src/endpoints/continuable-sink.c", "src/byte-buffer.c", "src/allocator.c"]
CHECK = {
    "level": "model_checking",
    "technique": "stateless bounded-exhaustive enumeration of every emit entry point x transport x memory width x field values x sizes x payload contents on a real RegP, compared octet for octet with an independent encoder of doc/regp.txt and fed back through the library's own receiver",
    "rule": "a case fixes emitter, transport, memory width, answered request type, address and sequence number and runs every size x content (or payload value); each emission is compared with the reference encoding, received by a second RegP and compared field by field; every case is non-trivial",
    "assumptions": ["addresses, sequence numbers, payload contents from the closed sets in the harness (SLIP control octets included); sizes as stated in the bound",
                    "the WORD-SIZE-16 bit of payload-less error responses is taken from the emitted frame (doc/regp.txt does not fix it); so are the WORD-SIZE-16 bit, sequence number and address of meta messages ('only the meta field is used')",
                    "the session's sequence counter is neither written nor read: request cases run on an instance that has emitted N earlier requests (N in {0, 1, 0xc0db, 0xffff}), the number is taken from the emitted frame and must be its predecessor's plus one; the first number of a session is not fixed by the statement",
                    "header checksum covers the six header words plus the payload-checksum word when present (convention fixed by the wire images in t-register-protocol.c, used as anchors)"],
    "harnesses": [{
        "name": "c08_emit", "src": "harness/c08_emit.c", "shape": "espace", "opt": "-O1",
        "lib": REGP_LIB, "min_outcomes": 5,
        "require_outcomes": {"any": ["request-roundtrip", "ack-roundtrip", "error-response-roundtrip", "meta-roundtrip", "sequence-wraps"]},
    }],
}
