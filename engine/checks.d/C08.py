REGP_LIB = ["src/register-protocol.c", "src/crc-16-arc.c", "src/rfc1055.c", "src/length-prefix.c",
            "src/variable-length-integer.c", "src/endpoints/core.c", "src/endpoints/buffer.c",
            "src/endpoints/trivial.c", "src/endpoints/continuable-sink.c", "src/byte-buffer.c", "src/allocator.c"]
CHECK = {
    "level": "model_checking",
    "technique": "stateless bounded-exhaustive enumeration of every emit entry point x transport x memory width x field values x sizes x payload contents x request option bits on a real RegP, compared octet for octet with an independent encoder of doc/regp.txt and fed back through the library's own receiver (three receivers: large block, exact fit, one octet to spare); plus every emitter x transport x octet/chunk sink under a scripted sink that answers retry requests, short and zero-length writes and hard errors at every call position",
    "rule": "a case fixes emitter, transport, memory width, answered request type, address and sequence number and runs every size x content (or payload value); each emission is compared with the reference encoding, received by three further RegP instances and compared field by field; a sink-answer case fixes emitter, transport, memory width, answered type, sink kind and first answer and runs frames x every call position x second answer (non-trivial when at least one scripted answer was reached); every other case is non-trivial",
    "assumptions": ["addresses, sequence numbers, payload contents from the closed sets in the harness (SLIP control octets included); sizes as stated in the bound",
                    "the WORD-SIZE-16 bit of payload-less error responses is taken from the emitted frame (doc/regp.txt does not fix it); so are the WORD-SIZE-16 bit, sequence number and address of meta messages ('only the meta field is used')",
                    "the session's sequence counter is neither written nor read: request cases run on an instance that has emitted N earlier requests (N in {0, 1, 0xc0db, 0xffff}), the number is taken from the emitted frame and must be its predecessor's plus one; the first number of a session is not fixed by the statement",
                    "the request frame handed to a responder carries its WORD-SIZE-16 bit equal to and different from the attached memory's width, and (blocks <= 4) every combination of its two checksum bits; for an acknowledgement of a request of the other word size the frame's own WORD-SIZE-16 bit says whether the n units handed over are octets or words (the payload block holds n words), and refusing such a request without emitting anything is admitted",
                    "a receiver has room for a frame when its allocator block is at least sizeof(RPFrame) plus the raw frame length (the capacity the library reports as buffer size); the receiving instances differ from the emitter in attached memory width and in how their source delivers (chunks, octets, chunks through a 64-octet scratch buffer)",
                    "sink answers (EAGAIN, EINTR, a short write of one octet / of all but one octet, a zero-length write, EIO; octet sinks: no short writes): nothing is demanded of an emission that reports failure; one that reports success must have put exactly the reference octets on the wire, and must not need more than 4 x frame length + 64 sink calls (clause hang); scripts with one or two deviations, the second at the following call (thorough: at every later call); frames of 0..5 units (thorough 0..8), 3 contents, 2 addresses (thorough 7) / 2 payload values",
                    "header checksum covers the six header words plus the payload-checksum word when present (convention fixed by the wire images in t-register-protocol.c, used as anchors)"],
    "harnesses": [{
        "name": "c08_emit", "src": "harness/c08_emit.c", "shape": "espace", "opt": "-O1",
        "lib": REGP_LIB, "min_outcomes": 5,
        "require_outcomes": {"any": ["request-roundtrip", "ack-roundtrip", "error-response-roundtrip", "meta-roundtrip", "sequence-wraps",
                                     "sink-retry-request", "sink-short-write", "sink-zero-length-write", "sink-hard-error"]},
    }],
}
