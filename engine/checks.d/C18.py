CHECK = {
    "level": "model_checking",
    "technique": "explicit-state search to fixpoint over the real ByteBuffer (fields + memory image) in lock-step with a list model",
    "rule": "explicit-state search: every operation of the alphabet applied to every reachable (size,used,offset,image) state; a case is one transition; non-trivial = everything but reset of an already empty buffer; plus the full set-up argument matrix",
    "assumptions": ["octet alphabet {00,a1,b2}; buffer sizes up to the stated bound (small-scope)",
                    "ASan red zones around exact-size heap blocks observe out-of-bounds accesses",
                    "consume_at_most(0) on an empty buffer: the statement does not decide between failing and delivering zero octets; both are accepted, the buffer must be unchanged"],
    "harnesses": [{
        "name": "c18_bytebuffer", "src": "harness/c18_bytebuffer.c", "shape": "estate",
        "lib": ["src/byte-buffer.c"], "shards": 8, "opt": "-O2", "min_outcomes": 10,
        "require_outcomes": {"any": ["rewind-moves", "add-refused", "consume-refused", "atmost-short", "set-refused"]},
    }],
}
