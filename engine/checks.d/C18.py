CHECK = {
    "level": "model_checking",
    "technique": "explicit-state search to fixpoint over the real ByteBuffer (fields + memory image) in lock-step with a list model; "
                 "the same model drives (a) far operand lengths (boundary family up to SIZE_MAX) in every reached state, "
                 "(b) the set-up argument matrix on descriptors with a history (zeroed / 0xff-filled / nulled / in use with every (used, offset)) "
                 "followed by every operation once on the re-used descriptor (differential against a fresh descriptor), "
                 "(c) bounded-exhaustive boundary families on buffers whose size straddles 2^8, 2^16 (exact heap blocks; thorough also 2^7, 2^15) "
                 "and 2^31, 2^32 (lazily backed 4 GiB mapping, states installed with byte_buffer_set)",
    "rule": "explicit-state search: every operation of the alphabet applied to every reachable (size,used,offset,image) state; a case is one transition; "
            "non-trivial = everything but reset of an already empty buffer; far-operand cases: one add/consume/consume_at_most with a far length on a reached state; "
            "set-up cases: one set/use/space call on a descriptor with the stated history (an accepted one is followed by every operation of the alphabet, each from a copy of the resulting descriptor); "
            "medium/big cases: byte_buffer_set to a boundary state, then one operation",
    "assumptions": ["octet alphabet {00,a1,b2}; buffer sizes up to the stated bound (small-scope), plus the boundary families named in the bound (values next to 2^7, 2^8, 2^15, 2^16, 2^31, 2^32, 2^63, 2^64)",
                    "ASan red zones around exact-size heap blocks observe out-of-bounds accesses (small and medium scope); on the 4 GiB mapping octets are compared in windows of 96 octets around 0, 2^16, 2^31, 2^32 instead",
                    "consume_at_most(0) on an empty buffer: the statement does not decide between failing and delivering zero octets; both are accepted, the buffer must be unchanged",
                    "a call whose operand exceeds size+1 is handed source/destination blocks smaller than the operand says: add/consume must fail without change, so they are never read or written; consume_at_most gets room for everything that is unread plus 8 octets",
                    "'fails without change' / 'refuses' is read as: negative return, all four descriptor fields and the whole memory image unchanged (HARNESS-GUIDE oracle discipline); after an accepted operation only the filled region [0,used) is compared (the statement leaves free room open, except for clear)",
                    "the descriptor is a flat public struct (BYTE_BUFFER_INIT initialises it member by member): the re-use family copies an accepted descriptor and re-points `data` at an exact-size block per operation",
                    "on the 4 GiB mapping only operations that move at most 8 octets or have to refuse are run (no clear; rewind only with at most 8 unread octets and offset > 0 or used <= 8); only the pages under the compared windows are accessible: a call that touches any other page of the mapping (work in proportion to the buffer size, which the statement does not forbid) is abandoned as undecided (outcome big-undecided, run marked non-exhaustive), never reported",
                    "the image an operation starts from is the one byte_buffer_set left: set-up must keep the octets it is told are filled, what it does to the free room is open",
                    "sizes the harness cannot back with memory (> 2^32+8) are not offered as buffer sizes; larger values appear only as operands/used/offset that must be refused"],
    "harnesses": [{
        "name": "c18_bytebuffer", "src": "harness/c18_bytebuffer.c", "shape": "estate",
        "lib": ["src/byte-buffer.c"], "shards": 8, "opt": "-O2", "min_outcomes": 20,
        "require_outcomes": {"any": ["rewind-moves", "add-refused", "consume-refused", "atmost-short", "set-refused",
                                     "far-add-refused", "far-consume-refused", "far-atmost-short", "far-atmost-empty",
                                     "reuse-set-refused", "reuse-set-ok", "dirty-set-refused", "dirty-set-ok",
                                     "medium-add-ok", "medium-add-refused", "medium-consume-ok", "medium-consume-refused", "medium-rewind"]},
    }],
}
