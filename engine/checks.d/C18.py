CHECK = {
    "level": "model_checking",
    "technique": "explicit-state search to fixpoint over the real ByteBuffer (fields + memory image) in lock-step with a list model; "
                 "the same model drives (a) far operand lengths (boundary family up to SIZE_MAX) in every reached state, "
                 "(b) the set-up argument matrix on descriptors with a history (zeroed / 0xff-filled / nulled / in use with every (used, offset)) "
                 "followed by every operation once on the re-used descriptor (differential against a fresh descriptor), "
                 "(c) bounded-exhaustive boundary families on buffers whose size straddles 2^8, 2^16 (exact heap blocks; thorough also 2^7, 2^15) "
                 "and 2^31, 2^32 (lazily backed 4 GiB mapping, states installed with byte_buffer_set), "
                 "(c') operations that really move 2^32 octets and more (clear, add, consume, consume_at_most with a count of 2^32 + r) on buffers, sources and destinations of real memory: a 4 MiB memory file tiled over the address range, compared through a single mapping of the file, "
                 "(d) every operation of the alphabet called with its buffer argument given as an expression with a side effect (cursor function over three buffers of the same geometry), "
                 "(e) add / consume / consume_at_most whose source / destination lies in the same object as the buffer's memory, directly in front of or behind it (gap 0 or 1 octet, never inside it)",
    "rule": "explicit-state search: every operation of the alphabet applied to every reachable (size,used,offset,image) state; a case is one transition; "
            "non-trivial = everything but reset of an already empty buffer; far-operand cases: one add/consume/consume_at_most with a far length on a reached state; "
            "set-up cases: one set/use/space call on a descriptor with the stated history (an accepted one is followed by every operation of the alphabet, each from a copy of the resulting descriptor); "
            "medium/big cases: byte_buffer_set to a boundary state, then one operation; "
            "huge cases: byte_buffer_set over a tiled range of 2^32 + r octets, then one operation that moves all of them; "
            "expr cases: every (used, offset) of sizes 1..3 (thorough 1..5) x every operation of the alphabet, the buffer under test compared with the model and the two buffers behind the cursor compared with their state before; "
            "adjacent cases: every (used, offset) of the small sizes x add / consume / consume_at_most with every length the operation has to serve (at-most: also one more than is unread) x operand in front / behind x gap 0 / 1",
    "assumptions": ["octet alphabet {00,a1,b2}; buffer sizes up to the stated bound (small-scope), plus the boundary families named in the bound (values next to 2^7, 2^8, 2^15, 2^16, 2^31, 2^32, 2^63, 2^64)",
                    "ASan red zones around exact-size heap blocks observe out-of-bounds accesses (small and medium scope); on the 4 GiB mapping octets are compared in windows of 96 octets around 0, 2^16, 2^31, 2^32 instead",
                    "consume_at_most(0) on an empty buffer: the statement does not decide between failing and delivering zero octets; both are accepted, the buffer must be unchanged",
                    "an add whose length exceeds size+1 is handed a source block smaller than the length says: it has to fail without change and has no octet to append, so the block is not read",
                    "the destination of a consume / consume_at_most always has the length the call states (an implementation may pad or clear it within that length): an exact-size heap block up to 2^20 octets, beyond that 16 GiB of address space of which the first 256 KiB are accessible -- a call that touches the rest is abandoned as undecided (outcome far-undecided, run marked non-exhaustive, after 16 such calls of one kind the remaining ones are not made), never reported; consume lengths above 2^34 (2^48, 2^63, 2^64-k) cannot be backed by memory and are not generated: a wrap of offset+length that needs such a length is outside the space",
                    "'fails without change' (add, consume, at-most on an empty buffer) is read as: negative return, all four descriptor fields and the whole memory image unchanged; after an accepted operation only the filled region [0,used) is compared (the statement leaves free room open, except for clear)",
                    "'set-up refuses ...' (the statement does not say 'without change' here): negative return, both memory blocks untouched, and the descriptor either as it was or a consistent descriptor that describes no memory (data == NULL or size == 0, with offset <= used <= size); a refused set-up that leaves a changed descriptor still describing memory is a violation",
                    "the statement promises no range of buffer sizes: a set-up with valid arguments that is refused at sizes >= 2^31-1 (large-scope family), or at any size above the small scope (255 and more) in the set-up matrix of that family, is a cap (outcome big-unsupported, run marked non-exhaustive), what it leaves behind is checked like any refused set-up",
                    "likewise in the medium-scope family (sizes 127..65537): a refused valid set-up there is a cap (outcome medium-unsupported, run marked non-exhaustive; an implementation with a 16-bit size type or a size policy), checked like any refused set-up (descriptor unchanged or describing no memory, memory untouched); the medium-* outcome classes are therefore not required. Refusals of valid set-ups at the small-scope sizes (<= 8: search, re-use, expression and adjacent families) stay violations",
                    "huge family: positions of the range that are congruent mod 4 MiB share their octet, so only operations whose result does not depend on the order of the octet moves are run (clear; add into the empty buffer from a source with a pattern of period 4 MiB; consume / at-most of everything unread) and the comparison is per residue; rewind is not run at this scale; a count narrowed to 32 bits moves r < 4 MiB octets and leaves the rest of the pre-filled file; three tiled ranges that cannot be mapped, or a refused set-up, are caps (huge-unmapped / huge-unsupported)",
                    "byte_buffer_avail / byte_buffer_rest do not occur in the statement: their results are logged in replays, not demanded",
                    "expr family: the operations are functions of the public header, so a call whose buffer argument has a side effect operates on the one buffer the expression yields once; only the buffer argument is varied",
                    "adjacent family: operands inside the buffer's own memory (repeating its newest octets, consuming into its free room) are not generated -- an implementation may refuse operands that alias the buffer",
                    "the descriptor is a flat public struct (BYTE_BUFFER_INIT initialises it member by member): the re-use family copies an accepted descriptor and re-points `data` at an exact-size block per operation",
                    "on the 4 GiB mapping only operations that move at most 8 octets or have to refuse are run (no clear; rewind only with at most 8 unread octets and offset > 0 or used <= 8); only the pages under the compared windows are accessible: a call that touches any other page of the mapping (work in proportion to the buffer size, which the statement does not forbid) is abandoned as undecided (outcome big-undecided, run marked non-exhaustive), never reported",
                    "the image an operation starts from is the one byte_buffer_set left: set-up must keep the octets it is told are filled, what it does to the free room is open",
                    "sizes the harness cannot back with memory (> 2^32+8) are not offered as buffer sizes; larger values appear only as operands/used/offset that must be refused"],
    "harnesses": [{
        "name": "c18_bytebuffer", "src": "harness/c18_bytebuffer.c", "shape": "estate",
        "lib": ["src/byte-buffer.c"], "shards": 8, "opt": "-O2", "min_outcomes": 20,
        "require_outcomes": {"any": ["rewind-moves", "add-refused", "consume-refused", "atmost-short", "set-refused",
                                     "far-add-refused", "far-consume-refused", "far-atmost-short", "far-atmost-empty",
                                     "reuse-set-refused", "reuse-set-ok", "dirty-set-refused", "dirty-set-ok",
                                     "expr-argument", "adjacent-add", "adjacent-consume", "adjacent-atmost"]},
    }],
}
