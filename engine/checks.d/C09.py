import runpy, os
REGP_LIB = runpy.run_path(os.path.join(os.path.dirname(os.path.abspath(__file__)), "C08.py"))["REGP_LIB"]
CHECK = {
    "level": "fault_enumeration",
    "technique": "exhaustive enumeration of frame lengths (incl. lazily generated streams straddling 2^15, 2^16, 2^31 and 2^32), read sizes, allocation-failure scripts, stream mutations, endpoint-error positions and sink answer scripts for every reply kind through the real regp_recv/regp_process/regp_free under ASan+UBSan with exact-size allocator blocks, an allocation ledger and budgeted scripted endpoints",
    "rule": "a case is one point (or one small block) of a fault family: frame length x block size x transport variant; read size x block size x request header variant; allocation script; substitution position (x 13 octets x allocation); truncation set; string chunk; error position (x code x allocation x mutation); reply kind x transport variant x sink kind x first sink answer (x every call position x second answer x caller style x allocator kind); generated frame length x block size x transport variant; every case runs at least one receive/process/free round against the real code, all are non-trivial",
    "assumptions": ["block sizes from the stated set; the quantifier's 'random / coverage-guided streams' are replaced by the exhaustive families i..vi",
                    "for receive blocks that cannot hold a 16-octet header the form of the overflow reply is not demanded (the header needed to echo sequence and address was never stored); memory safety and the ledger are",
                    "a read whose data fits the block behind the request's header but not together with a full 16-octet response header may be executed or answered with a transmit-overflow response; one that does not fit behind the request's header (12, 14 or 16 octets as received) must be refused without access; the buffer size in that response is accepted as block size, block size minus descriptor, or that minus the request header",
                    "read requests that declare checksum words their transport does not mandate (incl. a payload checksum without payload) may be refused by the receiver; if executed the same size rule applies",
                    "a channel error of the source must make regp_recv return a negative value (which one is not demanded); how a failing sink is reported is not demanded (memory safety, no hang and the ledger are)",
                    "a frame shorter than a header is reported through error.id == EBADMSG plus the header-encoding meta message; regp_recv may additionally return a negative value",
                    "after regp_recv returned a channel error a caller may still pass the (reused) RPMaybeFrame to regp_process, as the documented service loop does",
                    "the allocator serves requests of any size and up to 8 live blocks; only unbalanced, double or foreign frees count",
                    "allocation failure is only generated for request frames",
                    "family viii (sink answers EAGAIN / EINTR / short write / zero-length write / hard error while a reply is sent): memory safety, no hang and the ledger are always demanded, with a caller that processes only after a successful receive and with one that always processes, both releasing mf.frame when it is not NULL; of the reply: when no hard error was answered and both regp_recv and regp_process reported success (the sink then took every octet it was offered), a frame the statement says is answered with a receive-overflow, transmit-overflow or busy response has been answered with exactly that; meta messages and all other replies are only inspected in the undisturbed exchange (they may be best effort once the sink hesitates)",
                    "a zero-length answer is only given to sink writes of several octets (what it means for a single octet is between sink_put_octet and its callers: C17, C08)",
                    "family ix: lengths >= 2^31 only on the length-prefix transport with a source offering a 64 KiB scratch buffer (octet-wise delivery of 2 GiB is out of budget); 2^24 octet-wise in the thorough tier; the generated frame is a write request whose payload is one repeated octet",
                    "the ledger allocator is also presented through the slab calling convention (families iii, viii)"],
    "harnesses": [{
        "name": "c09_memsafe", "src": "harness/c09_memsafe.c", "shape": "espace", "opt": "-O1",
        "lib": REGP_LIB, "min_outcomes": 12,
        "require_outcomes": {"any": ["fits-executed", "overflow-answered", "overflow-tiny-block", "read-executed", "tx-overflow", "alloc-mixed", "alloc-all-fail",
                                     "mutation-some-executed", "mutation-none-executed", "truncations", "short-frames", "two-frames", "tcp-prefix", "short-strings", "source-errors", "sink-errors",
                                     "read-variant-executed", "stale-frame-not-reused",
                                     "reply-sink-retry-request", "reply-sink-short-write", "reply-sink-zero-length-write", "reply-sink-hard-error",
                                     "giant-overflow-answered", "large-frame-served"]},
    }],
}
