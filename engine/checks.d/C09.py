import runpy, os
REGP_LIB = runpy.run_path(os.path.join(os.path.dirname(os.path.abspath(__file__)), "C08.py"))["REGP_LIB"]
CHECK = {
    "level": "fault_enumeration",
    "technique": "exhaustive enumeration of frame lengths, read sizes, allocation-failure scripts, stream mutations and endpoint-error positions through the real regp_recv/regp_process/regp_free under ASan+UBSan with exact-size allocator blocks, an allocation ledger and budgeted scripted endpoints",
    "rule": "a case is one point (or one small block) of a fault family: frame length x block size x transport variant; read size x block size x request header variant; allocation script; substitution position (x 13 octets x allocation); truncation set; string chunk; error position (x code x allocation x mutation); every case runs at least one receive/process/free round against the real code, all are non-trivial",
    "assumptions": ["block sizes from the stated set; the quantifier's 'random / coverage-guided streams' are replaced by the exhaustive families i..vi",
                    "for receive blocks that cannot hold a 16-octet header the form of the overflow reply is not demanded (the header needed to echo sequence and address was never stored); memory safety and the ledger are",
                    "a read whose data fits the block behind the request's header but not together with a full 16-octet response header may be executed or answered with a transmit-overflow response; one that does not fit behind the request's header (12, 14 or 16 octets as received) must be refused without access; the buffer size in that response is accepted as block size, block size minus descriptor, or that minus the request header",
                    "read requests that declare checksum words their transport does not mandate (incl. a payload checksum without payload) may be refused by the receiver; if executed the same size rule applies",
                    "a channel error of the source must make regp_recv return a negative value (which one is not demanded); how a failing sink is reported is not demanded (memory safety, no hang and the ledger are)",
                    "a frame shorter than a header is reported through error.id == EBADMSG plus the header-encoding meta message; regp_recv may additionally return a negative value",
                    "after regp_recv returned a channel error a caller may still pass the (reused) RPMaybeFrame to regp_process, as the documented service loop does",
                    "the allocator serves requests of any size and up to 8 live blocks; only unbalanced, double or foreign frees count",
                    "allocation failure is only generated for request frames"],
    "harnesses": [{
        "name": "c09_memsafe", "src": "harness/c09_memsafe.c", "shape": "espace", "opt": "-O1",
        "lib": REGP_LIB, "min_outcomes": 12,
        "require_outcomes": {"any": ["fits-executed", "overflow-answered", "overflow-tiny-block", "read-executed", "tx-overflow", "alloc-mixed", "alloc-all-fail",
                                     "mutation-some-executed", "mutation-none-executed", "truncations", "short-frames", "two-frames", "tcp-prefix", "short-strings", "source-errors", "sink-errors",
                                     "read-variant-executed", "stale-frame-not-reused"]},
    }],
}
