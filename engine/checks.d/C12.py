_LIB = ["src/rfc1055.c", "src/endpoints/core.c", "src/endpoints/buffer.c",
        "src/endpoints/trivial.c", "src/byte-buffer.c"]

CHECK = {
    "level": "model_checking",
    "technique": "bounded-exhaustive enumeration of closed encoder/decoder executions over scripted octet drivers (E-SPACE) "
                 "plus explicit-state search to fixpoint over the decoder context (E-STATE), each run on the real "
                 "rfc1055_encode/rfc1055_decode and judged by a lexical reference (independent RFC 1055 stuffing / frame recogniser)",
    "rule": "cases = every payload / raw stream over the octet classes {41,c0,db,dc,dd} up to the bound, every ordered payload pair, "
            "every garbage prefix x sequence of well-formed frames, every driver-call position x {-EIO,-EPIPE}, both modes; "
            "the quantifier's 'random full-alphabet payloads up to 1 KiB' is replaced by exhaustive structured families "
            "(ESC followed by each of the 256 octet values, all 65536 octet pairs, constant fills of all 256 values, ramps from all 256 starts, class cycles of every length 0..1024); "
            "E-STATE: from every reachable context (the whole RFC1055Context image as the library leaves it on a zeroed block, whatever members it has) every stream up to the bound is decoded to exhaustion. "
            "non-trivial = payload non-empty / stream yields at least one delivery or -EILSEQ / stream owes at least one frame "
            "behind the garbage / the injected fault fired",
    "assumptions": [
        "octet alphabet of the short families is one representative per SLIP class (41 stands for every ordinary octet); "
        "all 256 values are covered by the pair/fill/ramp families only",
        "a delivery is a decode call returning 1 with the octets it emitted; the driver discards the sink after every return, as test/t-rfc1055.c does",
        "drivers answer 1 octet per call or a negative code; 0-returns, -EINTR/-EAGAIN and partially accepting chunk sinks are not scripted (C17's subject)",
        "resynchronisation oracle: classic = frame behind any delimiter; start-of-frame = all non-empty frames of a well-formed run but the first non-empty one; "
        "empty deliveries never count against the decoder; delivery of empty frames is demanded only from the initial context",
        "'never emits more octets than it consumed' is judged cumulatively over the decode calls on one stream (a decoder may hold octets back across calls), not per call",
        "RFC1055_WORST_CASE is not named by the statement: it is only required to be no smaller than the worst-case encoding length 2n+1 (2n+2) (a buffer dimensioned with a smaller value would overflow); a larger, conservative value is accepted",
        "the decoder context is opaque apart from `flags` and `state` being readable: E-STATE nodes are whole context images produced by the library itself, 'initial' means octet-identical to what rfc1055_context_init produces",
    ],
    "harnesses": [
        {
            "name": "c12_slip", "src": "harness/c12_slip.c", "shape": "espace", "lib": _LIB,
            "min_outcomes": 16,
            "require_outcomes": {"any": [
                "rt-empty", "rt-plain", "rt-escaped", "rt-worst-case", "pair", "pair-with-empty", "worst-case-macro",
                "raw-frames", "raw-eilseq", "escape-rejected", "escape-accepted", "raw-eilseq-and-frames", "raw-no-frame",
                "resync-after-eilseq", "resync-after-eilseq-first-lost", "resync-silent", "resync-nothing-owed",
                "encode-sink-error", "encode-source-error", "decode-sink-error", "decode-source-error",
                "full-alphabet-pair", "fill-worst-case", "ramp", "cycle"]},
        },
        {
            "name": "c12_slip_ctx", "src": "harness/c12_slip.c", "shape": "estate", "lib": _LIB,
            "cflags": ["-DC12_ESTATE"], "shards": 1, "min_outcomes": 4,
            "require_outcomes": {"any": ["to-normal", "to-normal-via-eilseq", "to-search-for-end",
                                         "to-search-for-start", "to-search-for-start-delivering"]},
        },
    ],
}
