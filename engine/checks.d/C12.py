_LIB = ["src/rfc1055.c", "src/endpoints/core.c", "src/endpoints/buffer.c",
        "src/endpoints/trivial.c", "src/byte-buffer.c"]

CHECK = {
    "level": "model_checking",
    "technique": "bounded-exhaustive enumeration of closed encoder/decoder executions over scripted octet and chunk drivers (E-SPACE: inputs x "
                 "driver answer scripts x continued use of the same context) "
                 "plus explicit-state search to fixpoint over the decoder context (E-STATE, operations = streams with and without one driver failure), each run on the real "
                 "rfc1055_encode/rfc1055_decode and judged by a lexical reference (independent RFC 1055 stuffing / frame recogniser)",
    "rule": "cases = every payload / raw stream over the octet classes {41,c0,db,dc,dd} up to the bound, every ordered payload pair "
            "(fresh contexts, and one context object - from rfc1055_context_init or from the static initialiser - used for both encodes and the decode), "
            "every garbage prefix x sequence of well-formed frames, both modes; "
            "driver histories: every driver-call position x {-EIO,-EPIPE,-EAGAIN,-EINTR} for encode (source and sink) and decode (sink; source -EIO/-EPIPE), the decoder being used on "
            "with the same context and source after the failure (streams: all class strings up to the bound, all pairs of frames with payload <= 2, all triples with payload <= 1); "
            "source interruptions of the decoder: -EAGAIN/-EINTR/-ENODATA (the source has nothing for now and is refilled) at every source-call position, and every two positions (also back to back, all nine code combinations), "
            "x {rfc1055_context_init + octet drivers, static initialiser + chunk drivers}; "
            "encoder sink answer scripts: every placement of one and of two deviations from 'takes everything' over the first 2n+3 sink calls, deviations "
            "{short write (1 of several), zero-length return to a write of several octets, -EAGAIN, -EINTR, -EIO, -ENODATA (a hard error like -EIO whose code is the encoder's own end-of-payload sentinel)}, octet and chunk sinks, plus a chunk sink that accepts up to the next "
            "multiple of b octets for b = 1..8 (oracle: a negative result is one of the codes the sink answered in that execution, any of them when it answered several - or, behind a zero-length answer and no hard error, any negative code (giving up); "
            "after an -EIO/-ENODATA answer success is not accepted; success = a complete encoding reached the sink); "
            "runs of answers: at every one of the 2n+3 sink call positions k = 1..8 equal answers in a row {zero = took nothing (also to a call offering a single octet), -EAGAIN, -EINTR}, then everything is taken or -EIO is answered once; "
            "and a sink that takes nothing for ever from that position on (oracle: success = a complete encoding reached the sink; a negative result is a code the sink answered or, behind a zero answer, any negative code (giving up); "
            "in front of the dead sink running into the driver call budget or any error is admissible, success is not); "
            "RFC1055_WORST_CASE/_CLASSIC/_WITHSOF for every n <= 1100 and for n = 2^k-2..2^k+2, k = 1..62, as size_t and uint64_t, plain and as an expression argument, as long as n <= SIZE_MAX/4 "
            "(lengths with headroom: a conservative macro wraps before 2n+2 does); "
            "the quantifier's 'random full-alphabet payloads up to 1 KiB' is replaced by exhaustive structured families "
            "(ESC followed by each of the 256 octet values, all 65536 octet pairs, constant fills of all 256 values, ramps from all 256 starts, class cycles of every length 0..1024); "
            "E-STATE: from every reachable context (the whole RFC1055Context image as the library leaves it on a zeroed block, whatever members it has) every stream up to the bound is decoded to exhaustion, "
            "fault-free and with one driver failure (source -EAGAIN; source or sink -EIO, -ENODATA, -EILSEQ) at every call position followed by continued use; the contexts left behind by failures are search nodes too; "
            "every reachable context is also handed to rfc1055_encode for every payload <= 2 (complete encoding in the context's mode) and to rfc1055_context_init in both modes (history of initialisations: the result is a node that is owed what an initial context is owed); "
            "if more than 64 context images become known the image has no fixpoint within the cap (e.g. a context that counts what it decoded): no further image is recorded, the node in hand is finished, "
            "no further node is expanded, the interruption pass covers the expanded nodes only, the cap is recorded (exhaustive = false) and the run ends within seconds. "
            "non-trivial = payload non-empty / stream has a leading frame or an invalid escape (by the stream, not by the decoder's answer) / stream owes at least one frame "
            "behind the garbage / the injected fault fired / the scripted sink gave at least one non-default answer. "
            "Outcome classes are functions of the enumerated input and of the driver script only (never of the implementation's answers), so that a misbehaving "
            "implementation ends in a VIOLATION and not in a vacuity failure",
    "assumptions": [
        "octet alphabet of the short families is one representative per SLIP class (41 stands for every ordinary octet); "
        "all 256 values are covered by the pair/fill/ramp families only",
        "a delivery is a decode call returning 1 with the octets it emitted; the driver discards the sink after every return, as test/t-rfc1055.c does - "
        "except after a decode call that returned the -EAGAIN/-EINTR its source answered: that call is an interruption (the failing source call consumed nothing, the stream is the same octet string), "
        "the caller keeps the sink and calls again, and the interrupted call is folded into its successor before the log is judged like a fault-free one "
        "(clause C12/source-interruption-transparent; a decoder that asks the source again by itself instead of returning the code is accepted too)",
        "in the E-SPACE interruption family a source answer of -ENODATA in mid-stream is an interruption of the same kind: it is what the library's own buffer-backed sources answer when they are empty for now, the failing call consumed nothing, the source is refilled and the same context decodes on - "
        "the octets are the same stream ('decoding the encoding returns exactly the payload', 'concatenated encodings decode to the same payload sequence in order', through however many fillings of the source they arrive), "
        "so the decode call returns -ENODATA unchanged and the folded log is judged like the uninterrupted one (a split between ESC and its second octet included); "
        "a decoder that latches -ENODATA (repeats it without consuming) is owed nothing behind it; in the other families a driver-answered -ENODATA stays a hard error like -EIO",
        "'source or sink errors' = any negative answer of a driver; the statement names no code, so the alphabet is every errno value plus negative values outside the errno table "
        "(an implementation keeping the code in a narrower type, mapping unknown codes, or taking a driver's -ENODATA/-EILSEQ for its own sentinel does not return it unchanged)",
        "after a hard source error (any code but -EAGAIN/-EINTR; -ENODATA in the middle of a stream and -EILSEQ included) and after any sink error during decode the statement promises no more than behind a corrupted prefix: the code comes back unchanged, "
        "and the resynchronisation sentences are applied to the delimiters / cut positions behind the point of failure only (the octet a failing sink refused may be lost)",
        "a decoder may latch a hard driver error until rfc1055_context_init (the statement says the code is returned unchanged, not that the context stays usable): when the call right behind the failing one returns the same hard code again "
        "without any driver failing, consuming and emitting nothing, the run ends there without a finding, nothing behind the failure is judged, and (E-STATE) the latched context is not a search node; "
        "any other behaviour behind the failure (another code, octets consumed) is judged as before, a run that neither ends nor latches is C12/hang",
        "source drivers answer 1 octet per call or a negative code (what a 0 from a single-octet source_get_octet call means to rfc1055 is not decided by the statement and is left out). "
        "A sink may answer zero = 'took nothing' (the endpoint contract: 'will cause the system to retry'): in the deviation scripts only to a write of several octets, in the run family to every call, k = 1..8 times in a row or for ever. "
        "The statement's sentences about that: whenever encode reports success a complete encoding reached the sink (an octet or delimiter the sink did not take must not be counted as sent); "
        "an encoder that gives up behind a zero answer (no hard error answered) with a negative code of its own is accepted in the run family and in the deviation scripts alike (the statement names no code and promises no number of offers), "
        "in front of a sink that takes nothing for ever it may also offer until the driver call budget ends the run; "
        "-EAGAIN/-EINTR from a sink during encode may be returned unchanged or retried (sink_put_chunk retries, sink_put_octet returns)",
        "'sink errors are returned unchanged' with several sink errors in one encode execution (scripts with two deviations): returning any code the sink really answered satisfies the sentence "
        "(an encoder may still try to close the frame after the first error and meet the second); a negative code the sink never answered (unless the sink answered zero and no hard error: giving up), or success after an -EIO answer, is a violation",
        "an interrupted or failed *encode* is not resumed (the statement does not say how); whenever encode reports success under a sink script, what reached the sink must be a complete encoding",
        "resynchronisation oracle: classic = frame behind any delimiter; start-of-frame = all non-empty frames of a well-formed run but the first non-empty one; "
        "empty deliveries never count against the decoder; delivery of empty frames is demanded only from the initial context",
        "'never emits more octets than it consumed' is judged cumulatively over the decode calls on one stream (a decoder may hold octets back across calls), not per call",
        "RFC1055_WORST_CASE is not named by the statement: it is only required to be no smaller than the worst-case encoding length 2n+1 (2n+2) (a buffer or quota dimensioned with a smaller value would overflow), "
        "for every length n <= SIZE_MAX/4 (headroom of a factor two between the bound and SIZE_MAX: a conservative macro - 2n plus slack, 3n - wraps by the language's own rules before 2n+2 does, "
        "so nothing is demanded closer to SIZE_MAX), given as size_t/uint64_t (a 32-bit argument type wraps by the language's own rules and is not used beyond 2^16); a larger, conservative value is accepted",
        "a context that started initial and decoded nothing but complete well-formed frames up to the end of its source (the -ENODATA that ends every decode loop) holds no part of a frame: "
        "E-STATE treats it as initial for the next source (frames arriving through consecutive sources, e.g. one source per received block); after any other history only the resynchronisation sentences are demanded",
        "rfc1055_context_init is applied to arbitrary memory (block filled with a5, or a used context); the static initialisers are used as initialisers of an object",
        "the decoder context is opaque apart from `flags` and `state` being readable: E-STATE nodes are whole context images produced by the library itself, 'initial' means octet-identical to what rfc1055_context_init produces",
        "the E-STATE search assumes the context image reaches a fixpoint within 64 images (it does: 7); a context with members that never repeat is judged on the nodes expanded before the cap and reported as not exhaustive, never as a violation",
    ],
    "harnesses": [
        {
            "name": "c12_slip", "src": "harness/c12_slip.c", "shape": "espace", "lib": _LIB,
            "min_outcomes": 30,
            "require_outcomes": {"any": [
                "rt-empty", "rt-plain", "rt-escaped", "rt-worst-case", "pair", "pair-with-empty", "pair-context-reused",
                "worst-case-macro", "worst-case-macro-wide", "worst-case-macro-beyond-32-bit",
                "raw-frames", "raw-eilseq", "escape-invalid", "escape-valid", "raw-eilseq-and-frames", "raw-no-frame",
                "resync-after-invalid-escape", "resync-garbage-with-delimiter", "resync-garbage-without-delimiter",
                "resync-no-garbage", "resync-nothing-owed",
                "encode-sink-error", "encode-source-error", "decode-sink-error", "decode-source-error",
                "encode-sink-error-alphabet", "encode-source-error-alphabet", "decode-sink-error-alphabet", "decode-source-error-alphabet",
                "encode-sink-interrupted", "encode-source-interrupted", "decode-sink-interrupted",
                "interrupt-at-frame-boundary", "interrupt-inside-frame", "interrupt-inside-escape",
                "interrupt-unframed", "interrupt-at-end-of-stream", "interrupt-twice",
                "source-refilled", "source-refilled-inside-escape", "source-refilled-twice",
                "encode-sink-short-write", "encode-sink-zero-write", "encode-sink-interrupt",
                "encode-sink-hard-error", "encode-sink-two-deviations", "encode-sink-fifo-blocks",
                "encode-sink-zero-run", "encode-sink-interrupt-run", "encode-sink-dead",
                "full-alphabet-pair", "fill-worst-case", "ramp", "cycle"]},
        },
        {
            "name": "c12_slip_ctx", "src": "harness/c12_slip.c", "shape": "estate", "lib": _LIB,
            "cflags": ["-DC12_ESTATE"], "shards": 1, "min_outcomes": 4,
            "require_outcomes": {"any": ["initial-context", "initial-context-source-interrupted",
                                         "initial-context-source-error", "initial-context-sink-error",
                                         "initial-context-source-sentinel-code", "initial-context-sink-sentinel-code"]},
        },
    ],
}
