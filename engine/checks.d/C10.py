CHECK = {
    "level": "model_checking",
    "technique": "stateless bounded-exhaustive exploration of a closed driver around the real PersistentStorage: every configuration of the grid x every scenario parameter, medium owned by the harness (exact-size region block, logging callbacks, call budget), compared with an image array and three independently written checksum references",
    "rule": "odometer over (data size, placement, checksum, order of place/sum calls, auxiliary buffer) x scenario A (reset, full store of every image of the family, validate, fetch, every partial fetch) / B (every partial store (offset,len>=1) over a reset or stored image, 3 source images) / C (every part access with offset+len = N+1, N+2 and the 9 arithmetic-overflow pairs, store_part and fetch_part) / D (every single-octet alteration of the region x {^01,^80,^ff} x 2 base images); a case is non-trivial when it reached its final oracle without a failure; outcome classes name the scenario result and, for partial stores, how the configuration chunks the read-back",
    "assumptions": [
        "data sizes up to the stated bound (small-scope); image family {00.., ff.., two ramps, one-hot at each position}",
        "layout inside the region is not fixed by the statement: checksum before the data image (persistent-storage.c, set_data_address) or behind it, both accepted; a violation only when the stored image fits neither",
        "byte order of the checksum octets is not fixed by the statement: little- or big-endian accepted, alteration detection demanded relative to the placement/order(s) the store of that case used",
        "an in-range store that returns non-success on the fault-free medium is not a violation (the statement speaks about successful stores): trivial outcome class store-refused, unless the refused store changed the medium and the instance then validates an image its checksum does not cover; roundtrip-ok and all part-ok classes stay required, so a store that always fails trips the vacuity guard",
        "zero-length part accesses are not generated (the statement speaks of stores of image parts)",
        "an access outside the region is refused by the harness medium (returns 0) and never performed; ASan red zones guard the caller's buffers and the auxiliary buffer",
    ],
    "harnesses": [{
        "name": "c10_persistent", "src": "harness/c10_persistent.c", "shape": "espace",
        "lib": ["src/persistent-storage.c"], "opt": "-O1",
        "min_outcomes": 8,
        "require_outcomes": {"any": ["roundtrip-ok", "part-ok-octetwise", "part-ok-single-read",
                                     "part-ok-uneven-chunks", "part-ok-even-chunks",
                                     "refused-range", "refused-overflow", "alter-detected"]},
    }],
}
