#!/bin/sh
# seed_own.sh [ids...] -- re-verify filed seeded changes against the property's own quick check
# (and, for those it misses, against every check)
cd /verif
[ $# -gt 0 ] || set -- $(ls seeded | grep '^C')
for sid in "$@"; do
  pid=$(echo "$sid" | sed 's/.$//'); letter=$(echo "$sid" | sed 's/.*\(.\)$/\1/')
  n=$(python3 -c "print(ord('$letter') - ord('a') + 1)")
  [ "$n" = 1 ] && suffix="" || suffix=$n
  out=$(SEED_SRC=/nonexistent python3 engine/ingest_seed.py "$pid" "$suffix" "$pid" 2>&1 | tail -1)
  case "$out" in
    *'"caught_by": []'*) echo "$out  -> running every check"; SEED_SRC=/nonexistent python3 engine/ingest_seed.py "$pid" "$suffix" 2>&1 | tail -1 ;;
    *) echo "$out" ;;
  esac
done
