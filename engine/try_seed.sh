#!/bin/sh
# try_seed.sh <seed-id> [check-id] [tier] -- run one check against a scratch copy of /repo with one
# filed seeded change applied (no suite run, no filing).  Prints the check's output; exit code is the
# check's.  The scratch copy and its build output are removed afterwards.
set -u
sid=$1; chk=${2:-$(echo "$sid" | cut -c1-3)}; tier=${3:-quick}
w=$(mktemp -d /tmp/ufw-try-XXXXXX)
rsync -a --exclude _build --exclude .git /repo/ "$w/"
if ! (cd "$w" && patch -p1 --no-backup-if-mismatch -s < "/verif/seeded/$sid/patch.diff"); then
  echo "patch does not apply"; rm -rf "$w"; exit 2
fi
cd /verif
UFW_REPO=$w ./check "$chk" "$tier"; rc=$?
if [ -n "${KEEP_REPLAYS:-}" ]; then cp -r "build/alt/$(basename "$w")" "$KEEP_REPLAYS" 2>/dev/null; fi
rm -rf "$w" "build/alt/$(basename "$w")"
exit $rc
