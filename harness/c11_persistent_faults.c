/*
 * C11 -- checksummed persistent storage under power cuts and medium faults.
 *
 * Shape: E-SPACE over crash points and fault positions.  A case is
 * (configuration, operation, image pair, environment deviation); numbering
 * does not depend on what the implementation does: deviations are indexed by
 * (write-call ordinal, octets applied) resp. (medium-call ordinal, octets
 * transferred) up to fixed caps, and a deviation the execution never reaches
 * is a trivial case ("cut-not-reached" / "fault-not-reached").  A fault-free
 * "dry" case per (configuration, operation) checks that the caps were large
 * enough (otherwise mc_cap: the run is not called exhaustive).  When the
 * fault-free baseline itself misbehaves (that is property C10's subject) the
 * case is classed "precondition-failed", nothing is reported against C11 and
 * the run is marked capped.
 *
 *   power cut (w,t): medium calls before the w-th write are performed, the
 *       first t octets of the w-th write are applied, then the callback
 *       longjmps out of the library.  A *fresh* PersistentStorage instance
 *       (new struct, new auxiliary buffer) over the same medium validates and
 *       fetches.
 *       O: validate = success  =>  checksum octets on the medium = reference
 *          checksum of the data image on the medium;
 *          and for t in {0, len(w)}: validate = success  =>  fetch succeeds
 *          and returns exactly the previous or exactly the new image.
 *          Nothing is demanded when validation does not succeed.
 *   I/O fault (i,s): the i-th medium call of the operation transfers only its
 *       first s < len octets and returns s (s = 0: plain failure); or it
 *       transfers nothing and answers (size_t)-1 = SIZE_MAX, the conventional
 *       failure answer of a transfer callback (what a driver built on
 *       pread/pwrite hands back for -1).  Other answers larger than the request
 *       (len+1, len+2^k) are neither a failure nor a short transfer in the
 *       statement's words and are not generated.
 *       O: the operation returns PERSISTENT_ACCESS_IO_ERROR.
 *       For store, store_part and reset a fresh instance then validates the
 *       medium the failed operation left behind (x the 3 image pairs):
 *       validate = success  =>  checksum octets = reference checksum of the data
 *       image on the medium; if the failing call transferred nothing or was a
 *       read (every write that happened is whole)  =>  fetch returns exactly the
 *       previous or exactly the new image.  If it was a torn write and the
 *       library went on changing the medium after it such that a mixed image
 *       validates that did not validate in the torn state (it re-sealed the
 *       checksum over the half-written data), that is *logged* and classed
 *       fault-then-resealed-mixed, not reported: the error was reported and the
 *       checksum does match the data on the medium, no sentence is broken.
 *
 * Vacuity is guarded with classes that describe what the *harness* did to the
 * library (env-...: a cut fired at a write boundary / inside a write, a failed /
 * short / (size_t)-1 read or write was injected), recorded next to the case's
 * outcome class; what the library made of it (cut-valid-old, torn-invalid, ...)
 * depends on its admissible internal order and is not required.
 *
 * Zero-length parts (offset 0..N, length 0) are stores/fetches too; a library
 * that refuses them is accepted (class zero-length-refused, no cap).  A
 * zero-length medium access touches no octet: inside the region at any address,
 * and never the target of a (size_t)-1 answer.
 *
 * Image pairs (previous P, new Q; both stored fault-free => valid) are chosen
 * so that the implication is not vacuous: besides a generic pair, one pair
 * whose mixed images keep the additive checksums (adjacent octets swapped) and
 * one whose mixed images keep the CRC (difference = generator polynomial), so
 * that torn and partly written images do validate and reach the oracle.
 */
#include "mc.h"

#include <setjmp.h>

#include <ufw/persistent-storage.h>

#define NMAX 16

/* ---- reference checksums (written from the definitions, not from ufw) ------------- */

static uint32_t
ref_sum16(const unsigned char *d, size_t n)
{
    uint32_t s = 0;
    for (size_t i = 0; i < n; ++i)
        s = (s + d[i]) % 65536u;
    return s;
}

/* CRC-16/ARC: x^16+x^15+x^2+1, reflected, init 0, no final xor; bit-serial */
static uint16_t
crc16_arc_step(const unsigned char *d, size_t n, uint16_t crc)
{
    for (size_t i = 0; i < n; ++i) {
        crc ^= d[i];
        for (int b = 0; b < 8; ++b)
            crc = (crc & 1u) ? (uint16_t)((crc >> 1) ^ 0xa001u) : (uint16_t)(crc >> 1);
    }
    return crc;
}

#define SUM32_INIT 0xfffefd00u
static uint32_t
sum32_step(const unsigned char *d, size_t n, uint32_t s)
{
    for (size_t i = 0; i < n; ++i)
        s += (uint32_t)d[i] * 0x00010001u;
    return s;
}

enum { CK_DEFAULT, CK_CRC16, CK_SUM32, CK_KINDS };
static const char *const CKNAME[CK_KINDS] = { "default-sum16", "crc16-arc", "sum32" };

static size_t
cks_size(int ck)
{
    return ck == CK_SUM32 ? 4u : 2u;
}

static uint32_t
ref_checksum(int ck, const unsigned char *d, size_t n)
{
    switch (ck) {
    case CK_DEFAULT: return ref_sum16(d, n);
    case CK_CRC16: return crc16_arc_step(d, n, 0);
    default: return sum32_step(d, n, SUM32_INIT);
    }
}

/* 1 = little endian, 2 = big endian (the statement does not fix the order) */
static int
cks_orders(const unsigned char *p, size_t cs, uint32_t value)
{
    int m = 3;
    for (size_t i = 0; i < cs; ++i) {
        if (p[i] != (unsigned char)(value >> (8 * i)))
            m &= ~1;
        if (p[i] != (unsigned char)(value >> (8 * (cs - 1 - i))))
            m &= ~2;
    }
    return m;
}

/* Interpretations of a region image (the statement fixes neither which of
 * checksum and data image comes first nor the byte order of the checksum).
 * Bits 0/1: checksum first ([0,cs) checksum, [cs,cs+N) data), little/big
 * endian; bits 2/3: data first ([0,N) data, [N,N+cs) checksum).  With `expect`
 * the interpretations under which the region holds exactly (expect,
 * checksum(expect)); without, those under which it is consistent in itself. */
static int
region_interps(const unsigned char *img, size_t cs, size_t N, int ck, const unsigned char *expect)
{
    int m = 0;
    for (int lay = 0; lay < 2; ++lay) {
        const unsigned char *data = img + (lay ? 0 : cs);
        const unsigned char *sum = img + (lay ? N : 0);
        if (expect && memcmp(data, expect, N) != 0)
            continue;
        m |= cks_orders(sum, cs, ref_checksum(ck, data, N)) << (2 * lay);
    }
    return m;
}

static uint16_t
cb_crc16(const unsigned char *d, size_t n, uint16_t init)
{
    return crc16_arc_step(d, n, init);
}

static uint32_t
cb_sum32(const unsigned char *d, size_t n, uint32_t init)
{
    return sum32_step(d, n, init);
}

/* ---- the medium: region block + deviation plan ---------------------------------------- */

enum { PLAN_NONE, PLAN_CUT, PLAN_FAULT };

static struct {
    unsigned char *img;
    size_t size;
    uint64_t lo;
    /* accounting of the operation under observation */
    long calls, writes, budget;
    size_t maxlen, maxwrite, maxread;
    long outside;
    /* the deviation */
    int plan;
    long at;      /* PLAN_CUT: ordinal among write calls; PLAN_FAULT: among all calls */
    size_t t;     /* octets applied / transferred by the deviating call */
    int over;     /* PLAN_FAULT: 0 short transfer of t octets; 1..NOVER nothing transferred,
                     failure answer OVER_NAME */
    unsigned char *snap; /* region image at the moment the fault was injected */
    bool snapped;
    bool fired;
    char fired_rw;
    size_t fired_len;
    int escaped;  /* 0 no, 1 power cut, 2 call budget exhausted */
    jmp_buf escape;
} M;

/* failure answers of a driver other than a short count (nothing is
 * transferred): 1 SIZE_MAX = (size_t)-1 */
#define NOVER 1
static const char *const OVER_NAME[NOVER + 1] = { "", "SIZE_MAX" };

static bool
med_inside(uint32_t addr, size_t n)
{
    const uint64_t a = addr;
    if (n == 0)
        return true; /* touches no octet */
    return a >= M.lo && n <= M.size && (a - M.lo) <= (uint64_t)(M.size - n);
}

/* returns the number of octets this call transfers (n normally) and sets
 * *answer to what the callback returns; does not return on a power cut after
 * applying the prefix (writes only). */
static size_t
med_deviation(char rw, uint32_t addr, const void *src, size_t n, size_t *answer)
{
    *answer = n;
    const long call_no = M.calls++;
    const long write_no = (rw == 'w') ? M.writes++ : -1;
    mc_log("    medium %s addr=%lu len=%zu", rw == 'r' ? "read " : "write",
           (unsigned long)addr, n);
    if (M.calls > M.budget)
        longjmp(M.escape, 2);
    if (n > M.maxlen)
        M.maxlen = n;
    if (rw == 'w' && n > M.maxwrite)
        M.maxwrite = n;
    if (rw == 'r' && n > M.maxread)
        M.maxread = n;
    if (!med_inside(addr, n)) {
        M.outside++;
        *answer = 0;
        return 0;
    }
    if (M.plan == PLAN_CUT && !M.fired && write_no == M.at && M.t <= n) {
        M.fired = true;
        M.fired_rw = rw;
        M.fired_len = n;
        if (M.t)
            memcpy(M.img + ((uint64_t)addr - M.lo), src, M.t);
        mc_log("    POWER CUT after %zu of %zu octets", M.t, n);
        longjmp(M.escape, 1);
    }
    if (M.plan == PLAN_FAULT && !M.fired && call_no == M.at && M.over == 0 && M.t < n) {
        M.fired = true;
        M.fired_rw = rw;
        M.fired_len = n;
        mc_log("    FAULT: transfers %zu of %zu octets", M.t, n);
        *answer = M.t;
        return M.t;
    }
    if (M.plan == PLAN_FAULT && !M.fired && call_no == M.at && M.over != 0 && n > 0) {
        M.fired = true;
        M.fired_rw = rw;
        M.fired_len = n;
        *answer = SIZE_MAX;
        mc_log("    FAULT: transfers nothing of %zu octets, answers %s", n, OVER_NAME[M.over]);
        return 0;
    }
    return n;
}

/* the region as the faulting call left it */
static void
med_snapshot(void)
{
    if (M.plan == PLAN_FAULT && M.fired && !M.snapped && M.snap) {
        memcpy(M.snap, M.img, M.size);
        M.snapped = true;
    }
}

static size_t
med_read(void *dst, uint32_t addr, size_t n)
{
    size_t answer;
    const size_t k = med_deviation('r', addr, NULL, n, &answer);
    if (k)
        memcpy(dst, M.img + ((uint64_t)addr - M.lo), k);
    med_snapshot();
    return answer;
}

static size_t
med_write(uint32_t addr, const void *src, size_t n)
{
    size_t answer;
    const size_t k = med_deviation('w', addr, src, n, &answer);
    if (k)
        memcpy(M.img + ((uint64_t)addr - M.lo), src, k);
    med_snapshot();
    return answer;
}

/* ---- configuration ------------------------------------------------------------------------ */

struct cfg {
    size_t N;
    uint32_t place;
    int ck;
    int buf; /* -1 none, else size (>= 1) */
};

struct inst {
    PersistentStorage s;
    unsigned char *aux;
};

static void
inst_make(struct inst *in, const struct cfg *c)
{
    memset(in, 0, sizeof *in);
    persistent_init(&in->s, c->N, med_read, med_write);
    persistent_place(&in->s, c->place);
    if (c->ck == CK_CRC16)
        persistent_sum16(&in->s, cb_crc16, 0u);
    else if (c->ck == CK_SUM32)
        persistent_sum32(&in->s, cb_sum32, SUM32_INIT);
    if (c->buf >= 0) {
        in->aux = mc_exact((size_t)c->buf);
        persistent_buffer(&in->s, in->aux, (size_t)c->buf);
    }
}

static void
inst_free(struct inst *in)
{
    free(in->aux);
    in->aux = NULL;
}

/* ---- guarded library calls ------------------------------------------------------------------- */

enum { OP_STORE, OP_STORE_PART, OP_VALIDATE, OP_FETCH, OP_FETCH_PART, OP_RESET, OP_KINDS };
static const char *const OPNAME[OP_KINDS] = { "store", "store_part", "validate", "fetch",
                                              "fetch_part", "reset" };

struct call {
    int op;
    PersistentStorage *s;
    void *buf;
    size_t off, n;
    PersistentAccess rc;
};

static int
call_guarded(struct call *c)
{
    switch (setjmp(M.escape)) {
    case 0: break;
    case 1: return 1;
    default: return 2;
    }
    switch (c->op) {
    case OP_STORE: c->rc = persistent_store(c->s, c->buf); break;
    case OP_STORE_PART: c->rc = persistent_store_part(c->s, c->buf, c->off, c->n); break;
    case OP_VALIDATE: c->rc = persistent_validate(c->s); break;
    case OP_FETCH: c->rc = persistent_fetch(c->buf, c->s); break;
    case OP_FETCH_PART: c->rc = persistent_fetch_part(c->buf, c->s, c->off, c->n); break;
    default: c->rc = persistent_reset(c->s, 0x3c); break;
    }
    return 0;
}

static bool failed_here;
#define FAIL(...)                                                              \
    do {                                                                       \
        mc_fail(__VA_ARGS__);                                                  \
        failed_here = true;                                                    \
    } while (0)

/* A second class for the running case, next to the one mc_end() records: what
 * the harness did to the library in this case (cut fired at a write boundary,
 * short read injected, ...).  These classes depend on the enumeration only (and
 * on the library making reads and writes at all), not on what the library makes
 * of the deviation; they are the ones the vacuity guard requires. */
static void
env_class(const char *cls)
{
    if (!mc.active)
        return;
    int k;
    for (k = 0; k < mc.noutcomes; ++k)
        if (mc.outcomes[k] == cls || !strcmp(mc.outcomes[k], cls))
            break;
    if (k == mc.noutcomes && mc.noutcomes < MC_MAX_OUTCOMES)
        mc.outcomes[mc.noutcomes++] = cls;
    if (k < MC_MAX_OUTCOMES)
        mc.outcome_count[k]++;
    mc_log("  class %s", cls);
}

/* The fault-free baseline of a case did not behave (store of the previous or
 * new image fails, livelock without any deviation, access outside the region).
 * That is C10's subject, not a sentence of C11: no violation is recorded here,
 * the case is classed "precondition-failed" and the run is marked capped so
 * that it is never called exhaustive. */
static void
precondition_failed(const char *what)
{
    static bool capped;
    mc_log("  PRECONDITION: %s", what);
    if (mc.active && !capped) {
        capped = true;
        mc_cap("fault-free baseline failed (C10 decides that), first: %s in [%.120s]", what, mc.desc);
    }
}

static int next_over; /* kind of failure answer of the next PLAN_FAULT operation (see M.over) */

/* One library operation under deviation plan (plan, at, t).  Returns how the
 * call ended: 0 returned, 1 power cut, 2 call budget exhausted. */
static int
run_op(struct inst *in, int op, void *buf, size_t off, size_t n, int plan, long at, size_t t,
       PersistentAccess *rc)
{
    struct call c = { op, &in->s, buf, off, n, PERSISTENT_ACCESS_SUCCESS };
    M.calls = M.writes = 0;
    M.maxlen = M.maxwrite = M.maxread = 0;
    M.outside = 0;
    M.budget = 8 * (long)M.size + 32;
    M.plan = plan;
    M.at = at;
    M.t = t;
    M.over = (plan == PLAN_FAULT) ? next_over : 0;
    next_over = 0;
    if (plan == PLAN_FAULT)
        M.snapped = false;
    M.fired = false;
    mc_log("  %s(off=%zu,n=%zu)", OPNAME[op], off, n);
    mc_trans(1);
    M.escaped = call_guarded(&c);
    M.plan = PLAN_NONE;
    if (M.escaped == 2)
        mc_log("  -> no return within %ld medium calls", M.budget);
    if (M.escaped == 0) {
        mc_log("  -> rc=%d", (int)c.rc);
        *rc = c.rc;
    }
    return M.escaped;
}

/* ---- images ----------------------------------------------------------------------------------- */

#define NPAIRS 3
static const char *const PAIRNAME[NPAIRS] = { "generic", "sum-preserving", "crc-preserving" };

static void
make_pair(unsigned char *P, unsigned char *Q, size_t N, int pair)
{
    /* CRC-16/ARC generator x^16+x^15+x^2+1 as 17 message bits, first bit =
     * highest power, least significant bit of each octet first */
    static const unsigned char G[3] = { 0x03, 0x40, 0x01 };
    for (size_t i = 0; i < N; ++i)
        P[i] = (unsigned char)(0x21 + 0x1d * i);
    switch (pair) {
    case 0:
        for (size_t i = 0; i < N; ++i)
            Q[i] = (unsigned char)(0xd6 - 0x2b * i);
        break;
    case 1: /* adjacent octets swapped; a trailing odd octet changes */
        for (size_t i = 0; i < N; ++i)
            Q[i] = ((i ^ 1u) < N) ? P[i ^ 1u] : (unsigned char)~P[i];
        break;
    default: /* P xor repetitions of the generator; a short tail changes */
        for (size_t i = 0; i < N; ++i)
            Q[i] = (i < 3 * (N / 3)) ? (unsigned char)(P[i] ^ G[i % 3]) : (unsigned char)(P[i] ^ 0x5a);
        break;
    }
}

/* ---- case set-up -------------------------------------------------------------------------------- */

struct world {
    struct inst in;
    unsigned char P[NMAX], Q[NMAX], New[NMAX];
    int orders; /* placement/byte order(s) (region_interps) the fault-free store of P used */
    bool ready;
};

/* medium with the previous image P stored fault-free by the library itself */
static void
world_make(struct world *w, const struct cfg *c, int pair, size_t off, size_t len)
{
    failed_here = false;
    w->ready = false;
    M.size = cks_size(c->ck) + c->N;
    M.lo = c->place;
    M.img = mc_exact(M.size);
    memset(M.img, 0xcd, M.size);
    M.snap = mc_exact(M.size);
    memset(M.snap, 0, M.size);
    inst_make(&w->in, c);
    make_pair(w->P, w->Q, c->N, pair);
    memcpy(w->New, w->P, c->N);
    memcpy(w->New + off, w->Q + off, len);
    unsigned char *src = mc_exact_copy(w->P, c->N);
    PersistentAccess rc = PERSISTENT_ACCESS_SUCCESS;
    const int how = run_op(&w->in, OP_STORE, src, 0, 0, PLAN_NONE, 0, 0, &rc);
    free(src);
    const size_t cs = cks_size(c->ck);
    w->orders = region_interps(M.img, cs, c->N, c->ck, w->P);
    if (how != 0 || M.outside || rc != PERSISTENT_ACCESS_SUCCESS || w->orders == 0) {
        precondition_failed("fault-free store of the previous image");
        return;
    }
    w->ready = true;
}

static void
world_free(struct world *w)
{
    inst_free(&w->in);
    free(M.img);
    M.img = NULL;
    free(M.snap);
    M.snap = NULL;
}

/* the operation under deviation; src/dst blocks are exact */
static int
world_op(struct world *w, const struct cfg *c, int op, size_t off, size_t len, int plan, long at,
         size_t t, PersistentAccess *rc)
{
    unsigned char *buf = NULL;
    switch (op) {
    case OP_STORE: buf = mc_exact_copy(w->Q, c->N); break;
    case OP_STORE_PART: buf = mc_exact_copy(w->Q + off, len); break;
    case OP_FETCH: buf = mc_exact(c->N); memset(buf, 0xee, c->N); break;
    case OP_FETCH_PART: buf = mc_exact(len); memset(buf, 0xee, len); break;
    default: break;
    }
    const int how = run_op(&w->in, op, buf, off, len, plan, at, t, rc);
    free(buf);
    return how;
}

#define CFGFMT "N=%zu place=%lu ck=%s buf=%d"
#define CFGARG(c) (c)->N, (unsigned long)(c)->place, CKNAME[(c)->ck], (c)->buf

static void
opdesc(char *b, size_t n, int op, size_t off, size_t len)
{
    if (op == OP_STORE_PART || op == OP_FETCH_PART)
        snprintf(b, n, "%s(off=%zu,len=%zu)", OPNAME[op], off, len);
    else
        snprintf(b, n, "%s", OPNAME[op]);
}

/* ---- crash points ---------------------------------------------------------------------------------- */

#define WCAP 3 /* write-call ordinals 0..WCAP-1 are cut; a store makes 2 */

static void
crash_cases(const struct cfg *c, int op, size_t off, size_t len)
{
    const size_t cs = cks_size(c->ck);
    const size_t tcap = len > cs ? len : cs;
    char od[64];
    opdesc(od, sizeof od, op, off, len);
    for (int pair = 0; pair < NPAIRS; ++pair) {
        /* dry run: the new image is valid too; caps are wide enough */
        if (mc_case(CFGFMT " crash-dry %s pair=%s", CFGARG(c), od, PAIRNAME[pair])) {
            struct world w;
            world_make(&w, c, pair, off, len);
            bool ok = w.ready;
            bool refused0 = false;
            PersistentAccess rc = PERSISTENT_ACCESS_SUCCESS;
            if (ok) {
                const int how = world_op(&w, c, op, off, len, PLAN_NONE, 0, 0, &rc);
                if (how == 0 && !M.outside && rc != PERSISTENT_ACCESS_SUCCESS && len == 0) {
                    ok = false;
                    refused0 = true;
                } else if (how != 0 || M.outside || rc != PERSISTENT_ACCESS_SUCCESS
                    || (region_interps(M.img, cs, c->N, c->ck, w.New) & w.orders) == 0) {
                    precondition_failed("fault-free store of the new image");
                    ok = false;
                } else {
                    if (M.writes > WCAP)
                        mc_cap("%s made %ld write calls, crash points enumerated for the first %d", od,
                               M.writes, WCAP);
                    if (M.maxwrite > tcap)
                        mc_cap("%s made a medium write of %zu octets, tearing enumerated up to %zu", od,
                               M.maxwrite, tcap);
                    /* a library that writes even a full image of two or more octets
                     * one octet per call has no write a cut could tear */
                    if (op == OP_STORE && c->N >= 2 && M.maxwrite < 2)
                        env_class("env-cut-torn-write");
                }
            }
            world_free(&w);
            mc_end(ok, ok ? "dry-store-ok" : refused0 ? "zero-length-refused" : "precondition-failed");
        }
        for (long wr = 0; wr < WCAP; ++wr)
            for (size_t t = 0; t <= tcap; ++t) {
                if (!mc_case(CFGFMT " crash %s pair=%s cut-in-write=%ld after-octets=%zu", CFGARG(c), od,
                             PAIRNAME[pair], wr, t))
                    continue;
                struct world w;
                world_make(&w, c, pair, off, len);
                const char *outcome = "precondition-failed";
                bool nontrivial = false;
                PersistentAccess rc = PERSISTENT_ACCESS_SUCCESS;
                int how = -1;
                if (w.ready)
                    how = world_op(&w, c, op, off, len, PLAN_CUT, wr, t, &rc);
                if (how == 2) {
                    /* spins before any deviation happened */
                    precondition_failed("store does not return on a fault-free medium");
                } else if (how == 0) {
                    outcome = "cut-not-reached";
                } else if (how == 1) {
                    const size_t cutlen = M.fired_len;
                    const bool whole = (t == 0 || t == cutlen);
                    nontrivial = true;
                    outcome = "cut-validate-other";
                    env_class(whole ? "env-cut-at-write-boundary" : "env-cut-torn-write");
                    mc_log_hex("  region after the cut", M.img, M.size);
                    /* power is back: fresh instance over the same medium */
                    inst_free(&w.in);
                    inst_make(&w.in, c);
                    PersistentAccess v = PERSISTENT_ACCESS_SUCCESS;
                    if (run_op(&w.in, OP_VALIDATE, NULL, 0, 0, PLAN_NONE, 0, 0, &v) != 0) {
                        /* validation did not return: it did not succeed */
                    } else if (v == PERSISTENT_ACCESS_SUCCESS) {
                        const bool match = (region_interps(M.img, cs, c->N, c->ck, NULL) & w.orders) != 0;
                        if (!match)
                            FAIL("C11/valid-implies-checksum-matches",
                                 "validate succeeded after the cut although the checksum octets do "
                                 "not encode %s(data image on the medium)", CKNAME[c->ck]);
                        unsigned char *dst = mc_exact(c->N);
                        memset(dst, 0xee, c->N);
                        PersistentAccess f = PERSISTENT_ACCESS_IO_ERROR;
                        const int fhow = run_op(&w.in, OP_FETCH, dst, 0, 0, PLAN_NONE, 0, 0, &f);
                        mc_log_hex("  fetched", dst, c->N);
                        const bool got = fhow == 0 && f == PERSISTENT_ACCESS_SUCCESS;
                        const bool is_new = got && memcmp(dst, w.New, c->N) == 0;
                        const bool is_old = got && memcmp(dst, w.P, c->N) == 0;
                        if (whole && !is_new && !is_old)
                            FAIL("C11/whole-write-old-or-new",
                                 "cut at a write boundary, validate succeeded, but fetch (%s, rc=%d) "
                                 "returned neither the previous nor the new image",
                                 fhow ? "did not return" : "returned", (int)f);
                        outcome = is_new ? (whole ? "cut-valid-new" : "torn-valid-new")
                                  : is_old ? (whole ? "cut-valid-old" : "torn-valid-old")
                                           : "torn-valid-mixed-consistent";
                        free(dst);
                    } else if (v == PERSISTENT_ACCESS_INVALID_DATA) {
                        outcome = whole ? "cut-invalid" : "torn-invalid";
                    }
                }
                world_free(&w);
                mc_end(nontrivial && !failed_here, failed_here ? "failed" : outcome);
            }
    }
}

/* ---- single I/O faults ------------------------------------------------------------------------------ */

/* The medium a failed store / store_part / reset left behind, seen by a fresh
 * instance after the next start.  Returns the outcome class when validation
 * succeeded (NULL otherwise: nothing is demanded then). */
static const char *
after_fault(struct world *w, const struct cfg *c, int op, bool whole)
{
    const size_t cs = cks_size(c->ck);
    const char *outcome = NULL;
    mc_log_hex("  region at the fault", M.snap, M.size);
    mc_log_hex("  region after the failed operation", M.img, M.size);
    inst_free(&w->in);
    inst_make(&w->in, c);
    PersistentAccess v = PERSISTENT_ACCESS_IO_ERROR;
    if (run_op(&w->in, OP_VALIDATE, NULL, 0, 0, PLAN_NONE, 0, 0, &v) != 0 || v != PERSISTENT_ACCESS_SUCCESS)
        return NULL;
    if ((region_interps(M.img, cs, c->N, c->ck, NULL) & w->orders) == 0) {
        FAIL("C11/valid-implies-checksum-matches",
             "validate succeeded after the failed %s although the checksum octets do not encode "
             "%s(data image on the medium)", OPNAME[op], CKNAME[c->ck]);
        return NULL;
    }
    if (op == OP_RESET)
        return "fault-then-valid";
    unsigned char *dst = mc_exact(c->N);
    memset(dst, 0xee, c->N);
    PersistentAccess f = PERSISTENT_ACCESS_IO_ERROR;
    const int fhow = run_op(&w->in, OP_FETCH, dst, 0, 0, PLAN_NONE, 0, 0, &f);
    mc_log_hex("  fetched", dst, c->N);
    const bool got = fhow == 0 && f == PERSISTENT_ACCESS_SUCCESS;
    const bool is_new = got && memcmp(dst, w->New, c->N) == 0;
    const bool is_old = got && memcmp(dst, w->P, c->N) == 0;
    free(dst);
    if (is_new || is_old)
        return is_new ? "fault-then-valid-new" : "fault-then-valid-old";
    outcome = "fault-then-valid-mixed-consistent";
    if (whole) {
        FAIL("C11/whole-write-old-or-new",
             "no medium write of the failed %s was torn, validate succeeded, but fetch (%s, rc=%d) "
             "returned neither the previous nor the new image", OPNAME[op],
             fhow ? "did not return" : "returned", (int)f);
    } else if (M.snapped && memcmp(M.snap, M.img, M.size) != 0) {
        /* torn write, and the library changed the medium after it: did the torn
         * state validate by itself?  (observation only) */
        unsigned char *now = mc_exact_copy(M.img, M.size);
        memcpy(M.img, M.snap, M.size);
        PersistentAccess v0 = PERSISTENT_ACCESS_IO_ERROR;
        const int vhow = run_op(&w->in, OP_VALIDATE, NULL, 0, 0, PLAN_NONE, 0, 0, &v0);
        memcpy(M.img, now, M.size);
        free(now);
        if (vhow != 0 || v0 != PERSISTENT_ACCESS_SUCCESS) {
            /* an observation, not a violation: the failure was reported, and the
             * checksum on the medium does match the data on the medium */
            mc_log("  OBSERVATION: the medium write of %s was torn, the torn state did not validate, but what "
                   "the failed operation wrote afterwards makes the mixed image (neither previous nor new) "
                   "validate: checksum re-sealed over a half-written image after a reported failure",
                   OPNAME[op]);
            outcome = "fault-then-resealed-mixed";
        }
    }
    return outcome;
}

static void
fault_cases(const struct cfg *c, int op, size_t off, size_t len)
{
    const size_t cs = cks_size(c->ck);
    const long icap = (long)(c->N + cs) + 2;      /* >= calls of any operation, octet-wise */
    const size_t scap = c->N > cs ? c->N : cs;    /* >= length of any call */
    const bool stores = (op == OP_STORE || op == OP_STORE_PART || op == OP_RESET);
    const int npairs = (op == OP_STORE || op == OP_STORE_PART) ? NPAIRS : 1;
    const bool zero_len = (op == OP_STORE_PART || op == OP_FETCH_PART) && len == 0;
    char od[64];
    opdesc(od, sizeof od, op, off, len);
    if (mc_case(CFGFMT " io-dry %s", CFGARG(c), od)) {
        struct world w;
        world_make(&w, c, 0, off, len);
        bool ok = w.ready;
        const char *outcome = "precondition-failed";
        PersistentAccess rc = PERSISTENT_ACCESS_SUCCESS;
        if (ok) {
            const int how = world_op(&w, c, op, off, len, PLAN_NONE, 0, 0, &rc);
            if (how == 0 && !M.outside && rc != PERSISTENT_ACCESS_SUCCESS && zero_len) {
                ok = false;
                outcome = "zero-length-refused";
            } else if (how != 0 || M.outside || rc != PERSISTENT_ACCESS_SUCCESS) {
                precondition_failed("operation fails on a fault-free medium");
                ok = false;
            } else {
                if (M.calls > icap)
                    mc_cap("%s made %ld medium calls, fault positions enumerated for the first %ld", od,
                           M.calls, icap);
                if (M.maxlen > scap)
                    mc_cap("%s made a medium call of %zu octets, short transfers enumerated below %zu",
                           od, M.maxlen, scap);
                /* a library that moves even a full image of two or more octets one
                 * octet per call has no call that could transfer short (0 < s < len) */
                if (op == OP_STORE && c->N >= 2 && M.maxwrite < 2)
                    env_class("env-fault-short-write");
                if (op == OP_FETCH && c->N >= 2 && M.maxread < 2)
                    env_class("env-fault-short-read");
            }
        }
        world_free(&w);
        mc_end(ok, ok ? "dry-op-ok" : outcome);
    }
    for (int pair = 0; pair < npairs; ++pair)
        for (long i = 0; i < icap; ++i)
            for (size_t sc = 0; sc < scap + NOVER; ++sc) {
                const int over = sc < scap ? 0 : (int)(sc - scap) + 1;
                const size_t s = over ? 0 : sc;
                if (!mc_case(CFGFMT " io %s pair=%s fault-in-call=%ld transfers=%zu%s%s", CFGARG(c), od,
                             PAIRNAME[pair], i, s, over ? " answers=" : "", OVER_NAME[over]))
                    continue;
                struct world w;
                world_make(&w, c, pair, off, len);
                const char *outcome = "precondition-failed";
                bool nontrivial = false;
                PersistentAccess rc = PERSISTENT_ACCESS_SUCCESS;
                int how = -1;
                if (w.ready) {
                    next_over = over;
                    how = world_op(&w, c, op, off, len, PLAN_FAULT, i, s, &rc);
                }
                const char *answered = over ? "answered (size_t)-1 with nothing transferred"
                                            : "transferred short";
                if (how >= 0 && M.fired) {
                    if (M.fired_rw == 'r')
                        env_class(over ? "env-fault-minus1-read"
                                       : (s ? "env-fault-short-read" : "env-fault-failed-read"));
                    else
                        env_class(over ? "env-fault-minus1-write"
                                       : (s ? "env-fault-short-write" : "env-fault-failed-write"));
                }
                if (how == 2 && !M.fired) {
                    precondition_failed("operation does not return on a fault-free medium");
                } else if (how == 2) {
                    nontrivial = true;
                    FAIL("C11/hang",
                         "%s did not return within %ld medium calls after a medium %s of %zu octets "
                         "%s (%zu): the fault is never reported", od, M.budget,
                         M.fired_rw == 'r' ? "read" : "write", M.fired_len, answered, s);
                } else if (how == 0 && !M.fired) {
                    outcome = "fault-not-reached";
                } else if (how == 0) {
                    nontrivial = true;
                    if (rc == PERSISTENT_ACCESS_SUCCESS)
                        FAIL("C11/io-fault-never-success",
                             "%s returned success although its medium %s of %zu octets %s (%zu)",
                             od, M.fired_rw == 'r' ? "read" : "write", M.fired_len, answered, s);
                    else if (rc != PERSISTENT_ACCESS_IO_ERROR)
                        FAIL("C11/io-fault-reported-as-io-error",
                             "%s returned %d, not the I/O error code, after a medium %s of %zu octets "
                             "%s (%zu)", od, (int)rc, M.fired_rw == 'r' ? "read" : "write",
                             M.fired_len, answered, s);
                    if (M.fired_rw == 'r')
                        outcome = over ? "io-error-minus1-read"
                                       : (s ? "io-error-short-read" : "io-error-failed-read");
                    else
                        outcome = over ? "io-error-minus1-write"
                                       : (s ? "io-error-short-write" : "io-error-failed-write");
                    if (stores && !failed_here) {
                        const bool whole = (M.fired_rw == 'r') || s == 0;
                        const char *o = after_fault(&w, c, op, whole);
                        if (o)
                            outcome = o;
                    }
                }
                world_free(&w);
                mc_end(nontrivial && !failed_here, failed_here ? "failed" : outcome);
            }
}

/* ---- anchors ------------------------------------------------------------------------------------------ */

static void
anchors(void)
{
    MC_ANCHOR(crc16_arc_step((const unsigned char *)"123456789", 9, 0) == 0xbb3d, "CRC-16/ARC check value");
    unsigned char ff[258];
    memset(ff, 0xff, sizeof ff);
    MC_ANCHOR(ref_sum16(ff, 258) == 0x00feu, "sum16 wraps at 2^16");
    MC_ANCHOR(sum32_step(ff, 2, SUM32_INIT) == 0x01fcfefeu, "sum32 wraps at 2^32");
    MC_ANCHOR(PERSISTENT_ACCESS_SUCCESS == 0 && PERSISTENT_ACCESS_IO_ERROR != PERSISTENT_ACCESS_INVALID_DATA,
              "result codes");
    /* the image pairs do what the header comment promises (self-consistency of
     * the harness, otherwise the old-or-new implication would be vacuous) */
    unsigned char P[NMAX], Q[NMAX], X[NMAX];
    make_pair(P, Q, 8, 1);
    memcpy(X, P, 8);
    memcpy(X, Q, 4);
    MC_ANCHOR(memcmp(X, P, 8) && memcmp(X, Q, 8) && ref_sum16(X, 8) == ref_sum16(P, 8)
                  && sum32_step(X, 8, SUM32_INIT) == sum32_step(P, 8, SUM32_INIT),
              "sum-preserving pair");
    make_pair(P, Q, 8, 2);
    memcpy(X, P, 8);
    memcpy(X, Q, 3);
    MC_ANCHOR(memcmp(X, P, 8) && memcmp(X, Q, 8) && crc16_arc_step(X, 8, 0) == crc16_arc_step(P, 8, 0),
              "crc-preserving pair");
    for (size_t n = 1; n <= NMAX; ++n)
        for (int pair = 0; pair < NPAIRS; ++pair) {
            unsigned char A[NMAX], B[NMAX];
            make_pair(A, B, n, pair);
            MC_ANCHOR(memcmp(A, B, n) != 0, "previous and new image differ");
        }
}

#define PLACE_TOP 0xffffffffu /* marker: the region ends exactly at 2^32 */

int
main(int argc, char **argv)
{
    mc_init(argc, argv);
    anchors();
    static const uint32_t PLACES_Q[] = { 0u, 100u, PLACE_TOP };
    /* 0xfffd / 0x7ffffffd: the region straddles 2^16 / 2^31 */
    static const uint32_t PLACES_T[] = { 0u, 1u, 7u, 100u, 0xfffdu, 0x7ffffffdu, PLACE_TOP };
    const uint32_t *places = mc_thorough() ? PLACES_T : PLACES_Q;
    const int nplaces = mc_thorough() ? 7 : 3;
    const size_t nmax = mc_thorough() ? 14 : 8;
    struct cfg c;
    for (c.N = 1; c.N <= nmax; ++c.N) {
        /* auxiliary buffers: none, 1, 3, N (thorough: also 2, N-1, N+1) */
        int bufs[8], nb = 0;
        const int cand_q[] = { -1, 1, 3, (int)c.N };
        const int cand_t[] = { -1, 1, 2, 3, (int)c.N - 1, (int)c.N, (int)c.N + 1 };
        const int *cand = mc_thorough() ? cand_t : cand_q;
        const int ncand = mc_thorough() ? 7 : 4;
        for (int k = 0; k < ncand; ++k) {
            bool dup = (cand[k] == 0);
            for (int j = 0; j < nb; ++j)
                dup |= (bufs[j] == cand[k]);
            if (!dup)
                bufs[nb++] = cand[k];
        }
        for (int pi = 0; pi < nplaces; ++pi)
            for (c.ck = 0; c.ck < CK_KINDS; ++c.ck)
                for (int bi = 0; bi < nb; ++bi) {
                    c.place = places[pi] == PLACE_TOP
                                  ? (uint32_t)(0x100000000ull - (cks_size(c.ck) + c.N))
                                  : places[pi];
                    c.buf = bufs[bi];
                    /* power cuts: every store (parts include length 0 at offsets 0..N) */
                    crash_cases(&c, OP_STORE, 0, c.N);
                    for (size_t off = 0; off <= c.N; ++off)
                        for (size_t len = 0; off + len <= c.N; ++len)
                            if (!(off == 0 && len == c.N))
                                crash_cases(&c, OP_STORE_PART, off, len);
                    crash_cases(&c, OP_STORE_PART, 0, c.N);
                    /* single I/O faults: every operation */
                    fault_cases(&c, OP_STORE, 0, c.N);
                    fault_cases(&c, OP_VALIDATE, 0, 0);
                    fault_cases(&c, OP_FETCH, 0, c.N);
                    fault_cases(&c, OP_RESET, 0, 0);
                    for (size_t off = 0; off <= c.N; ++off)
                        for (size_t len = 0; off + len <= c.N; ++len) {
                            fault_cases(&c, OP_STORE_PART, off, len);
                            fault_cases(&c, OP_FETCH_PART, off, len);
                        }
                }
    }
    char bound[800];
    snprintf(bound, sizeof bound,
             "data sizes 1..%zu x placements %s x {default sum16, CRC-16/ARC, sum32} x auxiliary buffer %s: "
             "every store / store_part(offset,len>=0) x 3 image pairs x every write call x every t in 0..len; "
             "every operation (parts incl. length 0) x every medium call x every short count 0..len-1 and the "
             "failure answer (size_t)-1 (one fault per execution), stores x 3 image pairs with a "
             "fresh validate/fetch of the medium the failed operation left",
             nmax, mc_thorough() ? "{0,1,7,100,straddling 2^16,straddling 2^31,ending at 2^32}"
                                 : "{0,100,ending at 2^32}",
             mc_thorough() ? "{none,1,2,3,N-1,N,N+1}" : "{none,1,3,N}");
    mc_finish(true, bound);
    return 0;
}
