/*
 * C11 -- checksummed persistent storage under power cuts and medium faults.
 *
 * Shape: E-SPACE over crash points and fault positions.  A case is
 * (configuration, operation, image pair, environment deviation); numbering
 * does not depend on what the implementation does: deviations are indexed by
 * (write-call ordinal, octets applied) resp. (medium-call ordinal, octets
 * transferred) up to fixed caps, and a deviation the execution never reaches
 * is a trivial case ("cut-not-reached" / "fault-not-reached").  A fault-free
 * "dry" case per (configuration, operation) checks that the caps were large
 * enough (otherwise mc_cap: the run is not called exhaustive).  When the
 * fault-free baseline itself misbehaves (that is property C10's subject) the
 * case is classed "precondition-failed", nothing is reported against C11 and
 * the run is marked capped.
 *
 *   power cut (w,t): medium calls before the w-th write are performed, the
 *       first t octets of the w-th write are applied, then the callback
 *       longjmps out of the library.  A *fresh* PersistentStorage instance
 *       (new struct, new auxiliary buffer) over the same medium validates and
 *       fetches.
 *       O: validate = success  =>  checksum octets on the medium = reference
 *          checksum of the data image on the medium;
 *          and for t in {0, len(w)}: validate = success  =>  fetch succeeds
 *          and returns exactly the previous or exactly the new image.
 *          Nothing is demanded when validation does not succeed.
 *   I/O fault (i,s): the i-th medium call of the operation transfers only its
 *       first s < len octets and returns s (s = 0: plain failure).
 *       O: the operation returns PERSISTENT_ACCESS_IO_ERROR.
 *       One further driver answer is injected but NOT judged: the call transfers
 *       nothing and answers (size_t)-1 = SIZE_MAX (what a driver built on
 *       pread/pwrite hands back for -1).  Neither the header nor the
 *       documentation defines that as a failure answer, and `if (n < toget)
 *       error` is a natural implementation of "transfers short", so whatever the
 *       library makes of it is an observation (optional classes minus1-*); only
 *       when the library itself reports a failure for it is the medium it left
 *       judged like after a failed call.  Other answers larger than the request
 *       (len+1, len+2^k) are not generated.
 *       For store, store_part and reset a fresh instance then validates the
 *       medium the failed operation left behind (x the 5 image pairs of the fault
 *       cases: the 3 below, and two whose previous image has a zero second half /
 *       is all zero, so that the checksum over the octets read before a failing
 *       read equals the checksum on the medium; validate, fetch and fetch_part
 *       run over the generic, the zero-tail and the all-zero previous image):
 *       validate = success  =>  checksum octets = reference checksum of the data
 *       image on the medium; if the failing call transferred nothing or was a
 *       read (every write that happened is whole)  =>  fetch returns exactly the
 *       previous or exactly the new image.  If it was a torn write and the
 *       library went on changing the medium after it such that a mixed image
 *       validates that did not validate in the torn state (it re-sealed the
 *       checksum over the half-written data), that is *logged* and classed
 *       fault-then-resealed-mixed, not reported: the error was reported and the
 *       checksum does match the data on the medium, no sentence is broken.
 *
 * Vacuity is guarded with classes that describe what the *harness* did to the
 * library (env-...: a cut fired at a write boundary / inside a write, a failed /
 * short read or write was injected), recorded next to the case's
 * outcome class; what the library made of it (cut-valid-old, torn-invalid, ...)
 * depends on its admissible internal order and is not required.
 *
 * Zero-length parts (offset 0..N, length 0) are stores/fetches too; a library
 * that refuses them is accepted (class zero-length-refused, no cap).  A
 * zero-length medium access touches no octet: inside the region at any address,
 * and never the target of a (size_t)-1 answer.
 *
 * Image pairs (previous P, new Q; both stored fault-free => valid) are chosen
 * so that the implication is not vacuous: besides a generic pair, one pair
 * whose mixed images keep the additive checksums (adjacent octets swapped) and
 * one whose mixed images keep the CRC (difference = generator polynomial), so
 * that torn and partly written images do validate and reach the oracle.
 */
#include "mc.h"

#include <setjmp.h>

#include <ufw/persistent-storage.h>

#define NMAX 16

/* ---- reference checksums (written from the definitions, not from ufw) ------------- */

static uint32_t
ref_sum16(const unsigned char *d, size_t n)
{
    uint32_t s = 0;
    for (size_t i = 0; i < n; ++i)
        s = (s + d[i]) % 65536u;
    return s;
}

/* CRC-16/ARC: x^16+x^15+x^2+1, reflected, init 0, no final xor; bit-serial */
static uint16_t
crc16_arc_step(const unsigned char *d, size_t n, uint16_t crc)
{
    for (size_t i = 0; i < n; ++i) {
        crc ^= d[i];
        for (int b = 0; b < 8; ++b)
            crc = (crc & 1u) ? (uint16_t)((crc >> 1) ^ 0xa001u) : (uint16_t)(crc >> 1);
    }
    return crc;
}

#define SUM32_INIT 0xfffefd00u
static uint32_t
sum32_step(const unsigned char *d, size_t n, uint32_t s)
{
    for (size_t i = 0; i < n; ++i)
        s += (uint32_t)d[i] * 0x00010001u;
    return s;
}

enum { CK_DEFAULT, CK_CRC16, CK_SUM32, CK_KINDS };
static const char *const CKNAME[CK_KINDS] = { "default-sum16", "crc16-arc", "sum32" };

static size_t
cks_size(int ck)
{
    return ck == CK_SUM32 ? 4u : 2u;
}

static uint32_t
ref_checksum(int ck, const unsigned char *d, size_t n)
{
    switch (ck) {
    case CK_DEFAULT: return ref_sum16(d, n);
    case CK_CRC16: return crc16_arc_step(d, n, 0);
    default: return sum32_step(d, n, SUM32_INIT);
    }
}

/* 1 = little endian, 2 = big endian (the statement does not fix the order) */
static int
cks_orders(const unsigned char *p, size_t cs, uint32_t value)
{
    int m = 3;
    for (size_t i = 0; i < cs; ++i) {
        if (p[i] != (unsigned char)(value >> (8 * i)))
            m &= ~1;
        if (p[i] != (unsigned char)(value >> (8 * (cs - 1 - i))))
            m &= ~2;
    }
    return m;
}

/* Interpretations of a region image (the statement fixes neither which of
 * checksum and data image comes first nor the byte order of the checksum).
 * Bits 0/1: checksum first ([0,cs) checksum, [cs,cs+N) data), little/big
 * endian; bits 2/3: data first ([0,N) data, [N,N+cs) checksum).  With `expect`
 * the interpretations under which the region holds exactly (expect,
 * checksum(expect)); without, those under which it is consistent in itself. */
static int
region_interps(const unsigned char *img, size_t cs, size_t N, int ck, const unsigned char *expect)
{
    int m = 0;
    for (int lay = 0; lay < 2; ++lay) {
        const unsigned char *data = img + (lay ? 0 : cs);
        const unsigned char *sum = img + (lay ? N : 0);
        if (expect && memcmp(data, expect, N) != 0)
            continue;
        m |= cks_orders(sum, cs, ref_checksum(ck, data, N)) << (2 * lay);
    }
    return m;
}

static uint16_t
cb_crc16(const unsigned char *d, size_t n, uint16_t init)
{
    return crc16_arc_step(d, n, init);
}

static uint32_t
cb_sum32(const unsigned char *d, size_t n, uint32_t init)
{
    return sum32_step(d, n, init);
}

/* ---- the medium: region block + deviation plan ---------------------------------------- */

enum { PLAN_NONE, PLAN_CUT, PLAN_FAULT };

static struct {
    unsigned char *img;
    size_t size;
    uint64_t lo;
    /* accounting of the operation under observation */
    long calls, writes, budget;
    size_t maxlen, maxwrite, maxread;
    long outside;
    /* the deviation */
    int plan;
    long at;      /* PLAN_CUT: ordinal among write calls; PLAN_FAULT: among all calls */
    size_t t;     /* octets applied / transferred by the deviating call */
    int over;     /* PLAN_FAULT: 0 short transfer of t octets; 1..NOVER nothing transferred,
                     failure answer OVER_NAME */
    unsigned char *snap; /* region image at the moment the fault was injected */
    bool snapped;
    bool fired;
    char fired_rw;
    size_t fired_len;
    int escaped;  /* 0 no, 1 power cut, 2 call budget exhausted */
    jmp_buf escape;
} M;

/* failure answers of a driver other than a short count (nothing is
 * transferred): 1 SIZE_MAX = (size_t)-1 */
#define NOVER 1
static const char *const OVER_NAME[NOVER + 1] = { "", "SIZE_MAX" };

static bool
med_inside(uint32_t addr, size_t n)
{
    const uint64_t a = addr;
    if (n == 0)
        return true; /* touches no octet */
    return a >= M.lo && n <= M.size && (a - M.lo) <= (uint64_t)(M.size - n);
}

/* returns the number of octets this call transfers (n normally) and sets
 * *answer to what the callback returns; does not return on a power cut after
 * applying the prefix (writes only). */
static size_t
med_deviation(char rw, uint32_t addr, const void *src, size_t n, size_t *answer)
{
    *answer = n;
    const long call_no = M.calls++;
    const long write_no = (rw == 'w') ? M.writes++ : -1;
    mc_log("    medium %s addr=%lu len=%zu", rw == 'r' ? "read " : "write",
           (unsigned long)addr, n);
    if (M.calls > M.budget)
        longjmp(M.escape, 2);
    if (n > M.maxlen)
        M.maxlen = n;
    if (rw == 'w' && n > M.maxwrite)
        M.maxwrite = n;
    if (rw == 'r' && n > M.maxread)
        M.maxread = n;
    if (!med_inside(addr, n)) {
        M.outside++;
        *answer = 0;
        return 0;
    }
    if (M.plan == PLAN_CUT && !M.fired && write_no == M.at && M.t <= n) {
        M.fired = true;
        M.fired_rw = rw;
        M.fired_len = n;
        if (M.t)
            memcpy(M.img + ((uint64_t)addr - M.lo), src, M.t);
        mc_log("    POWER CUT after %zu of %zu octets", M.t, n);
        longjmp(M.escape, 1);
    }
    if (M.plan == PLAN_FAULT && !M.fired && call_no == M.at && M.over == 0 && M.t < n) {
        M.fired = true;
        M.fired_rw = rw;
        M.fired_len = n;
        mc_log("    FAULT: transfers %zu of %zu octets", M.t, n);
        *answer = M.t;
        return M.t;
    }
    if (M.plan == PLAN_FAULT && !M.fired && call_no == M.at && M.over != 0 && n > 0) {
        M.fired = true;
        M.fired_rw = rw;
        M.fired_len = n;
        *answer = SIZE_MAX;
        mc_log("    FAULT: transfers nothing of %zu octets, answers %s", n, OVER_NAME[M.over]);
        return 0;
    }
    return n;
}

/* the region as the faulting call left it */
static void
med_snapshot(void)
{
    if (M.plan == PLAN_FAULT && M.fired && !M.snapped && M.snap) {
        memcpy(M.snap, M.img, M.size);
        M.snapped = true;
    }
}

static size_t
med_read(void *dst, uint32_t addr, size_t n)
{
    size_t answer;
    const size_t k = med_deviation('r', addr, NULL, n, &answer);
    if (k)
        memcpy(dst, M.img + ((uint64_t)addr - M.lo), k);
    med_snapshot();
    return answer;
}

static size_t
med_write(uint32_t addr, const void *src, size_t n)
{
    size_t answer;
    const size_t k = med_deviation('w', addr, src, n, &answer);
    if (k)
        memcpy(M.img + ((uint64_t)addr - M.lo), src, k);
    med_snapshot();
    return answer;
}

/* ---- configuration ------------------------------------------------------------------------ */

struct cfg {
    size_t N;
    uint32_t place;
    int ck;
    int buf; /* -1 none, else size (>= 1) */
};

struct inst {
    PersistentStorage s;
    unsigned char *aux;
};

static void
inst_make(struct inst *in, const struct cfg *c)
{
    memset(in, 0, sizeof *in);
    persistent_init(&in->s, c->N, med_read, med_write);
    persistent_place(&in->s, c->place);
    if (c->ck == CK_CRC16)
        persistent_sum16(&in->s, cb_crc16, 0u);
    else if (c->ck == CK_SUM32)
        persistent_sum32(&in->s, cb_sum32, SUM32_INIT);
    if (c->buf >= 0) {
        in->aux = mc_exact((size_t)c->buf);
        persistent_buffer(&in->s, in->aux, (size_t)c->buf);
    }
}

static void
inst_free(struct inst *in)
{
    free(in->aux);
    in->aux = NULL;
}

/* ---- guarded library calls ------------------------------------------------------------------- */

enum { OP_STORE, OP_STORE_PART, OP_VALIDATE, OP_FETCH, OP_FETCH_PART, OP_RESET, OP_KINDS };
static const char *const OPNAME[OP_KINDS] = { "store", "store_part", "validate", "fetch",
                                              "fetch_part", "reset" };

struct call {
    int op;
    PersistentStorage *s;
    void *buf;
    size_t off, n;
    PersistentAccess rc;
};

static int
call_guarded(struct call *c)
{
    switch (setjmp(M.escape)) {
    case 0: break;
    case 1: return 1;
    default: return 2;
    }
    switch (c->op) {
    case OP_STORE: c->rc = persistent_store(c->s, c->buf); break;
    case OP_STORE_PART: c->rc = persistent_store_part(c->s, c->buf, c->off, c->n); break;
    case OP_VALIDATE: c->rc = persistent_validate(c->s); break;
    case OP_FETCH: c->rc = persistent_fetch(c->buf, c->s); break;
    case OP_FETCH_PART: c->rc = persistent_fetch_part(c->buf, c->s, c->off, c->n); break;
    default: c->rc = persistent_reset(c->s, 0x3c); break;
    }
    return 0;
}

static bool failed_here;
#define FAIL(...)                                                              \
    do {                                                                       \
        mc_fail(__VA_ARGS__);                                                  \
        failed_here = true;                                                    \
    } while (0)

/* A second class for the running case, next to the one mc_end() records: what
 * the harness did to the library in this case (cut fired at a write boundary,
 * short read injected, ...).  These classes depend on the enumeration only (and
 * on the library making reads and writes at all), not on what the library makes
 * of the deviation; they are the ones the vacuity guard requires. */
static void
env_class(const char *cls)
{
    if (!mc.active)
        return;
    int k;
    for (k = 0; k < mc.noutcomes; ++k)
        if (mc.outcomes[k] == cls || !strcmp(mc.outcomes[k], cls))
            break;
    if (k == mc.noutcomes && mc.noutcomes < MC_MAX_OUTCOMES)
        mc.outcomes[mc.noutcomes++] = cls;
    if (k < MC_MAX_OUTCOMES)
        mc.outcome_count[k]++;
    mc_log("  class %s", cls);
}

/* The fault-free baseline of a case did not behave (store of the previous or
 * new image fails, livelock without any deviation, access outside the region).
 * That is C10's subject, not a sentence of C11: no violation is recorded here,
 * the case is classed "precondition-failed" and the run is marked capped so
 * that it is never called exhaustive. */
static void
precondition_failed(const char *what)
{
    static bool capped;
    mc_log("  PRECONDITION: %s", what);
    if (mc.active && !capped) {
        capped = true;
        mc_cap("fault-free baseline failed (C10 decides that), first: %s in [%.120s]", what, mc.desc);
    }
}

static int next_over; /* kind of failure answer of the next PLAN_FAULT operation (see M.over) */

/* One library operation under deviation plan (plan, at, t).  Returns how the
 * call ended: 0 returned, 1 power cut, 2 call budget exhausted. */
static int
run_op(struct inst *in, int op, void *buf, size_t off, size_t n, int plan, long at, size_t t,
       PersistentAccess *rc)
{
    struct call c = { op, &in->s, buf, off, n, PERSISTENT_ACCESS_SUCCESS };
    M.calls = M.writes = 0;
    M.maxlen = M.maxwrite = M.maxread = 0;
    M.outside = 0;
    M.budget = 8 * (long)M.size + 32;
    M.plan = plan;
    M.at = at;
    M.t = t;
    M.over = (plan == PLAN_FAULT) ? next_over : 0;
    next_over = 0;
    if (plan == PLAN_FAULT)
        M.snapped = false;
    M.fired = false;
    mc_log("  %s(off=%zu,n=%zu)", OPNAME[op], off, n);
    mc_trans(1);
    M.escaped = call_guarded(&c);
    M.plan = PLAN_NONE;
    if (M.escaped == 2)
        mc_log("  -> no return within %ld medium calls", M.budget);
    if (M.escaped == 0) {
        mc_log("  -> rc=%d", (int)c.rc);
        *rc = c.rc;
    }
    return M.escaped;
}

/* ---- images ----------------------------------------------------------------------------------- */

#define NPAIRS 3  /* pairs of the crash cases */
#define NFPAIRS 5 /* pairs of the fault cases: those, and two whose previous image ends in / consists of zero octets */
static const char *const PAIRNAME[NFPAIRS] = { "generic", "sum-preserving", "crc-preserving", "zero-tail", "all-zero" };

static void
make_pair(unsigned char *P, unsigned char *Q, size_t N, int pair)
{
    /* CRC-16/ARC generator x^16+x^15+x^2+1 as 17 message bits, first bit =
     * highest power, least significant bit of each octet first */
    static const unsigned char G[3] = { 0x03, 0x40, 0x01 };
    for (size_t i = 0; i < N; ++i)
        P[i] = (unsigned char)(0x21 + 0x1d * i);
    /* Images whose checksum over a PREFIX of the data equals the checksum over
     * all of it (round 6): everything behind the first half is zero (additive
     * sums do not see trailing zeros), resp. every octet is zero (CRC-16/ARC with
     * initial value 0 and the sums with any initial value give the same value
     * for every prefix).  "A medium read that fails or transfers short at any
     * point of ... validate ... is always reported as an I/O error" also when the
     * octets that could not be read would not have changed the checksum. */
    if (pair == 3) {
        const size_t h = (N + 1) / 2;
        for (size_t i = 0; i < N; ++i) {
            P[i] = i < h ? P[i] : 0;
            Q[i] = i < h ? (unsigned char)(0xd6 - 0x2b * i) : 0;
        }
        return;
    }
    if (pair == 4) {
        for (size_t i = 0; i < N; ++i) {
            P[i] = 0;
            Q[i] = i == 0 ? 0x01 : 0;
        }
        return;
    }
    switch (pair) {
    case 0:
        for (size_t i = 0; i < N; ++i)
            Q[i] = (unsigned char)(0xd6 - 0x2b * i);
        break;
    case 1: /* adjacent octets swapped; a trailing odd octet changes */
        for (size_t i = 0; i < N; ++i)
            Q[i] = ((i ^ 1u) < N) ? P[i ^ 1u] : (unsigned char)~P[i];
        break;
    default: /* P xor repetitions of the generator; a short tail changes */
        for (size_t i = 0; i < N; ++i)
            Q[i] = (i < 3 * (N / 3)) ? (unsigned char)(P[i] ^ G[i % 3]) : (unsigned char)(P[i] ^ 0x5a);
        break;
    }
}

/* ---- case set-up -------------------------------------------------------------------------------- */

struct world {
    struct inst in;
    unsigned char P[NMAX], Q[NMAX], New[NMAX];
    int orders; /* placement/byte order(s) (region_interps) the fault-free store of P used */
    bool ready;
};

/* medium with the previous image P stored fault-free by the library itself */
static void
world_make(struct world *w, const struct cfg *c, int pair, size_t off, size_t len)
{
    failed_here = false;
    w->ready = false;
    M.size = cks_size(c->ck) + c->N;
    M.lo = c->place;
    M.img = mc_exact(M.size);
    memset(M.img, 0xcd, M.size);
    M.snap = mc_exact(M.size);
    memset(M.snap, 0, M.size);
    inst_make(&w->in, c);
    make_pair(w->P, w->Q, c->N, pair);
    memcpy(w->New, w->P, c->N);
    memcpy(w->New + off, w->Q + off, len);
    unsigned char *src = mc_exact_copy(w->P, c->N);
    PersistentAccess rc = PERSISTENT_ACCESS_SUCCESS;
    const int how = run_op(&w->in, OP_STORE, src, 0, 0, PLAN_NONE, 0, 0, &rc);
    free(src);
    const size_t cs = cks_size(c->ck);
    w->orders = region_interps(M.img, cs, c->N, c->ck, w->P);
    if (how != 0 || M.outside || rc != PERSISTENT_ACCESS_SUCCESS || w->orders == 0) {
        precondition_failed("fault-free store of the previous image");
        return;
    }
    w->ready = true;
}

static void
world_free(struct world *w)
{
    inst_free(&w->in);
    free(M.img);
    M.img = NULL;
    free(M.snap);
    M.snap = NULL;
}

/* the operation under deviation; src/dst blocks are exact */
static int
world_op(struct world *w, const struct cfg *c, int op, size_t off, size_t len, int plan, long at,
         size_t t, PersistentAccess *rc)
{
    unsigned char *buf = NULL;
    switch (op) {
    case OP_STORE: buf = mc_exact_copy(w->Q, c->N); break;
    case OP_STORE_PART: buf = mc_exact_copy(w->Q + off, len); break;
    case OP_FETCH: buf = mc_exact(c->N); memset(buf, 0xee, c->N); break;
    case OP_FETCH_PART: buf = mc_exact(len); memset(buf, 0xee, len); break;
    default: break;
    }
    const int how = run_op(&w->in, op, buf, off, len, plan, at, t, rc);
    free(buf);
    return how;
}

#define CFGFMT "N=%zu place=%lu ck=%s buf=%d"
#define CFGARG(c) (c)->N, (unsigned long)(c)->place, CKNAME[(c)->ck], (c)->buf

static void
opdesc(char *b, size_t n, int op, size_t off, size_t len)
{
    if (op == OP_STORE_PART || op == OP_FETCH_PART)
        snprintf(b, n, "%s(off=%zu,len=%zu)", OPNAME[op], off, len);
    else
        snprintf(b, n, "%s", OPNAME[op]);
}

/* ---- crash points ---------------------------------------------------------------------------------- */

#define WCAP 3 /* write-call ordinals 0..WCAP-1 are cut; a store makes 2 */

static void
crash_cases(const struct cfg *c, int op, size_t off, size_t len)
{
    const size_t cs = cks_size(c->ck);
    const size_t tcap = len > cs ? len : cs;
    char od[64];
    opdesc(od, sizeof od, op, off, len);
    for (int pair = 0; pair < NPAIRS; ++pair) {
        /* dry run: the new image is valid too; caps are wide enough */
        if (mc_case(CFGFMT " crash-dry %s pair=%s", CFGARG(c), od, PAIRNAME[pair])) {
            struct world w;
            world_make(&w, c, pair, off, len);
            bool ok = w.ready;
            bool refused0 = false;
            PersistentAccess rc = PERSISTENT_ACCESS_SUCCESS;
            if (ok) {
                const int how = world_op(&w, c, op, off, len, PLAN_NONE, 0, 0, &rc);
                if (how == 0 && !M.outside && rc != PERSISTENT_ACCESS_SUCCESS && len == 0) {
                    ok = false;
                    refused0 = true;
                } else if (how != 0 || M.outside || rc != PERSISTENT_ACCESS_SUCCESS
                    || (region_interps(M.img, cs, c->N, c->ck, w.New) & w.orders) == 0) {
                    precondition_failed("fault-free store of the new image");
                    ok = false;
                } else {
                    if (M.writes > WCAP)
                        mc_cap("%s made %ld write calls, crash points enumerated for the first %d", od,
                               M.writes, WCAP);
                    if (M.maxwrite > tcap)
                        mc_cap("%s made a medium write of %zu octets, tearing enumerated up to %zu", od,
                               M.maxwrite, tcap);
                    /* a library that writes even a full image of two or more octets
                     * one octet per call has no write a cut could tear */
                    if (op == OP_STORE && c->N >= 2 && M.maxwrite < 2)
                        env_class("env-cut-torn-write");
                }
            }
            world_free(&w);
            mc_end(ok, ok ? "dry-store-ok" : refused0 ? "zero-length-refused" : "precondition-failed");
        }
        for (long wr = 0; wr < WCAP; ++wr)
            for (size_t t = 0; t <= tcap; ++t) {
                if (!mc_case(CFGFMT " crash %s pair=%s cut-in-write=%ld after-octets=%zu", CFGARG(c), od,
                             PAIRNAME[pair], wr, t))
                    continue;
                struct world w;
                world_make(&w, c, pair, off, len);
                const char *outcome = "precondition-failed";
                bool nontrivial = false;
                PersistentAccess rc = PERSISTENT_ACCESS_SUCCESS;
                int how = -1;
                if (w.ready)
                    how = world_op(&w, c, op, off, len, PLAN_CUT, wr, t, &rc);
                if (how == 2) {
                    /* spins before any deviation happened */
                    precondition_failed("store does not return on a fault-free medium");
                } else if (how == 0) {
                    outcome = "cut-not-reached";
                } else if (how == 1) {
                    const size_t cutlen = M.fired_len;
                    const bool whole = (t == 0 || t == cutlen);
                    nontrivial = true;
                    outcome = "cut-validate-other";
                    env_class(whole ? "env-cut-at-write-boundary" : "env-cut-torn-write");
                    mc_log_hex("  region after the cut", M.img, M.size);
                    /* power is back: fresh instance over the same medium */
                    inst_free(&w.in);
                    inst_make(&w.in, c);
                    PersistentAccess v = PERSISTENT_ACCESS_SUCCESS;
                    if (run_op(&w.in, OP_VALIDATE, NULL, 0, 0, PLAN_NONE, 0, 0, &v) != 0) {
                        /* validation did not return: it did not succeed */
                    } else if (v == PERSISTENT_ACCESS_SUCCESS) {
                        const bool match = (region_interps(M.img, cs, c->N, c->ck, NULL) & w.orders) != 0;
                        if (!match)
                            FAIL("C11/valid-implies-checksum-matches",
                                 "validate succeeded after the cut although the checksum octets do "
                                 "not encode %s(data image on the medium)", CKNAME[c->ck]);
                        unsigned char *dst = mc_exact(c->N);
                        memset(dst, 0xee, c->N);
                        PersistentAccess f = PERSISTENT_ACCESS_IO_ERROR;
                        const int fhow = run_op(&w.in, OP_FETCH, dst, 0, 0, PLAN_NONE, 0, 0, &f);
                        mc_log_hex("  fetched", dst, c->N);
                        const bool got = fhow == 0 && f == PERSISTENT_ACCESS_SUCCESS;
                        const bool is_new = got && memcmp(dst, w.New, c->N) == 0;
                        const bool is_old = got && memcmp(dst, w.P, c->N) == 0;
                        if (whole && !is_new && !is_old)
                            FAIL("C11/whole-write-old-or-new",
                                 "cut at a write boundary, validate succeeded, but fetch (%s, rc=%d) "
                                 "returned neither the previous nor the new image",
                                 fhow ? "did not return" : "returned", (int)f);
                        outcome = is_new ? (whole ? "cut-valid-new" : "torn-valid-new")
                                  : is_old ? (whole ? "cut-valid-old" : "torn-valid-old")
                                           : "torn-valid-mixed-consistent";
                        free(dst);
                    } else if (v == PERSISTENT_ACCESS_INVALID_DATA) {
                        outcome = whole ? "cut-invalid" : "torn-invalid";
                    }
                }
                world_free(&w);
                mc_end(nontrivial && !failed_here, failed_here ? "failed" : outcome);
            }
    }
}

/* ---- single I/O faults ------------------------------------------------------------------------------ */

/* What validation says about the medium a failed store / store_part / reset left
 * behind -- asked of `who`: first the very instance that ran the failed
 * operation ("a later validation" of the statement is not restricted to an
 * instance that was set up anew: an instance that remembers an earlier verdict,
 * or anything else about the image, across its own failed operation must not
 * hand that out), then a fresh instance after the next start.  Returns the
 * outcome class when validation succeeded (NULL otherwise: nothing is demanded
 * then, the statement is an implication). */
static const char *
judge_after_fault(struct world *w, const struct cfg *c, int op, bool whole, const char *who, bool *mixed)
{
    const size_t cs = cks_size(c->ck);
    *mixed = false;
    PersistentAccess v = PERSISTENT_ACCESS_IO_ERROR;
    if (run_op(&w->in, OP_VALIDATE, NULL, 0, 0, PLAN_NONE, 0, 0, &v) != 0 || v != PERSISTENT_ACCESS_SUCCESS)
        return NULL;
    if ((region_interps(M.img, cs, c->N, c->ck, NULL) & w->orders) == 0) {
        FAIL("C11/valid-implies-checksum-matches",
             "validate (%s) succeeded after the failed %s although the checksum octets do not encode "
             "%s(data image on the medium)", who, OPNAME[op], CKNAME[c->ck]);
        return NULL;
    }
    if (op == OP_RESET)
        return "fault-then-valid";
    unsigned char *dst = mc_exact(c->N);
    memset(dst, 0xee, c->N);
    PersistentAccess f = PERSISTENT_ACCESS_IO_ERROR;
    const int fhow = run_op(&w->in, OP_FETCH, dst, 0, 0, PLAN_NONE, 0, 0, &f);
    mc_log_hex("  fetched", dst, c->N);
    const bool got = fhow == 0 && f == PERSISTENT_ACCESS_SUCCESS;
    const bool is_new = got && memcmp(dst, w->New, c->N) == 0;
    const bool is_old = got && memcmp(dst, w->P, c->N) == 0;
    free(dst);
    if (is_new || is_old)
        return is_new ? "fault-then-valid-new" : "fault-then-valid-old";
    if (whole)
        FAIL("C11/whole-write-old-or-new",
             "no medium write of the failed %s was torn, validate (%s) succeeded, but fetch (%s, rc=%d) "
             "returned neither the previous nor the new image", OPNAME[op], who,
             fhow ? "did not return" : "returned", (int)f);
    *mixed = true;
    return "fault-then-valid-mixed-consistent";
}

static const char *
after_fault(struct world *w, const struct cfg *c, int op, bool whole)
{
    bool mixed = false;
    mc_log_hex("  region at the fault", M.snap, M.size);
    mc_log_hex("  region after the failed operation", M.img, M.size);
    /* the instance that ran the failed operation */
    mc_log("  same instance:");
    (void)judge_after_fault(w, c, op, whole, "same instance", &mixed);
    if (failed_here)
        return NULL;
    /* after the next start: a fresh instance over the same medium */
    mc_log("  fresh instance:");
    inst_free(&w->in);
    inst_make(&w->in, c);
    const char *outcome = judge_after_fault(w, c, op, whole, "fresh instance", &mixed);
    if (!outcome || failed_here)
        return failed_here ? NULL : outcome;
    if (mixed && !whole && M.snapped && memcmp(M.snap, M.img, M.size) != 0) {
        /* torn write, and the library changed the medium after it: did the torn
         * state validate by itself?  (observation only) */
        unsigned char *now = mc_exact_copy(M.img, M.size);
        memcpy(M.img, M.snap, M.size);
        PersistentAccess v0 = PERSISTENT_ACCESS_IO_ERROR;
        const int vhow = run_op(&w->in, OP_VALIDATE, NULL, 0, 0, PLAN_NONE, 0, 0, &v0);
        memcpy(M.img, now, M.size);
        free(now);
        if (vhow != 0 || v0 != PERSISTENT_ACCESS_SUCCESS) {
            /* an observation, not a violation: the failure was reported, and the
             * checksum on the medium does match the data on the medium */
            mc_log("  OBSERVATION: the medium write of %s was torn, the torn state did not validate, but what "
                   "the failed operation wrote afterwards makes the mixed image (neither previous nor new) "
                   "validate: checksum re-sealed over a half-written image after a reported failure",
                   OPNAME[op]);
            outcome = "fault-then-resealed-mixed";
        }
    }
    return outcome;
}

static void
fault_cases(const struct cfg *c, int op, size_t off, size_t len)
{
    const size_t cs = cks_size(c->ck);
    const long icap = (long)(c->N + cs) + 2;      /* >= calls of any operation, octet-wise */
    const size_t scap = c->N > cs ? c->N : cs;    /* >= length of any call */
    const bool stores = (op == OP_STORE || op == OP_STORE_PART || op == OP_RESET);
    /* stores: all five pairs; validate / fetch / fetch_part: generic, zero-tail,
     * all-zero (the previous image is what they read); reset: generic */
    static const int PAIRS_STORE[NFPAIRS] = { 0, 1, 2, 3, 4 }, PAIRS_READ[3] = { 0, 3, 4 }, PAIRS_ONE[1] = { 0 };
    const bool reads = (op == OP_VALIDATE || op == OP_FETCH || op == OP_FETCH_PART);
    const int npairs = (op == OP_STORE || op == OP_STORE_PART) ? NFPAIRS : reads ? 3 : 1;
    const int *pairs = (op == OP_STORE || op == OP_STORE_PART) ? PAIRS_STORE : reads ? PAIRS_READ : PAIRS_ONE;
    const bool zero_len = (op == OP_STORE_PART || op == OP_FETCH_PART) && len == 0;
    char od[64];
    opdesc(od, sizeof od, op, off, len);
    if (mc_case(CFGFMT " io-dry %s", CFGARG(c), od)) {
        struct world w;
        world_make(&w, c, 0, off, len);
        bool ok = w.ready;
        const char *outcome = "precondition-failed";
        PersistentAccess rc = PERSISTENT_ACCESS_SUCCESS;
        if (ok) {
            const int how = world_op(&w, c, op, off, len, PLAN_NONE, 0, 0, &rc);
            if (how == 0 && !M.outside && rc != PERSISTENT_ACCESS_SUCCESS && zero_len) {
                ok = false;
                outcome = "zero-length-refused";
            } else if (how != 0 || M.outside || rc != PERSISTENT_ACCESS_SUCCESS) {
                precondition_failed("operation fails on a fault-free medium");
                ok = false;
            } else {
                if (M.calls > icap)
                    mc_cap("%s made %ld medium calls, fault positions enumerated for the first %ld", od,
                           M.calls, icap);
                if (M.maxlen > scap)
                    mc_cap("%s made a medium call of %zu octets, short transfers enumerated below %zu",
                           od, M.maxlen, scap);
                /* a library that moves even a full image of two or more octets one
                 * octet per call has no call that could transfer short (0 < s < len) */
                if (op == OP_STORE && c->N >= 2 && M.maxwrite < 2)
                    env_class("env-fault-short-write");
                if (op == OP_FETCH && c->N >= 2 && M.maxread < 2)
                    env_class("env-fault-short-read");
            }
        }
        world_free(&w);
        mc_end(ok, ok ? "dry-op-ok" : outcome);
    }
    for (int pi = 0; pi < npairs; ++pi)
        for (long i = 0; i < icap; ++i)
            for (size_t sc = 0; sc < scap + NOVER; ++sc) {
                const int pair = pairs[pi];
                const int over = sc < scap ? 0 : (int)(sc - scap) + 1;
                const size_t s = over ? 0 : sc;
                if (!mc_case(CFGFMT " io %s pair=%s fault-in-call=%ld transfers=%zu%s%s", CFGARG(c), od,
                             PAIRNAME[pair], i, s, over ? " answers=" : "", OVER_NAME[over]))
                    continue;
                struct world w;
                world_make(&w, c, pair, off, len);
                const char *outcome = "precondition-failed";
                bool nontrivial = false;
                PersistentAccess rc = PERSISTENT_ACCESS_SUCCESS;
                int how = -1;
                if (w.ready) {
                    next_over = over;
                    how = world_op(&w, c, op, off, len, PLAN_FAULT, i, s, &rc);
                }
                const char *answered = over ? "answered (size_t)-1 with nothing transferred"
                                            : "transferred short";
                if (how >= 0 && M.fired) {
                    if (M.fired_rw == 'r')
                        env_class(over ? "env-fault-minus1-read"
                                       : (s ? "env-fault-short-read" : "env-fault-failed-read"));
                    else
                        env_class(over ? "env-fault-minus1-write"
                                       : (s ? "env-fault-short-write" : "env-fault-failed-write"));
                }
                if (how == 2 && !M.fired) {
                    precondition_failed("operation does not return on a fault-free medium");
                } else if (how == 2 && over) {
                    /* not a failure answer by any document: not judged */
                    mc_log("  OBSERVATION: no return within the call budget after the answer (size_t)-1");
                    outcome = "minus1-answer-no-return";
                } else if (how == 2) {
                    nontrivial = true;
                    FAIL("C11/hang",
                         "%s did not return within %ld medium calls after a medium %s of %zu octets "
                         "%s (%zu): the fault is never reported", od, M.budget,
                         M.fired_rw == 'r' ? "read" : "write", M.fired_len, answered, s);
                } else if (how == 0 && !M.fired) {
                    outcome = "fault-not-reached";
                } else if (how == 0 && over && rc == PERSISTENT_ACCESS_SUCCESS) {
                    /* the library took (size_t)-1 for a transfer count that is not
                     * short: admissible (no document calls it a failure answer);
                     * nothing is demanded of what such an operation leaves behind */
                    nontrivial = true;
                    mc_log("  OBSERVATION: %s returned success after its medium %s of %zu octets %s", od,
                           M.fired_rw == 'r' ? "read" : "write", M.fired_len, answered);
                    outcome = M.fired_rw == 'r' ? "minus1-read-taken-as-transfer" : "minus1-write-taken-as-transfer";
                } else if (how == 0) {
                    nontrivial = true;
                    if (over)
                        mc_log("  OBSERVATION: %s returned %d after its medium %s of %zu octets %s", od, (int)rc,
                               M.fired_rw == 'r' ? "read" : "write", M.fired_len, answered);
                    else if (rc == PERSISTENT_ACCESS_SUCCESS)
                        FAIL("C11/io-fault-never-success",
                             "%s returned success although its medium %s of %zu octets %s (%zu)",
                             od, M.fired_rw == 'r' ? "read" : "write", M.fired_len, answered, s);
                    else if (rc != PERSISTENT_ACCESS_IO_ERROR)
                        FAIL("C11/io-fault-reported-as-io-error",
                             "%s returned %d, not the I/O error code, after a medium %s of %zu octets "
                             "%s (%zu)", od, (int)rc, M.fired_rw == 'r' ? "read" : "write",
                             M.fired_len, answered, s);
                    if (M.fired_rw == 'r')
                        outcome = over ? "minus1-read-taken-as-failure"
                                       : (s ? "io-error-short-read" : "io-error-failed-read");
                    else
                        outcome = over ? "minus1-write-taken-as-failure"
                                       : (s ? "io-error-short-write" : "io-error-failed-write");
                    if (stores && !failed_here) {
                        const bool whole = (M.fired_rw == 'r') || s == 0;
                        const char *o = after_fault(&w, c, op, whole);
                        if (o)
                            outcome = o;
                    }
                }
                world_free(&w);
                mc_end(nontrivial && !failed_here, failed_here ? "failed" : outcome);
            }
}

/* ---- same-instance operation sequences ------------------------------------------------------------------ */

/*
 * Family S: ONE PersistentStorage instance goes through a sequence of
 * operations in which validations and fetches precede and follow stores,
 * failing stores, resets and re-configurations.  The medium has two banks (two
 * disjoint blocks of 4+N octets at placements A and B); the region in force is
 * the checksum-plus-data region of the configuration the documented meaning of
 * the calls made so far adds up to (placement = last persistent_place, checksum
 * = last persistent_sum16/32 since the last persistent_init).
 *
 *   sequence = pre ; X ; post
 *   pre  = every sequence of length <= 2 over the fault-free operations
 *          V validate, F fetch, S store(next image), P store_part(next image),
 *          R reset, M place(other bank), k sum16(CRC-16/ARC), K sum32,
 *          I init+place(bank in force)+buffer (back to the default sum)
 *   X    = one of: nothing; M onto bank B, bank B holding each of {a complete
 *          store, the remains of a store cut off in write w after t octets} made
 *          by another instance under the same or another checksum ("previous
 *          life of the device"); k; K; I; or store / store_part / reset /
 *          validate / fetch with ONE injected fault: medium call i transfers
 *          s < len octets or answers (size_t)-1   (every i, every s)
 *   post = validate,fetch  or  fetch,validate   on the same instance
 *
 * O (sentences of the statement; every validation meant is one that itself ran
 * fault-free):
 *   - an operation in which a fault was injected (a failed or short transfer;
 *     the answer (size_t)-1 is injected too but not judged, see the header)
 *     returns the I/O-error code;
 *   - a validation that comes after a cut-off or failing store / store_part /
 *     reset touched the bank in force succeeds only if the checksum octets of
 *     the region in force encode the configured algorithm over its data octets
 *     (interpretations: those a fault-free store of a fresh instance under that
 *     checksum used);
 *   - if the last thing that changed the bank in force was a cut-off or failing
 *     store / store_part all of whose medium writes were whole, and the checksum
 *     in force is that store's, a successful validation followed by a fetch:
 *     the fetch succeeds and returns exactly the previous or exactly the new
 *     image.
 * Nothing is demanded of fault-free operations otherwise (round-trips are C10's
 * subject; an instance that refuses to go on after its own failed operation is
 * admissible).
 */

enum { S_V, S_F, S_S, S_P, S_R, S_M, S_K16, S_K32, S_I, S_NOPS };
static const char SOPNAME[S_NOPS + 1] = "VFSPRMkKI";

enum { XK_NONE, XK_M, XK_K16, XK_K32, XK_I, XK_FAULT };

struct xop {
    int kind;
    /* XK_M: what bank B holds */
    int b_other; /* 0: written under the checksum the instance starts with, 1: under the next kind */
    int b_cut;   /* 0: complete store, 1: a second store cut off in write b_w after b_t octets */
    long b_w;
    size_t b_t;
    /* XK_FAULT */
    int op; /* S_S, S_P, S_R, S_V, S_F */
    long i;
    size_t s;
    int over;
};

struct scfg {
    size_t N;
    uint32_t place[2];
    int ck0;
    int buf;
};

static struct {
    unsigned char *blk[2];
    size_t bsize;
} BANKS;

struct sworld {
    const struct scfg *c;
    struct inst in;
    int bank, ck;         /* configuration in force */
    int orders[CK_KINDS]; /* interpretations of a fault-free store per checksum kind */
    int nimg;
    bool dev[2];          /* the bank holds remains of a cut-off / failing store, store_part or reset */
    struct {
        bool on;          /* last change of the bank: cut-off/failing store with whole writes only */
        int ck;
        unsigned char prev[NMAX], next[NMAX];
    } on[2];
    bool last_v_ok;       /* the previous operation was a fault-free validation that succeeded */
    bool stop, precond;
    bool minus1_stop;     /* ended by what the library made of the unjudged answer (size_t)-1 */
    int last_v, last_f;   /* result of the last fault-free validate / fetch (-1: none) */
};

static void
region_select(const struct scfg *c, int bank, int ck)
{
    M.img = BANKS.blk[bank];
    M.lo = c->place[bank];
    M.size = cks_size(ck) + c->N;
}

static void
seq_image(unsigned char *d, size_t N, int k)
{
    for (size_t i = 0; i < N; ++i)
        d[i] = (unsigned char)(0x21 + 0x1d * i + 0x47 * (unsigned)k + 0x10 * (unsigned)(k * k));
}

/* the part of family S: the middle of the data, the whole of it for N = 1 */
static void
seq_part(size_t N, size_t *off, size_t *len)
{
    *off = N >= 2 ? 1 : 0;
    *len = N >= 3 ? N - 2 : 1;
}

/* which of checksum and data comes first under the interpretations `orders`:
 * 0 checksum first, 1 data first, -1 not determined */
static int
layout_of(int orders)
{
    const bool cf = (orders & 0x3) != 0, df = (orders & 0xc) != 0;
    return cf == df ? -1 : df ? 1 : 0;
}

/* a separate instance ("previous life of the device") stores `image` into
 * (bank, ck) fault-free, or under a power cut (w,t) */
static bool
writer_store(const struct scfg *c, int bank, int ck, const unsigned char *image, int plan, long w, size_t t,
             int *interps)
{
    const struct cfg wc = { c->N, c->place[bank], ck, -1 };
    struct inst wr;
    region_select(c, bank, ck);
    inst_make(&wr, &wc);
    unsigned char *src = mc_exact_copy(image, c->N);
    PersistentAccess rc = PERSISTENT_ACCESS_SUCCESS;
    const int how = run_op(&wr, OP_STORE, src, 0, 0, plan, w, t, &rc);
    free(src);
    inst_free(&wr);
    if (M.outside || how == 2)
        return false;
    if (plan == PLAN_CUT)
        return true; /* cut (how == 1) or cut point beyond the execution (a complete store) */
    if (how != 0 || rc != PERSISTENT_ACCESS_SUCCESS)
        return false;
    if (interps) {
        *interps = region_interps(M.img, cks_size(ck), c->N, ck, image);
        return *interps != 0;
    }
    return true;
}

/* one operation of the sequence on the instance under test; plan == PLAN_FAULT
 * injects (at, s, over) */
static void
seq_op(struct sworld *w, int sop, int plan, long at, size_t s, int over)
{
    const struct scfg *c = w->c;
    const size_t N = c->N;
    const bool was_v_ok = w->last_v_ok;
    w->last_v_ok = false;
    mc_log(" op %c%s (bank %c, %s)", SOPNAME[sop], plan == PLAN_FAULT ? "!" : "", "AB"[w->bank], CKNAME[w->ck]);
    /* re-configurations */
    switch (sop) {
    case S_M:
        w->bank ^= 1;
        persistent_place(&w->in.s, c->place[w->bank]);
        region_select(c, w->bank, w->ck);
        return;
    case S_K16:
        w->ck = CK_CRC16;
        persistent_sum16(&w->in.s, cb_crc16, 0u);
        region_select(c, w->bank, w->ck);
        return;
    case S_K32:
        w->ck = CK_SUM32;
        persistent_sum32(&w->in.s, cb_sum32, SUM32_INIT);
        region_select(c, w->bank, w->ck);
        return;
    case S_I:
        w->ck = CK_DEFAULT;
        persistent_init(&w->in.s, N, med_read, med_write);
        persistent_place(&w->in.s, c->place[w->bank]);
        if (c->buf >= 0)
            persistent_buffer(&w->in.s, w->in.aux, (size_t)c->buf);
        region_select(c, w->bank, w->ck);
        return;
    default: break;
    }
    const size_t cs = cks_size(w->ck);
    const int lay = layout_of(w->orders[w->ck]);
    unsigned char image[NMAX], prev[NMAX], next[NMAX];
    size_t off = 0, len = N;
    unsigned char *buf = NULL;
    int libop = OP_VALIDATE;
    memset(prev, 0, sizeof prev);
    memset(next, 0, sizeof next);
    if (lay >= 0)
        memcpy(prev, M.img + (lay ? 0 : cs), N);
    switch (sop) {
    case S_S:
    case S_P:
        seq_image(image, N, w->nimg++);
        if (sop == S_P)
            seq_part(N, &off, &len);
        memcpy(next, prev, N);
        memcpy(next + off, image + off, len);
        buf = mc_exact_copy(image + off, len);
        libop = sop == S_S ? OP_STORE : OP_STORE_PART;
        break;
    case S_F:
        buf = mc_exact(N);
        memset(buf, 0xee, N);
        libop = OP_FETCH;
        break;
    case S_R: libop = OP_RESET; break;
    default: break;
    }
    PersistentAccess rc = PERSISTENT_ACCESS_SUCCESS;
    next_over = over;
    const int how = run_op(&w->in, libop, buf, off, len, plan, at, s, &rc);
    const bool fired = (plan == PLAN_FAULT) && M.fired;
    const bool mutator = (sop == S_S || sop == S_P || sop == S_R);
    if (sop == S_F && how == 0)
        mc_log_hex("  fetched", buf, N);
    if (fired && over && (M.outside || how == 2)) {
        /* (size_t)-1 is no failure answer by any document: whatever the library
         * made of it is not judged (and is not C10's subject either) */
        mc_log("  OBSERVATION: after the answer (size_t)-1 the operation %s",
               how == 2 ? "did not return within the call budget" : "reached outside the region in force");
        w->stop = w->minus1_stop = true;
    } else if (M.outside) {
        precondition_failed("access outside the region in force");
        w->stop = w->precond = true;
    } else if (how == 2 && !fired) {
        precondition_failed("operation does not return on a fault-free medium");
        w->stop = w->precond = true;
    } else if (how == 2) {
        FAIL("C11/hang", "%s did not return within %ld medium calls after a medium %s of %zu octets %s (%zu): "
             "the fault is never reported", OPNAME[libop], M.budget, M.fired_rw == 'r' ? "read" : "write",
             M.fired_len, over ? "answered (size_t)-1 with nothing transferred" : "transferred short", s);
        w->stop = true;
    } else if (fired) {
        if (over)
            mc_log("  OBSERVATION: %s returned %d after its medium %s of %zu octets answered (size_t)-1 with nothing "
                   "transferred (not judged)", OPNAME[libop], (int)rc, M.fired_rw == 'r' ? "read" : "write",
                   M.fired_len);
        else if (rc == PERSISTENT_ACCESS_SUCCESS)
            FAIL("C11/io-fault-never-success", "%s returned success although its medium %s of %zu octets %s (%zu)",
                 OPNAME[libop], M.fired_rw == 'r' ? "read" : "write", M.fired_len,
                 over ? "answered (size_t)-1 with nothing transferred" : "transferred short", s);
        else if (rc != PERSISTENT_ACCESS_IO_ERROR)
            FAIL("C11/io-fault-reported-as-io-error",
                 "%s returned %d, not the I/O error code, after a medium %s of %zu octets %s (%zu)", OPNAME[libop],
                 (int)rc, M.fired_rw == 'r' ? "read" : "write", M.fired_len,
                 over ? "answered (size_t)-1 with nothing transferred" : "transferred short", s);
        if (mutator) {
            w->dev[w->bank] = true;
            w->on[w->bank].on = false;
            /* (size_t)-1: only when the library itself took it for a failure is the
             * operation "a failing store all of whose writes were whole" */
            if (sop != S_R && lay >= 0
                && (over ? rc != PERSISTENT_ACCESS_SUCCESS : (M.fired_rw == 'r' || s == 0))) {
                w->on[w->bank].on = true;
                w->on[w->bank].ck = w->ck;
                memcpy(w->on[w->bank].prev, prev, N);
                memcpy(w->on[w->bank].next, next, N);
            }
        }
        if (failed_here)
            w->stop = true;
    } else {
        /* ran fault-free (a planned fault the execution never reached included) */
        if (M.calls > (long)(N + 4 + 2) || M.maxlen > (N > 4 ? N : 4))
            mc_cap("family S: %s made %ld medium calls / a call of %zu octets, fault positions are enumerated "
                   "for %zu calls of up to %zu octets", OPNAME[libop], M.calls, M.maxlen, N + 4 + 2, N > 4 ? N : 4);
        if (mutator)
            w->on[w->bank].on = false; /* whatever this made of the bank is C10's subject */
        if (sop == S_V) {
            w->last_v = (int)rc;
            if (rc == PERSISTENT_ACCESS_SUCCESS) {
                w->last_v_ok = true;
                if (w->dev[w->bank]
                    && (region_interps(M.img, cs, N, w->ck, NULL) & w->orders[w->ck]) == 0) {
                    mc_log_hex("  region in force", M.img, M.size);
                    FAIL("C11/valid-implies-checksum-matches",
                         "validate (same instance, later in its history) succeeded over bank %c, which holds the "
                         "remains of a cut-off or failing operation, although the checksum octets do not encode "
                         "%s(data image on the medium)", "AB"[w->bank], CKNAME[w->ck]);
                    w->stop = true;
                }
            }
        } else if (sop == S_F) {
            w->last_f = (int)rc;
            if (was_v_ok && w->on[w->bank].on && w->on[w->bank].ck == w->ck) {
                const bool got = rc == PERSISTENT_ACCESS_SUCCESS;
                if (!(got && (memcmp(buf, w->on[w->bank].prev, N) == 0 || memcmp(buf, w->on[w->bank].next, N) == 0))) {
                    FAIL("C11/whole-write-old-or-new",
                         "no medium write of the cut-off or failing store into bank %c was torn, validate (same "
                         "instance) succeeded, but fetch (rc=%d) returned neither the previous nor the new image",
                         "AB"[w->bank], (int)rc);
                    w->stop = true;
                }
            }
        }
    }
    free(buf);
}

static void
seq_desc(char *b, size_t n, const unsigned char *pre, int npre, const struct xop *x, int post)
{
    char ps[8], xs[120];
    int k = 0;
    for (int i = 0; i < npre; ++i)
        ps[k++] = SOPNAME[pre[i]];
    if (k == 0)
        ps[k++] = '-';
    ps[k] = 0;
    switch (x->kind) {
    case XK_NONE: snprintf(xs, sizeof xs, "-"); break;
    case XK_K16: snprintf(xs, sizeof xs, "k"); break;
    case XK_K32: snprintf(xs, sizeof xs, "K"); break;
    case XK_I: snprintf(xs, sizeof xs, "I"); break;
    case XK_M:
        if (x->b_cut)
            snprintf(xs, sizeof xs, "M(bank B: %s checksum, store cut in write %ld after %zu octets)",
                     x->b_other ? "next" : "same", x->b_w, x->b_t);
        else
            snprintf(xs, sizeof xs, "M(bank B: %s checksum, complete store)", x->b_other ? "next" : "same");
        break;
    default:
        snprintf(xs, sizeof xs, "%c!(fault-in-call=%ld transfers=%zu%s%s)", SOPNAME[x->op], x->i, x->s,
                 x->over ? " answers=" : "", OVER_NAME[x->over]);
        break;
    }
    snprintf(b, n, "pre=%s X=%s post=%s", ps, xs, post ? "FV" : "VF");
}

static void
seq_case(const struct scfg *c, const unsigned char *pre, int npre, const struct xop *x, int post)
{
    char sd[200];
    seq_desc(sd, sizeof sd, pre, npre, x, post);
    if (!mc_case("S N=%zu A=%lu B=%lu ck=%s buf=%d %s", c->N, (unsigned long)c->place[0],
                 (unsigned long)c->place[1], CKNAME[c->ck0], c->buf, sd))
        return;
    struct sworld w;
    memset(&w, 0, sizeof w);
    w.c = c;
    w.last_v = w.last_f = -1;
    failed_here = false;
    BANKS.bsize = 4 + c->N;
    for (int b = 0; b < 2; ++b) {
        BANKS.blk[b] = mc_exact(BANKS.bsize);
        memset(BANKS.blk[b], 0xcd, BANKS.bsize);
    }
    M.snap = mc_exact(BANKS.bsize);
    memset(M.snap, 0, BANKS.bsize);
    unsigned char PA[NMAX], PB[NMAX], QB[NMAX];
    seq_image(PA, c->N, 20);
    seq_image(PB, c->N, 21);
    seq_image(QB, c->N, 22);
    bool ready = true;
    /* how a fault-free store lays out and encodes each checksum kind */
    for (int ck = 0; ready && ck < CK_KINDS; ++ck) {
        memset(BANKS.blk[0], 0xcd, BANKS.bsize);
        ready = writer_store(c, 0, ck, PA, PLAN_NONE, 0, 0, &w.orders[ck]);
    }
    /* bank B: a complete store, or the remains of a cut-off one (default when X is
     * not M: the data write torn in the middle, same checksum) */
    int b_ck = c->ck0, b_cut = 1;
    long b_w = 0;
    size_t b_t = (c->N + 1) / 2;
    if (x->kind == XK_M) {
        b_ck = x->b_other ? (c->ck0 + 1) % CK_KINDS : c->ck0;
        b_cut = x->b_cut;
        b_w = x->b_w;
        b_t = x->b_t;
    }
    bool cut_fired = false;
    if (ready)
        ready = writer_store(c, 1, b_ck, PB, PLAN_NONE, 0, 0, NULL);
    if (ready && b_cut) {
        ready = writer_store(c, 1, b_ck, QB, PLAN_CUT, b_w, b_t, NULL);
        cut_fired = ready && M.escaped == 1;
        if (cut_fired) {
            w.dev[1] = true;
            if (b_t == 0 || b_t == M.fired_len) {
                w.on[1].on = true;
                w.on[1].ck = b_ck;
                memcpy(w.on[1].prev, PB, c->N);
                memcpy(w.on[1].next, QB, c->N);
            }
        }
    }
    mc_log_hex(" bank B", BANKS.blk[1], BANKS.bsize);
    /* bank A: a complete store under the checksum the instance starts with */
    if (ready) {
        memset(BANKS.blk[0], 0xcd, BANKS.bsize);
        ready = writer_store(c, 0, c->ck0, PA, PLAN_NONE, 0, 0, NULL);
    }
    const char *outcome = "precondition-failed";
    bool nontrivial = false;
    if (!ready) {
        precondition_failed("fault-free store by the preparing instance");
    } else {
        const struct cfg ic = { c->N, c->place[0], c->ck0, c->buf };
        w.bank = 0;
        w.ck = c->ck0;
        region_select(c, 0, c->ck0);
        inst_make(&w.in, &ic);
        for (int i = 0; i < npre && !w.stop; ++i)
            seq_op(&w, pre[i], PLAN_NONE, 0, 0, 0);
        bool deviated = false;
        if (!w.stop)
            switch (x->kind) {
            case XK_NONE: env_class("env-seq-no-deviation"); break;
            case XK_M:
                seq_op(&w, S_M, PLAN_NONE, 0, 0, 0);
                deviated = true;
                env_class(cut_fired ? "env-seq-replace-onto-cut-off-store" : "env-seq-replace-onto-complete-store");
                break;
            case XK_K16:
            case XK_K32:
                seq_op(&w, x->kind == XK_K16 ? S_K16 : S_K32, PLAN_NONE, 0, 0, 0);
                deviated = true;
                env_class("env-seq-resum");
                break;
            case XK_I:
                seq_op(&w, S_I, PLAN_NONE, 0, 0, 0);
                deviated = true;
                env_class("env-seq-reinit");
                break;
            default:
                seq_op(&w, x->op, PLAN_FAULT, x->i, x->s, x->over);
                if (M.fired) {
                    deviated = true;
                    env_class(x->op == S_S   ? "env-seq-fault-in-store"
                              : x->op == S_P ? "env-seq-fault-in-store-part"
                              : x->op == S_R ? "env-seq-fault-in-reset"
                              : x->op == S_V ? "env-seq-fault-in-validate"
                                             : "env-seq-fault-in-fetch");
                }
                break;
            }
        if (!w.stop) {
            mc_log_hex(" bank in force before the closing validate/fetch", M.img, M.size);
            seq_op(&w, post ? S_F : S_V, PLAN_NONE, 0, 0, 0);
        }
        if (!w.stop)
            seq_op(&w, post ? S_V : S_F, PLAN_NONE, 0, 0, 0);
        inst_free(&w.in);
        if (!w.precond) {
            nontrivial = deviated && !w.stop;
            outcome = !deviated                                  ? "seq-fault-not-reached"
                      : w.last_v == PERSISTENT_ACCESS_SUCCESS      ? "seq-ends-valid"
                      : w.last_v == PERSISTENT_ACCESS_INVALID_DATA ? "seq-ends-invalid"
                                                                   : "seq-ends-other";
            if (x->kind == XK_NONE)
                outcome = "seq-plain";
            if (w.minus1_stop)
                outcome = "seq-minus1-not-judged";
        }
    }
    for (int b = 0; b < 2; ++b) {
        free(BANKS.blk[b]);
        BANKS.blk[b] = NULL;
    }
    M.img = NULL;
    free(M.snap);
    M.snap = NULL;
    mc_end(nontrivial && !failed_here, failed_here ? "failed" : outcome);
}

static void
seq_cases(const struct scfg *c, int maxpre)
{
    const long icap = (long)c->N + 4 + 2;       /* >= medium calls of any operation, octet-wise, 32-bit checksum */
    const size_t scap = c->N > 4 ? c->N : 4;    /* >= length of any call */
    static const int FOPS[5] = { S_S, S_P, S_R, S_V, S_F };
    int npow = 1;
    for (int npre = 0; npre <= maxpre; ++npre, npow *= S_NOPS)
        for (int code = 0; code < npow; ++code) {
            unsigned char pre[4];
            int xx = code;
            for (int i = 0; i < npre; ++i, xx /= S_NOPS)
                pre[i] = (unsigned char)(xx % S_NOPS);
            for (int post = 0; post < 2; ++post) {
                struct xop x;
                memset(&x, 0, sizeof x);
                x.kind = XK_NONE;
                seq_case(c, pre, npre, &x, post);
                for (x.kind = XK_K16; x.kind <= XK_I; ++x.kind)
                    seq_case(c, pre, npre, &x, post);
                x.kind = XK_M;
                for (x.b_other = 0; x.b_other < 2; ++x.b_other) {
                    x.b_cut = 0;
                    x.b_w = 0;
                    x.b_t = 0;
                    seq_case(c, pre, npre, &x, post);
                    x.b_cut = 1;
                    for (x.b_w = 0; x.b_w < 2; ++x.b_w)
                        for (x.b_t = 0; x.b_t <= scap; ++x.b_t)
                            seq_case(c, pre, npre, &x, post);
                }
                memset(&x, 0, sizeof x);
                x.kind = XK_FAULT;
                for (int fo = 0; fo < 5; ++fo)
                    for (x.i = 0; x.i < icap; ++x.i)
                        for (size_t sc = 0; sc < scap + NOVER; ++sc) {
                            x.op = FOPS[fo];
                            x.over = sc < scap ? 0 : (int)(sc - scap) + 1;
                            x.s = x.over ? 0 : sc;
                            seq_case(c, pre, npre, &x, post);
                        }
            }
        }
}

/* ---- anchors ------------------------------------------------------------------------------------------ */

static void
anchors(void)
{
    MC_ANCHOR(crc16_arc_step((const unsigned char *)"123456789", 9, 0) == 0xbb3d, "CRC-16/ARC check value");
    unsigned char ff[258];
    memset(ff, 0xff, sizeof ff);
    MC_ANCHOR(ref_sum16(ff, 258) == 0x00feu, "sum16 wraps at 2^16");
    MC_ANCHOR(sum32_step(ff, 2, SUM32_INIT) == 0x01fcfefeu, "sum32 wraps at 2^32");
    MC_ANCHOR(PERSISTENT_ACCESS_SUCCESS == 0 && PERSISTENT_ACCESS_IO_ERROR != PERSISTENT_ACCESS_INVALID_DATA,
              "result codes");
    /* the image pairs do what the header comment promises (self-consistency of
     * the harness, otherwise the old-or-new implication would be vacuous) */
    unsigned char P[NMAX], Q[NMAX], X[NMAX];
    make_pair(P, Q, 8, 1);
    memcpy(X, P, 8);
    memcpy(X, Q, 4);
    MC_ANCHOR(memcmp(X, P, 8) && memcmp(X, Q, 8) && ref_sum16(X, 8) == ref_sum16(P, 8)
                  && sum32_step(X, 8, SUM32_INIT) == sum32_step(P, 8, SUM32_INIT),
              "sum-preserving pair");
    make_pair(P, Q, 8, 2);
    memcpy(X, P, 8);
    memcpy(X, Q, 3);
    MC_ANCHOR(memcmp(X, P, 8) && memcmp(X, Q, 8) && crc16_arc_step(X, 8, 0) == crc16_arc_step(P, 8, 0),
              "crc-preserving pair");
    for (size_t n = 1; n <= NMAX; ++n)
        for (int pair = 0; pair < NFPAIRS; ++pair) {
            unsigned char A[NMAX], B[NMAX];
            make_pair(A, B, n, pair);
            MC_ANCHOR(memcmp(A, B, n) != 0, "previous and new image differ");
        }
}

#define PLACE_TOP 0xffffffffu /* marker: the region ends exactly at 2^32 */

int
main(int argc, char **argv)
{
    mc_init(argc, argv);
    anchors();
    static const uint32_t PLACES_Q[] = { 0u, 100u, PLACE_TOP };
    /* 0xfffd / 0x7ffffffd: the region straddles 2^16 / 2^31 */
    static const uint32_t PLACES_T[] = { 0u, 1u, 7u, 100u, 0xfffdu, 0x7ffffffdu, PLACE_TOP };
    const uint32_t *places = mc_thorough() ? PLACES_T : PLACES_Q;
    const int nplaces = mc_thorough() ? 7 : 3;
    const size_t nmax = mc_thorough() ? 14 : 8;
    struct cfg c;
    for (c.N = 1; c.N <= nmax; ++c.N) {
        /* auxiliary buffers: none, 1, 3, N (thorough: also 2, N-1, N+1) */
        int bufs[8], nb = 0;
        const int cand_q[] = { -1, 1, 3, (int)c.N };
        const int cand_t[] = { -1, 1, 2, 3, (int)c.N - 1, (int)c.N, (int)c.N + 1 };
        const int *cand = mc_thorough() ? cand_t : cand_q;
        const int ncand = mc_thorough() ? 7 : 4;
        for (int k = 0; k < ncand; ++k) {
            bool dup = (cand[k] == 0);
            for (int j = 0; j < nb; ++j)
                dup |= (bufs[j] == cand[k]);
            if (!dup)
                bufs[nb++] = cand[k];
        }
        for (int pi = 0; pi < nplaces; ++pi)
            for (c.ck = 0; c.ck < CK_KINDS; ++c.ck)
                for (int bi = 0; bi < nb; ++bi) {
                    c.place = places[pi] == PLACE_TOP
                                  ? (uint32_t)(0x100000000ull - (cks_size(c.ck) + c.N))
                                  : places[pi];
                    c.buf = bufs[bi];
                    /* power cuts: every store (parts include length 0 at offsets 0..N) */
                    crash_cases(&c, OP_STORE, 0, c.N);
                    for (size_t off = 0; off <= c.N; ++off)
                        for (size_t len = 0; off + len <= c.N; ++len)
                            if (!(off == 0 && len == c.N))
                                crash_cases(&c, OP_STORE_PART, off, len);
                    crash_cases(&c, OP_STORE_PART, 0, c.N);
                    /* single I/O faults: every operation */
                    fault_cases(&c, OP_STORE, 0, c.N);
                    fault_cases(&c, OP_VALIDATE, 0, 0);
                    fault_cases(&c, OP_FETCH, 0, c.N);
                    fault_cases(&c, OP_RESET, 0, 0);
                    for (size_t off = 0; off <= c.N; ++off)
                        for (size_t len = 0; off + len <= c.N; ++len) {
                            fault_cases(&c, OP_STORE_PART, off, len);
                            fault_cases(&c, OP_FETCH_PART, off, len);
                        }
                }
    }
    /* family S: operation sequences on one instance over a two-bank medium */
    const size_t smax = mc_thorough() ? 6 : 4;
    static const uint32_t SPLACES[] = { 100u, 0u, PLACE_TOP };
    const int nsplaces = mc_thorough() ? 3 : 1;
    for (size_t N = 1; N <= smax; ++N)
        for (int pi = 0; pi < nsplaces; ++pi)
            for (int ck0 = 0; ck0 < CK_KINDS; ++ck0) {
                const int cand_q[] = { -1, 1, (int)N };
                const int cand_t[] = { -1, 1, 2, (int)N, (int)N + 1 };
                const int *cand = mc_thorough() ? cand_t : cand_q;
                const int ncand = mc_thorough() ? 5 : 3;
                int bufs[8], nb = 0;
                for (int k = 0; k < ncand; ++k) {
                    bool dup = false;
                    for (int j = 0; j < nb; ++j)
                        dup |= (bufs[j] == cand[k]);
                    if (!dup)
                        bufs[nb++] = cand[k];
                }
                for (int bi = 0; bi < nb; ++bi) {
                    struct scfg sc;
                    memset(&sc, 0, sizeof sc);
                    sc.N = N;
                    sc.ck0 = ck0;
                    sc.buf = bufs[bi];
                    const uint32_t blk = (uint32_t)(4 + N);
                    if (SPLACES[pi] == PLACE_TOP) {
                        sc.place[0] = (uint32_t)(0x100000000ull - blk); /* bank A ends exactly at 2^32 */
                        sc.place[1] = sc.place[0] - blk - 3u;
                    } else {
                        sc.place[0] = SPLACES[pi];
                        sc.place[1] = sc.place[0] + blk + 3u;
                    }
                    /* thorough: one operation more in front of X for the small sizes at placement 100 */
                    seq_cases(&sc, (mc_thorough() && pi == 0 && N <= 4) ? 3 : 2);
                }
            }
    char bound[2000];
    snprintf(bound, sizeof bound,
             "data sizes 1..%zu x placements %s x {default sum16, CRC-16/ARC, sum32} x auxiliary buffer %s: "
             "every store / store_part(offset,len>=0) x 3 image pairs x every write call x every t in 0..len; "
             "every operation (parts incl. length 0) x every medium call x every short count 0..len-1 (and the "
             "driver answer (size_t)-1, observed, not judged) (one fault per execution), stores x 5 image pairs (the 3, zero-tail, all-zero), validate / fetch / fetch_part x 3 previous images (generic, zero second half, all zero) with a "
             "validate/fetch of the medium the failed operation left, by the same instance and by a fresh one; "
             "S: data sizes 1..%zu x bank placements %s x 3 checksums x auxiliary buffer %s x every sequence "
             "pre;X;post on one instance over a two-bank medium: pre = every sequence of <= 2%s fault-free operations "
             "over {validate, fetch, store, store_part, reset, place(other bank), sum16, sum32, init}, X in {nothing, "
             "sum16, sum32, init, place(bank B) x bank B holding {complete store, store cut off in write 0..1 after "
             "0..max(N,4) octets} x {same, next checksum}, {store, store_part, reset, validate, fetch} x every medium "
             "call 0..N+5 x every short count 0..max(N,4)-1 (and the unjudged answer (size_t)-1)}, post in "
             "{validate;fetch, fetch;validate}",
             nmax, mc_thorough() ? "{0,1,7,100,straddling 2^16,straddling 2^31,ending at 2^32}"
                                 : "{0,100,ending at 2^32}",
             mc_thorough() ? "{none,1,2,3,N-1,N,N+1}" : "{none,1,3,N}",
             smax, mc_thorough() ? "{100,0,ending at 2^32}" : "{100}", mc_thorough() ? "{none,1,2,N,N+1}" : "{none,1,N}",
             mc_thorough() ? " (<= 3 for sizes 1..4 at placement 100)" : "");
    mc_finish(true, bound);
    return 0;
}
