/*
 * C14 -- varint coding: bounded-exhaustive enumeration (E-SPACE) of
 *
 *   values   every structured 32/64-bit value (and, thorough, all 2^32 32-bit
 *            values in chunks of 2^20): length query, encoder (buffer and sink),
 *            and the three decoders (buffer, octet source, buffer-backed
 *            source) are compared with an independent LEB128 reference;
 *   strings  every octet string of length 1..8 (thorough 1..11) over
 *            {00,01,7f,80,81,ff} as decoder input, each copied into a heap
 *            block of exactly its length (mc_exact_copy) with the ByteBuffer's
 *            size and fill mark equal to that length, so that the buffer ends
 *            at every truncation point and ASan observes any read behind it.
 *
 * All four type variants (u32, s32, u64, s64) are run on every value / string.
 * Signed values are handled as their two's complement bit pattern of the
 * type's width, which is what the repository's tables in t-varint.c say
 * (-1 as s32 encodes as ff ff ff ff 0f).
 */
#include "mc.h"

#include <ufw/compat/errno.h>

#include <ufw/byte-buffer.h>
#include <ufw/endpoints.h>
#include <ufw/variable-length-integer.h>

enum { T_U32, T_S32, T_U64, T_S64, NTYPES };
static const char *const TN[NTYPES] = { "u32", "s32", "u64", "s64" };

static inline unsigned t_width(int t) { return t < T_U64 ? 32u : 64u; }
static inline size_t t_max(int t) { return t < T_U64 ? 5u : 10u; }
static inline uint64_t t_mask(int t) { return t < T_U64 ? 0xffffffffull : ~0ull; }

/* ---- reference LEB128 (independent of ufw's code) -------------------------- */

static size_t
ref_len(uint64_t v)
{
    /* number of significant bits, in groups of seven, at least one group */
    const unsigned bits = v ? 64u - (unsigned)__builtin_clzll(v) : 1u;
    return (bits + 6u) / 7u;
}

static size_t
ref_enc(uint64_t v, unsigned char *out)
{
    size_t n = 0;
    for (;;) {
        const unsigned digit = (unsigned)(v % 128u);
        v /= 128u;
        if (v == 0) {
            out[n++] = (unsigned char)digit;
            return n;
        }
        out[n++] = (unsigned char)(128u + digit);
    }
}

enum verdict { V_OK, V_ILLEGAL, V_TRUNC };
struct refdec {
    enum verdict v;
    size_t count;      /* V_OK: octets up to and including the terminator */
    uint64_t value;    /* V_OK: value modulo 2^width */
    bool overflow;     /* V_OK: the digits denote a number >= 2^width */
    bool canonical;    /* V_OK: the count octets are *the* encoding of value */
    bool ill_overflow; /* V_ILLEGAL: the last octet's digit also exceeds the width (a second failure class) */
};

static struct refdec
ref_dec(const unsigned char *s, size_t n, int t)
{
    struct refdec r;
    memset(&r, 0, sizeof r);
    const size_t maxoct = t_max(t);
    unsigned __int128 acc = 0, place = 1;
    for (size_t i = 0; i < maxoct; ++i) {
        if (i == n) {
            r.v = V_TRUNC; /* ended before a terminator and before maxoct */
            return r;
        }
        acc += place * (unsigned)(s[i] % 128u);
        place *= 128u;
        if (s[i] < 128u) {
            r.v = V_OK;
            r.count = i + 1;
            r.overflow = (acc >> t_width(t)) != 0;
            r.value = (uint64_t)acc & t_mask(t);
            r.canonical = !r.overflow && (i == 0 || s[i] != 0);
            return r;
        }
    }
    r.v = V_ILLEGAL; /* maxoct octets, every one with the continuation bit */
    r.ill_overflow = (acc >> t_width(t)) != 0;
    return r;
}

/* ---- typed access to the library -------------------------------------------- */

static inline size_t
lib_length(int t, uint64_t bits)
{
    switch (t) {
    case T_U32: return varint_u32_length((uint32_t)bits);
    case T_S32: return varint_s32_length((int32_t)(uint32_t)bits);
    case T_U64: return varint_u64_length(bits);
    default: return varint_s64_length((int64_t)bits);
    }
}

static inline int
lib_encode(int t, ByteBuffer *b, uint64_t bits)
{
    switch (t) {
    case T_U32: return varint_encode_u32(b, (uint32_t)bits);
    case T_S32: return varint_encode_s32(b, (int32_t)(uint32_t)bits);
    case T_U64: return varint_encode_u64(b, bits);
    default: return varint_encode_s64(b, (int64_t)bits);
    }
}

static inline int
lib_to_sink(int t, Sink *s, uint64_t bits)
{
    switch (t) {
    case T_U32: return varint_u32_to_sink(s, (uint32_t)bits);
    case T_S32: return varint_s32_to_sink(s, (int32_t)(uint32_t)bits);
    case T_U64: return varint_u64_to_sink(s, bits);
    default: return varint_s64_to_sink(s, (int64_t)bits);
    }
}

#define SENTINEL32 0x5a5a5a5au
#define SENTINEL64 0x5a5a5a5a5a5a5a5aull

static inline int
lib_decode(int t, ByteBuffer *b, uint64_t *bits)
{
    int rc;
    switch (t) {
    case T_U32: { uint32_t v = SENTINEL32; rc = varint_decode_u32(b, &v); *bits = v; break; }
    case T_S32: { int32_t v = (int32_t)SENTINEL32; rc = varint_decode_s32(b, &v); *bits = (uint32_t)v; break; }
    case T_U64: { uint64_t v = SENTINEL64; rc = varint_decode_u64(b, &v); *bits = v; break; }
    default: { int64_t v = (int64_t)SENTINEL64; rc = varint_decode_s64(b, &v); *bits = (uint64_t)v; break; }
    }
    return rc;
}

static inline int
lib_from_source(int t, Source *s, uint64_t *bits)
{
    int rc;
    switch (t) {
    case T_U32: { uint32_t v = SENTINEL32; rc = varint_u32_from_source(s, &v); *bits = v; break; }
    case T_S32: { int32_t v = (int32_t)SENTINEL32; rc = varint_s32_from_source(s, &v); *bits = (uint32_t)v; break; }
    case T_U64: { uint64_t v = SENTINEL64; rc = varint_u64_from_source(s, &v); *bits = v; break; }
    default: { int64_t v = (int64_t)SENTINEL64; rc = varint_s64_from_source(s, &v); *bits = (uint64_t)v; break; }
    }
    return rc;
}

/* ---- owned environment: an octet source over a string, a collecting sink ---- */

struct osrc {
    const unsigned char *p;
    size_t n, pos;
};

static int
osrc_get(void *drv, void *dst)
{
    struct osrc *s = drv;
    if (s->pos >= s->n)
        return -ENODATA; /* "sources that run out of data permanently" (endpoints/core.c) */
    *(unsigned char *)dst = s->p[s->pos++];
    return 1;
}

struct csink {
    unsigned char got[32];
    size_t n;
    size_t calls;
};

static ssize_t
csink_put(void *drv, const void *p, size_t n)
{
    struct csink *s = drv;
    s->calls++;
    for (size_t i = 0; i < n; ++i) {
        if (s->n < sizeof s->got)
            s->got[s->n] = ((const unsigned char *)p)[i];
        s->n++;
    }
    return (ssize_t)n;
}

/* ---- observation of the three decoders on one placed string ------------------ */

struct dobs {
    int rc;
    uint64_t bits;
    size_t consumed;
};

/* blk: exact-size heap block of tot octets; the varint starts at blk[pre]. */
static void
run_decoders(int t, unsigned char *blk, size_t tot, size_t pre, struct dobs o[3])
{
    ByteBuffer b;
    if (byte_buffer_set(&b, blk, tot, tot, pre) < 0)
        mc_broken("byte_buffer_set refused size=%zu used=%zu offset=%zu", tot, tot, pre);
    o[0].rc = lib_decode(t, &b, &o[0].bits);
    o[0].consumed = b.offset - pre;

    struct osrc os = { blk + pre, tot - pre, 0 };
    Source s1 = OCTET_SOURCE_INIT(osrc_get, &os);
    o[1].rc = lib_from_source(t, &s1, &o[1].bits);
    o[1].consumed = os.pos;

    ByteBuffer b2;
    if (byte_buffer_set(&b2, blk, tot, tot, pre) < 0)
        mc_broken("byte_buffer_set refused");
    Source s2;
    source_from_buffer(&s2, &b2);
    o[2].rc = lib_from_source(t, &s2, &o[2].bits);
    o[2].consumed = b2.offset - pre;
    mc_trans(3);
}

static const char *const DN[3] = { "buffer", "octet-source", "buffer-source" };

/* Oracle for an arbitrary decoder input.  Returns false after a failure. */
static bool
judge_string(int t, const struct refdec *r, const struct dobs o[3])
{
    for (int d = 0; d < 3; ++d)
        mc_log("  %s %s: rc=%d value=0x%llx consumed=%zu", TN[t], DN[d], o[d].rc,
               o[d].rc >= 0 ? (unsigned long long)o[d].bits : 0ull, o[d].consumed);
    switch (r->v) {
    case V_TRUNC:
        if (o[0].rc >= 0) {
            mc_fail("C14/truncated-is-error", "%s: buffer ends before a terminator, buffer decoder returned %d",
                    TN[t], o[0].rc);
            return false;
        }
        if (o[0].consumed != 0) {
            mc_fail("C14/truncated-consumes-nothing", "%s: buffer decoder failed with %d but moved the offset by %zu",
                    TN[t], o[0].rc, o[0].consumed);
            return false;
        }
        for (int d = 1; d < 3; ++d)
            if (o[d].rc >= 0) {
                mc_fail("C14/decoders-agree", "%s: buffer decoder refused (%d), %s decoder returned %d",
                        TN[t], o[0].rc, DN[d], o[d].rc);
                return false;
            }
        return true;
    case V_ILLEGAL:
        /* "rejected as illegal" is read as the illegal-sequence code.  Where the
         * digits read so far also exceed the type's width two failure classes
         * apply and the statement does not say which is reported first: any
         * refusal is accepted there. */
        for (int d = 0; d < 3; ++d)
            if (r->ill_overflow ? o[d].rc >= 0 : o[d].rc != -EILSEQ) {
                mc_fail("C14/no-terminator-illegal", "%s: %zu octets without terminator, %s decoder returned %d (want -EILSEQ=%d)",
                        TN[t], t_max(t), DN[d], o[d].rc, -EILSEQ);
                return false;
            }
        return true;
    case V_OK:
        break;
    }
    /* terminated within the maximum: the statement demands agreement; and the
     * round-trip sentence decides the strings that are some value's encoding */
    for (int d = 1; d < 3; ++d) {
        if ((o[d].rc >= 0) != (o[0].rc >= 0)) {
            mc_fail("C14/decoders-agree", "%s: buffer decoder returned %d, %s decoder returned %d",
                    TN[t], o[0].rc, DN[d], o[d].rc);
            return false;
        }
        if (o[0].rc < 0)
            continue;
        if (o[d].rc != o[0].rc || o[d].consumed != o[0].consumed) {
            mc_fail("C14/decoders-agree", "%s: count differs: buffer rc=%d consumed=%zu, %s rc=%d consumed=%zu",
                    TN[t], o[0].rc, o[0].consumed, DN[d], o[d].rc, o[d].consumed);
            return false;
        }
        if (o[d].bits != o[0].bits) {
            mc_fail("C14/decoders-agree", "%s: value differs: buffer 0x%llx, %s 0x%llx", TN[t],
                    (unsigned long long)o[0].bits, DN[d], (unsigned long long)o[d].bits);
            return false;
        }
    }
    if (r->canonical) {
        for (int d = 0; d < 3; ++d) {
            const char *cl = d == 0 ? "C14/roundtrip-buffer" : "C14/roundtrip-source";
            if (o[d].rc < 0) {
                mc_fail(cl, "%s: %s decoder refused the encoding of 0x%llx with %d", TN[t], DN[d],
                        (unsigned long long)r->value, o[d].rc);
                return false;
            }
            if (o[d].bits != r->value) {
                mc_fail(cl, "%s: %s decoder returned 0x%llx for the encoding of 0x%llx", TN[t], DN[d],
                        (unsigned long long)o[d].bits, (unsigned long long)r->value);
                return false;
            }
            if ((size_t)o[d].rc != r->count || o[d].consumed != r->count) {
                mc_fail(cl, "%s: %s decoder rc=%d consumed=%zu for an encoding of %zu octets", TN[t], DN[d],
                        o[d].rc, o[d].consumed, r->count);
                return false;
            }
        }
    }
    return true;
}

/* ---- one value through length query, encoders and decoders ------------------- */

/* exact-size blocks reused by the big sweeps: pool[n] has exactly n octets */
static unsigned char *pool[11];
static unsigned char *encblk[NTYPES];

static void
pools_init(void)
{
    for (size_t n = 1; n <= 10; ++n)
        pool[n] = mc_exact(n);
    for (int t = 0; t < NTYPES; ++t)
        encblk[t] = mc_exact(t_max(t));
}

/* Returns the reference length, or 0 after a failure.  `sweep`: use the pooled
 * exact-size blocks instead of a fresh mc_exact_copy per value. */
static size_t
check_value(int t, uint64_t bits, bool sweep)
{
    unsigned char want[10];
    const size_t len = ref_len(bits);
    if (ref_enc(bits, want) != len)
        mc_broken("reference model: length and encoder disagree for 0x%llx", (unsigned long long)bits);
    const size_t maxoct = t_max(t);

    /* length query */
    const size_t ql = lib_length(t, bits);
    mc_trans(1);
    if (ql != len || ql > maxoct) {
        mc_fail("C14/length-query", "%s: length query says %zu for 0x%llx, minimal form has %zu octets (max %zu)",
                TN[t], ql, (unsigned long long)bits, len, maxoct);
        return 0;
    }

    /* encoder into a fresh buffer that has exactly the documented maximum */
    unsigned char *enc = sweep ? encblk[t] : mc_exact(maxoct);
    memset(enc, 0xa5, maxoct);
    ByteBuffer b;
    if (byte_buffer_space(&b, enc, maxoct) < 0)
        mc_broken("byte_buffer_space refused");
    const int erc = lib_encode(t, &b, bits);
    mc_trans(1);
    bool ok = true;
    if (!sweep) {
        mc_log("%s 0x%llx: length query %zu, encode rc=%d used=%zu offset=%zu", TN[t],
               (unsigned long long)bits, ql, erc, b.used, b.offset);
        mc_log_hex("  encoded", enc, b.used <= maxoct ? b.used : maxoct);
        mc_log_hex("  expected", want, len);
    }
    if (erc < 0 || (size_t)erc != len || b.used != len || b.data != enc || b.size != maxoct || b.offset != 0) {
        mc_fail("C14/encode-minimal", "%s: encoding 0x%llx: rc=%d used=%zu offset=%zu, minimal form has %zu octets",
                TN[t], (unsigned long long)bits, erc, b.used, b.offset, len);
        ok = false;
    } else if (memcmp(enc, want, len) != 0) {
        mc_fail("C14/encode-minimal", "%s: encoding 0x%llx: octets differ from the minimal little-endian base-128 form",
                TN[t], (unsigned long long)bits);
        ok = false;
    }

    /* encoder towards a sink */
    if (ok) {
        struct csink cs;
        cs.n = 0;
        cs.calls = 0;
        Sink sink = CHUNK_SINK_INIT(csink_put, &cs);
        const int src = lib_to_sink(t, &sink, bits);
        mc_trans(1);
        if (src < 0 || cs.n != len || memcmp(cs.got, want, len) != 0) {
            mc_fail("C14/encode-minimal-sink", "%s: encoding 0x%llx to a sink: rc=%d, %zu octets delivered, minimal form has %zu",
                    TN[t], (unsigned long long)bits, src, cs.n, len);
            ok = false;
        }
    }

    /* decode from the buffer that was just filled */
    if (ok) {
        uint64_t got;
        const int drc = lib_decode(t, &b, &got);
        mc_trans(1);
        if (drc < 0 || (size_t)drc != len || got != bits || b.offset != len) {
            mc_fail("C14/roundtrip-buffer", "%s: decoding what was just encoded for 0x%llx: rc=%d value=0x%llx offset=%zu (want %zu)",
                    TN[t], (unsigned long long)bits, drc, (unsigned long long)got, b.offset, len);
            ok = false;
        }
    }

    /* decode the encoding placed in a block of exactly its length */
    if (ok) {
        unsigned char *blk;
        if (sweep) {
            blk = pool[len];
            memcpy(blk, enc, len);
        } else {
            blk = mc_exact_copy(enc, len);
        }
        struct dobs o[3];
        run_decoders(t, blk, len, 0, o);
        for (int d = 0; d < 3 && ok; ++d) {
            if (o[d].rc < 0 || (size_t)o[d].rc != len || o[d].bits != bits || o[d].consumed != len) {
                mc_fail(d == 0 ? "C14/roundtrip-buffer" : "C14/roundtrip-source",
                        "%s: %s decoder on the %zu-octet encoding of 0x%llx: rc=%d value=0x%llx consumed=%zu",
                        TN[t], DN[d], len, (unsigned long long)bits, o[d].rc,
                        (unsigned long long)o[d].bits, o[d].consumed);
                ok = false;
            }
        }
        if (!sweep)
            free(blk);
    }
    if (!sweep)
        free(enc);
    return ok ? len : 0;
}

/* The same oracle for the big sweeps, reduced to length query, buffer encoder,
 * buffer decoder and octet-source decoder on pooled exact-size blocks and
 * without calls into intercepted libc functions.  Returns the length, or 0
 * when anything is off; the caller then runs check_value() on the value to
 * get the precise failing sentence recorded. */
static inline size_t
fast_value(int t, uint64_t bits)
{
    unsigned char want[10];
    const size_t len = ref_enc(bits, want);
    const size_t maxoct = t_max(t);
    if (len != ref_len(bits) || lib_length(t, bits) != len || len > maxoct)
        return 0;
    unsigned char *enc = encblk[t];
    for (size_t i = 0; i < maxoct; ++i)
        enc[i] = 0xa5;
    ByteBuffer b = BYTE_BUFFER_EMPTY(enc, maxoct);
    const int erc = lib_encode(t, &b, bits);
    if (erc < 0 || (size_t)erc != len || b.used != len || b.offset != 0 || b.data != enc || b.size != maxoct)
        return 0;
    unsigned char *blk = pool[len];
    for (size_t i = 0; i < len; ++i) {
        if (enc[i] != want[i])
            return 0;
        blk[i] = enc[i];
    }
    ByteBuffer d = BYTE_BUFFER(blk, len);
    uint64_t got;
    const int drc = lib_decode(t, &d, &got);
    if (drc < 0 || (size_t)drc != len || got != bits || d.offset != len)
        return 0;
    struct osrc os = { blk, len, 0 };
    Source src = OCTET_SOURCE_INIT(osrc_get, &os);
    const int src_rc = lib_from_source(t, &src, &got);
    if (src_rc < 0 || (size_t)src_rc != len || got != bits || os.pos != len)
        return 0;
    mc_trans(4);
    return len;
}

/* one value of a sweep, both signednesses; 0 after a (recorded) failure */
static inline size_t
sweep_value(int t0, uint64_t v)
{
    if (fast_value(t0, v) && fast_value(t0 + 1, v))
        return ref_len(v);
    size_t l = check_value(t0, v, true);
    if (l)
        l = check_value(t0 + 1, v, true);
    if (l)
        mc_fail("C14/roundtrip-buffer", "value 0x%llx failed the reduced round trip but not the full one",
                (unsigned long long)v);
    return 0;
}

static const char *const RT32[6] = { "rt32-failed", "rt32-len1", "rt32-len2", "rt32-len3", "rt32-len4", "rt32-len5" };
static const char *const RT64[11] = { "rt64-failed", "rt64-len1", "rt64-len2", "rt64-len3", "rt64-len4",
                                      "rt64-len5", "rt64-len6", "rt64-len7", "rt64-len8", "rt64-len9",
                                      "rt64-len10" };
static const char *const SW32[6] = { "sweep32-failed", "sweep32-maxlen1", "sweep32-maxlen2", "sweep32-maxlen3",
                                     "sweep32-maxlen4", "sweep32-maxlen5" };
static const char *const SW64[11] = { "sweep64-failed", "sweep64-maxlen1", "sweep64-maxlen2", "sweep64-maxlen3",
                                      "sweep64-maxlen4", "sweep64-maxlen5", "sweep64-maxlen6", "sweep64-maxlen7",
                                      "sweep64-maxlen8", "sweep64-maxlen9", "sweep64-maxlen10" };

/* ---- structured value sets ------------------------------------------------------ */

struct vset {
    uint64_t *v;
    size_t n, cap;
};

static void
vs_add(struct vset *s, uint64_t x)
{
    if (s->n == s->cap) {
        s->cap = s->cap ? 2 * s->cap : 4096;
        s->v = realloc(s->v, s->cap * sizeof *s->v);
        if (!s->v)
            mc_broken("out of memory");
    }
    s->v[s->n++] = x;
}

static int
cmp_u64(const void *a, const void *b)
{
    const uint64_t x = *(const uint64_t *)a, y = *(const uint64_t *)b;
    return x < y ? -1 : x > y;
}

static void
vs_unique(struct vset *s)
{
    qsort(s->v, s->n, sizeof *s->v, cmp_u64);
    size_t w = 0;
    for (size_t i = 0; i < s->n; ++i)
        if (w == 0 || s->v[w - 1] != s->v[i])
            s->v[w++] = s->v[i];
    s->n = w;
}

static void
structured_values(struct vset *s, unsigned width)
{
    const uint64_t mask = width == 32 ? 0xffffffffull : ~0ull;
    const unsigned nlanes = width == 32 ? 5 : 10;
    static const unsigned LV[4] = { 0x00, 0x01, 0x40, 0x7f };
    static const unsigned BV[5] = { 0x00, 0x01, 0x7f, 0x80, 0xff };
    /* x * 2^s, x < 256, and the complements (the shapes of negative numbers) */
    for (unsigned sh = 0; sh < width; ++sh)
        for (uint64_t x = 0; x < 256; ++x) {
            vs_add(s, (x << sh) & mask);
            vs_add(s, ~(x << sh) & mask);
        }
    /* 2^k, 2^k +- 1: every place where the length changes is among them */
    for (unsigned k = 0; k < width; ++k) {
        vs_add(s, (1ull << k) & mask);
        vs_add(s, ((1ull << k) - 1) & mask);
        vs_add(s, ((1ull << k) + 1) & mask);
    }
    /* one septet lane at a time on an all-zero and an all-one background */
    for (unsigned l = 0; l < nlanes; ++l)
        for (unsigned vi = 0; vi < 4; ++vi)
            for (unsigned bg = 0; bg < 2; ++bg) {
                const uint64_t base = bg ? ~0ull : 0ull;
                const uint64_t lane = 0x7full << (7 * l);
                vs_add(s, ((base & ~lane) | ((uint64_t)LV[vi] << (7 * l))) & mask);
            }
    /* two septet lanes at a time */
    for (unsigned l = 0; l < nlanes; ++l)
        for (unsigned m = l + 1; m < nlanes; ++m)
            for (unsigned vi = 1; vi < 4; ++vi)
                for (unsigned wi = 1; wi < 4; ++wi)
                    vs_add(s, (((uint64_t)LV[vi] << (7 * l)) | ((uint64_t)LV[wi] << (7 * m))) & mask);
    /* 32 bit: every combination of lane values (4^5) */
    if (width == 32)
        for (unsigned c = 0; c < 1024; ++c) {
            uint64_t x = 0;
            for (unsigned l = 0; l < 5; ++l)
                x |= (uint64_t)LV[(c >> (2 * l)) & 3] << (7 * l);
            vs_add(s, x & mask);
        }
    /* one octet lane at a time */
    for (unsigned l = 0; l < width / 8; ++l)
        for (unsigned vi = 0; vi < 5; ++vi)
            for (unsigned bg = 0; bg < 2; ++bg) {
                const uint64_t base = bg ? ~0ull : 0ull;
                const uint64_t lane = 0xffull << (8 * l);
                vs_add(s, ((base & ~lane) | ((uint64_t)BV[vi] << (8 * l))) & mask);
            }
    /* the values of the repository's tables */
    static const int64_t tab[] = { 0, 128, -128, 1234, -1234, -1, INT32_MAX, INT32_MIN, INT64_MAX, INT64_MIN };
    for (size_t i = 0; i < sizeof tab / sizeof *tab; ++i)
        vs_add(s, (uint64_t)tab[i] & mask);
    vs_unique(s);
}

static void
family_values(unsigned width)
{
    struct vset s = { NULL, 0, 0 };
    structured_values(&s, width);
    for (size_t i = 0; i < s.n; ++i) {
        const uint64_t v = s.v[i];
        if (!mc_case(width == 32 ? "value32 v=0x%08llx (u32 and s32)" : "value64 v=0x%016llx (u64 and s64)",
                     (unsigned long long)v))
            continue;
        const int t0 = width == 32 ? T_U32 : T_U64;
        size_t l = check_value(t0, v, false);
        if (l)
            l = check_value(t0 + 1, v, false);
        mc_end(l >= 2, width == 32 ? RT32[l] : RT64[l]);
    }
    free(s.v);
}

/* contiguous 32-bit range as one case */
static void
sweep32(uint64_t base, uint64_t count)
{
    if (!mc_case("sweep32 v=0x%08llx..0x%08llx (u32 and s32, every value)", (unsigned long long)base,
                 (unsigned long long)(base + count - 1)))
        return;
    size_t maxl = 0;
    for (uint64_t v = base; v < base + count; ++v) {
        const size_t l = sweep_value(T_U32, v);
        if (l == 0) {
            maxl = 0;
            break;
        }
        if (l > maxl)
            maxl = l;
    }
    mc_end(true, SW32[maxl]);
}

/* 64 bit, thorough: odd * 2^sh for every odd < 2^16 that fits, and complements */
static void
sweep64(unsigned sh, bool complement)
{
    if (!mc_case("sweep64 v=%s(x<<%u) for every odd x < min(2^16, 2^%u) (u64 and s64)", complement ? "~" : "",
                 sh, 64 - sh))
        return;
    const uint64_t lim = (64 - sh) >= 16 ? 65536 : (1ull << (64 - sh));
    size_t maxl = 0;
    for (uint64_t x = 1; x < lim; x += 2) {
        const uint64_t v = complement ? ~(x << sh) : (x << sh);
        const size_t l = sweep_value(T_U64, v);
        if (l == 0) {
            maxl = 0;
            break;
        }
        if (l > maxl)
            maxl = l;
    }
    mc_end(true, SW64[maxl]);
}

/* ---- decoder input strings --------------------------------------------------------- */

static const unsigned char ALPHA6[6] = { 0x00, 0x01, 0x7f, 0x80, 0x81, 0xff };
static const unsigned char ALPHA3[3] = { 0x00, 0x7f, 0x80 };

static void
one_string(const unsigned char *s, size_t n, size_t pre)
{
    if (!mc_would_run()) {
        mc_skip_case();
        return;
    }
    char hex[3 * 12 + 1];
    hex[0] = 0;
    for (size_t i = 0; i < n; ++i) {
        hex[3 * i] = "0123456789abcdef"[s[i] >> 4];
        hex[3 * i + 1] = "0123456789abcdef"[s[i] & 15];
        hex[3 * i + 2] = i + 1 < n ? ' ' : 0;
    }
    if (!mc_case("string pre=%zu len=%zu s=[%s]", pre, n, hex))
        return;
    /* the block: pre consumed octets (ff: continuation bits, in case a decoder
     * starts at the wrong place), then the string; nothing behind it */
    unsigned char tmp[16];
    memset(tmp, 0xff, pre);
    memcpy(tmp + pre, s, n);
    const size_t tot = pre + n;
    unsigned char *blk = mc_exact_copy(tmp, tot);
    struct refdec r32 = { 0 }, r64 = { 0 };
    bool ok = true;
    for (int t = 0; t < NTYPES; ++t) {
        const struct refdec r = ref_dec(s, n, t);
        if (t == T_U32)
            r32 = r;
        if (t == T_U64)
            r64 = r;
        mc_log("%s: reference verdict %s count=%zu value=0x%llx overflow=%d canonical=%d", TN[t],
               r.v == V_OK ? "ok" : r.v == V_ILLEGAL ? "illegal" : "truncated", r.count,
               (unsigned long long)r.value, r.overflow || r.ill_overflow, r.canonical);
        struct dobs o[3];
        run_decoders(t, blk, tot, pre, o);
        if (!judge_string(t, &r, o))
            ok = false;
    }
    free(blk);
    (void)ok;
    const char *outcome;
    if (r32.v == V_TRUNC)
        outcome = "dec-trunc32-trunc64";
    else if (r32.v == V_ILLEGAL)
        outcome = r64.v == V_TRUNC     ? "dec-ill32-trunc64"
            : r64.v == V_ILLEGAL       ? "dec-ill32-ill64"
            : r64.overflow             ? "dec-ill32-ok64-overflow"
            : r64.canonical            ? "dec-ill32-ok64-canonical"
                                       : "dec-ill32-ok64-overlong";
    else
        outcome = r32.overflow ? (r64.canonical ? "dec-ok-overflow32-canonical64" : "dec-ok-overflow32-overlong64")
            : r32.canonical    ? "dec-ok-canonical"
                               : "dec-ok-overlong";
    /* non-trivial: a decoder has to go beyond the first octet */
    mc_end(n >= 1 && s[0] >= 0x80, outcome);
}

static void
family_strings(const unsigned char *alpha, unsigned nalpha, size_t minlen, size_t maxlen, size_t pre)
{
    unsigned char s[12];
    for (size_t n = minlen; n <= maxlen; ++n) {
        if (pre + n == 0)
            continue; /* a ByteBuffer cannot have size 0 */
        uint64_t total = 1;
        for (size_t i = 0; i < n; ++i)
            total *= nalpha;
        /* the counter's digits, most significant first, index the alphabet:
         * strings of one length in lexicographic order */
        for (uint64_t c = 0; c < total; ++c) {
            if (!mc_would_run()) {
                mc_skip_case();
                continue;
            }
            uint64_t r = c;
            for (size_t i = n; i-- > 0;) {
                s[i] = alpha[r % nalpha];
                r /= nalpha;
            }
            one_string(s, n, pre);
        }
    }
}

/* ---- anchors: the repository's own tables (test/t-varint.c) -------------------------- */

static void
anchor(int t, int64_t value, size_t octets, const unsigned char *expect)
{
    unsigned char out[10];
    const uint64_t bits = (uint64_t)value & t_mask(t);
    MC_ANCHOR(ref_len(bits) == octets, "reference length vs t-varint.c");
    MC_ANCHOR(ref_enc(bits, out) == octets, "reference encoder length vs t-varint.c");
    MC_ANCHOR(memcmp(out, expect, octets) == 0, "reference encoder octets vs t-varint.c");
    const struct refdec r = ref_dec(expect, octets, t);
    MC_ANCHOR(r.v == V_OK && r.count == octets && r.value == bits && r.canonical && !r.overflow,
              "reference decoder vs t-varint.c");
    if (octets > 1) {
        const struct refdec c = ref_dec(expect, octets - 1, t);
        MC_ANCHOR(c.v == V_TRUNC, "reference decoder on a cut-off table entry");
    }
}

static void
anchors(void)
{
    static const unsigned char u64max[10] = { 0xff, 0xff, 0xff, 0xff, 0xff, 0xff, 0xff, 0xff, 0xff, 0x01 };
    static const unsigned char zero[1] = { 0x00 };
    static const unsigned char v128[2] = { 0x80, 0x01 };
    static const unsigned char v1234[2] = { 0xd2, 0x09 };
    static const unsigned char s64max[9] = { 0xff, 0xff, 0xff, 0xff, 0xff, 0xff, 0xff, 0xff, 0x7f };
    static const unsigned char s64min[10] = { 0x80, 0x80, 0x80, 0x80, 0x80, 0x80, 0x80, 0x80, 0x80, 0x01 };
    static const unsigned char m128_64[10] = { 0x80, 0xff, 0xff, 0xff, 0xff, 0xff, 0xff, 0xff, 0xff, 0x01 };
    static const unsigned char m1234_64[10] = { 0xae, 0xf6, 0xff, 0xff, 0xff, 0xff, 0xff, 0xff, 0xff, 0x01 };
    static const unsigned char u32max[5] = { 0xff, 0xff, 0xff, 0xff, 0x0f };
    static const unsigned char s32max[5] = { 0xff, 0xff, 0xff, 0xff, 0x07 };
    static const unsigned char s32min[5] = { 0x80, 0x80, 0x80, 0x80, 0x08 };
    static const unsigned char m128_32[5] = { 0x80, 0xff, 0xff, 0xff, 0x0f };
    static const unsigned char m1234_32[5] = { 0xae, 0xf6, 0xff, 0xff, 0x0f };
    anchor(T_U64, -1, 10, u64max); /* UINT64_MAX */
    anchor(T_U64, 0, 1, zero);
    anchor(T_U64, 128, 2, v128);
    anchor(T_U64, 1234, 2, v1234);
    anchor(T_S64, INT64_MAX, 9, s64max);
    anchor(T_S64, INT64_MIN, 10, s64min);
    anchor(T_S64, -1, 10, u64max);
    anchor(T_S64, 128, 2, v128);
    anchor(T_S64, -128, 10, m128_64);
    anchor(T_S64, 1234, 2, v1234);
    anchor(T_S64, -1234, 10, m1234_64);
    anchor(T_U32, 0xffffffffll, 5, u32max);
    anchor(T_U32, 0, 1, zero);
    anchor(T_U32, 128, 2, v128);
    anchor(T_U32, 1234, 2, v1234);
    anchor(T_S32, INT32_MAX, 5, s32max);
    anchor(T_S32, INT32_MIN, 5, s32min);
    anchor(T_S32, -1, 5, u32max);
    anchor(T_S32, 128, 2, v128);
    anchor(T_S32, -128, 5, m128_32);
    anchor(T_S32, 1234, 2, v1234);
    anchor(T_S32, -1234, 5, m1234_32);
    /* the header's constants, which the statement quotes as 5 resp. 10 */
    MC_ANCHOR(VARINT_32BIT_MAX_OCTETS == 5u && VARINT_64BIT_MAX_OCTETS == 10u, "maximum lengths");
    /* verdict classes of the reference on hand-made strings */
    static const unsigned char c5[6] = { 0x80, 0x80, 0x80, 0x80, 0x80, 0x00 };
    MC_ANCHOR(ref_dec(c5, 6, T_U32).v == V_ILLEGAL && !ref_dec(c5, 6, T_U32).ill_overflow,
              "five continuation octets are illegal for 32 bit");
    static const unsigned char c5f[5] = { 0x80, 0x80, 0x80, 0x80, 0xff }, c5ok[5] = { 0x80, 0x80, 0x80, 0x80, 0x8f };
    MC_ANCHOR(ref_dec(c5f, 5, T_U32).v == V_ILLEGAL && ref_dec(c5f, 5, T_U32).ill_overflow,
              "unterminated and beyond 32 bit: two failure classes");
    MC_ANCHOR(ref_dec(c5ok, 5, T_U32).v == V_ILLEGAL && !ref_dec(c5ok, 5, T_U32).ill_overflow,
              "unterminated within 32 bit: one failure class");
    MC_ANCHOR(ref_dec(c5, 6, T_U64).v == V_OK && ref_dec(c5, 6, T_U64).count == 6
                  && !ref_dec(c5, 6, T_U64).canonical,
              "overlong zero for 64 bit");
    MC_ANCHOR(ref_dec(c5, 5, T_U64).v == V_TRUNC, "five continuation octets and the end are cut off for 64 bit");
    MC_ANCHOR(ref_dec(c5, 4, T_U32).v == V_TRUNC, "four continuation octets and the end are cut off for 32 bit");
}

int
main(int argc, char **argv)
{
    mc_init(argc, argv);
    anchors();
    pools_init();

    /* 1. structured values, one case each */
    family_values(32);
    family_values(64);

    /* 2. decoder inputs: strings in exact-size blocks */
    const size_t maxlen = mc_thorough() ? 11 : 8;
    family_strings(ALPHA6, 6, 1, maxlen, 0);
    if (!mc_thorough())
        family_strings(ALPHA3, 3, 9, 11, 0); /* reach the 64-bit maximum in the quick tier too */
    family_strings(ALPHA6, 6, 0, 5, 1); /* behind one consumed octet; includes the empty rest */
    family_strings(ALPHA6, 6, 0, 5, 3);

    /* 3. contiguous 32-bit values */
    if (mc_thorough()) {
        for (uint64_t c = 0; c < 4096; ++c)
            sweep32(c << 20, 1ull << 20);
        for (unsigned sh = 0; sh < 64; ++sh) {
            sweep64(sh, false);
            sweep64(sh, true);
        }
    } else {
        for (uint64_t c = 0; c < 32; ++c)
            sweep32(c << 12, 1ull << 12);
    }

    char bound[600];
    snprintf(bound, sizeof bound,
             "32 bit: %s, plus the structured set (x<<s and ~(x<<s) for x<256, 2^k and 2^k+-1, one/two/all septet lanes "
             "over {00,01,40,7f}, octet lanes over {00,01,7f,80,ff}); 64 bit: the structured set%s; decoder input: "
             "every string of length 1..%zu over {00,01,7f,80,81,ff}%s, and of length 0..5 behind 1 and 3 consumed octets",
             mc_thorough() ? "all 2^32 values" : "all values < 2^17",
             mc_thorough() ? " plus odd*2^s and complements for every odd < 2^16 and every s" : "", maxlen,
             mc_thorough() ? "" : " and of length 9..11 over {00,7f,80}");
    mc_finish(true, bound);
    return 0;
}
