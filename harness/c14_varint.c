/*
 * C14 -- varint coding: bounded-exhaustive enumeration (E-SPACE) of
 *
 *   values   every structured 32/64-bit value (and, thorough, all 2^32 32-bit
 *            values in chunks of 2^20): length query, encoder (buffer and sink),
 *            and the three decoders (buffer, octet source, buffer-backed
 *            source) are compared with an independent LEB128 reference;
 *   strings  every octet string of length 1..8 (thorough 1..11) over
 *            {00,01,7f,80,81,ff} as decoder input, each copied into a heap
 *            block of exactly its length (mc_exact_copy) with the ByteBuffer's
 *            size and fill mark equal to that length, so that the buffer ends
 *            at every truncation point and ASan observes any read behind it;
 *   scripts  source and sink drivers that answer 0, -EINTR, -EAGAIN or a hard
 *            error (sinks: or take fewer octets than offered) at every call
 *            position, on streams of one to three varints through the same
 *            Source / Sink object;
 *   reuse    encoders and the buffer decoder on descriptors that are not fresh:
 *            every (size, used, offset) of small buffers, and histories of up
 *            to three (thorough: four) operations on one descriptor;
 *   windows  buffers whose size, offset or size - offset straddle 2^7, 2^8,
 *            2^15, 2^16, 2^31 and 2^32, as real (lazily mapped) memory that
 *            ends in front of an inaccessible page;
 *   in place the buffer decoder and the buffer-backed source with the result
 *            object at every aligned position of the memory being decoded;
 *   nested   sink encoders called from inside the driver of a sink that is
 *            itself being encoded to (stacked sinks).
 *
 * All four type variants (u32, s32, u64, s64) are run on every value / string.
 * Signed values are handled as their two's complement bit pattern of the
 * type's width, which is what the repository's tables in t-varint.c say
 * (-1 as s32 encodes as ff ff ff ff 0f).
 */
#include "mc.h"

#include <sys/mman.h>
#include <unistd.h>

#include <ufw/compat/errno.h>

#include <ufw/byte-buffer.h>
#include <ufw/endpoints.h>
#include <ufw/variable-length-integer.h>

enum { T_U32, T_S32, T_U64, T_S64, NTYPES };
static const char *const TN[NTYPES] = { "u32", "s32", "u64", "s64" };

static inline unsigned t_width(int t) { return t < T_U64 ? 32u : 64u; }
static inline size_t t_max(int t) { return t < T_U64 ? 5u : 10u; }
static inline uint64_t t_mask(int t) { return t < T_U64 ? 0xffffffffull : ~0ull; }

/* ---- reference LEB128 (independent of ufw's code) -------------------------- */

static size_t
ref_len(uint64_t v)
{
    /* number of significant bits, in groups of seven, at least one group */
    const unsigned bits = v ? 64u - (unsigned)__builtin_clzll(v) : 1u;
    return (bits + 6u) / 7u;
}

static size_t
ref_enc(uint64_t v, unsigned char *out)
{
    size_t n = 0;
    for (;;) {
        const unsigned digit = (unsigned)(v % 128u);
        v /= 128u;
        if (v == 0) {
            out[n++] = (unsigned char)digit;
            return n;
        }
        out[n++] = (unsigned char)(128u + digit);
    }
}

enum verdict { V_OK, V_ILLEGAL, V_TRUNC };
struct refdec {
    enum verdict v;
    size_t count;      /* V_OK: octets up to and including the terminator */
    uint64_t value;    /* V_OK: value modulo 2^width */
    bool overflow;     /* V_OK: the digits denote a number >= 2^width */
    bool canonical;    /* V_OK: the count octets are *the* encoding of value */
    bool ill_overflow; /* V_ILLEGAL: the last octet's digit also exceeds the width (a second failure class) */
    bool ill_at_end;   /* V_ILLEGAL: the memory ends exactly behind the maximum length: "cut off by the end of
                        * the buffer" applies too (a decoder that tests the end of the memory before the
                        * maximum answers the cut-off code there and consumes nothing) */
};

static struct refdec
ref_dec(const unsigned char *s, size_t n, int t)
{
    struct refdec r;
    memset(&r, 0, sizeof r);
    const size_t maxoct = t_max(t);
    unsigned __int128 acc = 0, place = 1;
    for (size_t i = 0; i < maxoct; ++i) {
        if (i == n) {
            r.v = V_TRUNC; /* ended before a terminator and before maxoct */
            return r;
        }
        acc += place * (unsigned)(s[i] % 128u);
        place *= 128u;
        if (s[i] < 128u) {
            r.v = V_OK;
            r.count = i + 1;
            r.overflow = (acc >> t_width(t)) != 0;
            r.value = (uint64_t)acc & t_mask(t);
            r.canonical = !r.overflow && (i == 0 || s[i] != 0);
            return r;
        }
    }
    r.v = V_ILLEGAL; /* maxoct octets, every one with the continuation bit */
    r.ill_overflow = (acc >> t_width(t)) != 0;
    r.ill_at_end = n == maxoct;
    return r;
}

/* ---- typed access to the library -------------------------------------------- */

static inline size_t
lib_length(int t, uint64_t bits)
{
    switch (t) {
    case T_U32: return varint_u32_length((uint32_t)bits);
    case T_S32: return varint_s32_length((int32_t)(uint32_t)bits);
    case T_U64: return varint_u64_length(bits);
    default: return varint_s64_length((int64_t)bits);
    }
}

static inline int
lib_encode(int t, ByteBuffer *b, uint64_t bits)
{
    switch (t) {
    case T_U32: return varint_encode_u32(b, (uint32_t)bits);
    case T_S32: return varint_encode_s32(b, (int32_t)(uint32_t)bits);
    case T_U64: return varint_encode_u64(b, bits);
    default: return varint_encode_s64(b, (int64_t)bits);
    }
}

static inline int
lib_to_sink(int t, Sink *s, uint64_t bits)
{
    switch (t) {
    case T_U32: return varint_u32_to_sink(s, (uint32_t)bits);
    case T_S32: return varint_s32_to_sink(s, (int32_t)(uint32_t)bits);
    case T_U64: return varint_u64_to_sink(s, bits);
    default: return varint_s64_to_sink(s, (int64_t)bits);
    }
}

#define SENTINEL32 0x5a5a5a5au
#define SENTINEL64 0x5a5a5a5a5a5a5a5aull

static inline int
lib_decode(int t, ByteBuffer *b, uint64_t *bits)
{
    int rc;
    switch (t) {
    case T_U32: { uint32_t v = SENTINEL32; rc = varint_decode_u32(b, &v); *bits = v; break; }
    case T_S32: { int32_t v = (int32_t)SENTINEL32; rc = varint_decode_s32(b, &v); *bits = (uint32_t)v; break; }
    case T_U64: { uint64_t v = SENTINEL64; rc = varint_decode_u64(b, &v); *bits = v; break; }
    default: { int64_t v = (int64_t)SENTINEL64; rc = varint_decode_s64(b, &v); *bits = (uint64_t)v; break; }
    }
    return rc;
}

static inline int
lib_from_source(int t, Source *s, uint64_t *bits)
{
    int rc;
    switch (t) {
    case T_U32: { uint32_t v = SENTINEL32; rc = varint_u32_from_source(s, &v); *bits = v; break; }
    case T_S32: { int32_t v = (int32_t)SENTINEL32; rc = varint_s32_from_source(s, &v); *bits = (uint32_t)v; break; }
    case T_U64: { uint64_t v = SENTINEL64; rc = varint_u64_from_source(s, &v); *bits = v; break; }
    default: { int64_t v = (int64_t)SENTINEL64; rc = varint_s64_from_source(s, &v); *bits = (uint64_t)v; break; }
    }
    return rc;
}

/* ---- owned environment: an octet source over a string, a collecting sink ---- */

struct osrc {
    const unsigned char *p;
    size_t n, pos;
};

static int
osrc_get(void *drv, void *dst)
{
    struct osrc *s = drv;
    if (s->pos >= s->n)
        return -ENODATA; /* "sources that run out of data permanently" (endpoints/core.c) */
    *(unsigned char *)dst = s->p[s->pos++];
    return 1;
}

struct csink {
    unsigned char got[32];
    size_t n;
    size_t calls;
};

static ssize_t
csink_put(void *drv, const void *p, size_t n)
{
    struct csink *s = drv;
    s->calls++;
    for (size_t i = 0; i < n; ++i) {
        if (s->n < sizeof s->got)
            s->got[s->n] = ((const unsigned char *)p)[i];
        s->n++;
    }
    return (ssize_t)n;
}

/* ---- observation of the three decoders on one placed string ------------------ */

struct dobs {
    int rc;
    uint64_t bits;
    size_t consumed;
};

/* A descriptor set-up the library refuses.  Below 2^31 octets that is an
 * infrastructure failure (C18's subject, not this check's).  From 2^31 octets
 * on a limit in byte_buffer_set (size > INT32_MAX -> -EINVAL) is a property of
 * the byte buffer on which C14's statement has no sentence: the case ends as
 * the trivial class window-refused-big and the run records a cap (once). */
#define BIG_SIZE (1ull << 31)
static bool
setup_refused(size_t size, size_t used, size_t offset)
{
    static bool capped;
    if ((uint64_t)size < BIG_SIZE)
        mc_broken("byte_buffer_set refused size=%zu used=%zu offset=%zu", size, used, offset);
    mc_log("byte_buffer_set refused size=%zu used=%zu offset=%zu: not judged (descriptor limits are not C14's subject)", size,
           used, offset);
    if (!capped) {
        capped = true;
        mc_cap("byte_buffer_set refuses descriptors of 2^31 octets or more: the window cases of that size are not run");
    }
    return false;
}

/* blk: exact-size heap block of tot octets; the varint starts at blk[pre].
 * false: the library refused to set up a descriptor of tot >= 2^31 octets. */
static bool
run_decoders(int t, unsigned char *blk, size_t tot, size_t pre, struct dobs o[3])
{
    ByteBuffer b;
    if (byte_buffer_set(&b, blk, tot, tot, pre) < 0)
        return setup_refused(tot, tot, pre);
    o[0].rc = lib_decode(t, &b, &o[0].bits);
    o[0].consumed = b.offset - pre;

    struct osrc os = { blk + pre, tot - pre, 0 };
    Source s1 = OCTET_SOURCE_INIT(osrc_get, &os);
    o[1].rc = lib_from_source(t, &s1, &o[1].bits);
    o[1].consumed = os.pos;

    ByteBuffer b2;
    if (byte_buffer_set(&b2, blk, tot, tot, pre) < 0)
        return setup_refused(tot, tot, pre);
    Source s2;
    source_from_buffer(&s2, &b2);
    o[2].rc = lib_from_source(t, &s2, &o[2].bits);
    o[2].consumed = b2.offset - pre;
    mc_trans(3);
    return true;
}

static const char *const DN[3] = { "buffer", "octet-source", "buffer-source" };

/* Oracle for an arbitrary decoder input.  Returns false after a failure. */
static bool
judge_string(int t, const struct refdec *r, const struct dobs o[3])
{
    for (int d = 0; d < 3; ++d)
        mc_log("  %s %s: rc=%d value=0x%llx consumed=%zu", TN[t], DN[d], o[d].rc,
               o[d].rc >= 0 ? (unsigned long long)o[d].bits : 0ull, o[d].consumed);
    switch (r->v) {
    case V_TRUNC:
        if (o[0].rc >= 0) {
            mc_fail("C14/truncated-is-error", "%s: buffer ends before a terminator, buffer decoder returned %d",
                    TN[t], o[0].rc);
            return false;
        }
        if (o[0].consumed != 0) {
            mc_fail("C14/truncated-consumes-nothing", "%s: buffer decoder failed with %d but moved the offset by %zu",
                    TN[t], o[0].rc, o[0].consumed);
            return false;
        }
        for (int d = 1; d < 3; ++d)
            if (o[d].rc >= 0) {
                mc_fail("C14/decoders-agree", "%s: buffer decoder refused (%d), %s decoder returned %d",
                        TN[t], o[0].rc, DN[d], o[d].rc);
                return false;
            }
        return true;
    case V_ILLEGAL:
        /* "rejected as illegal": an error, and not the one that says "cut off,
         * more octets needed" (-ENODATA, what a source reports at its end and
         * what the buffer decoder answers at the end of the memory); the
         * statement does not fix which code says "illegal".  Where the digits
         * read so far also exceed the type's width two failure classes apply
         * and the statement does not say which is reported first: any refusal
         * is accepted there.  Likewise where the memory ends exactly behind the
         * maximum length (audit 6): all of it is continuation octets up to the
         * end of the buffer, so "cut off by the end of the buffer" is true of it
         * as well; a buffer decoder that tests "end of memory" before "maximum
         * reached" answers the cut-off code - any refusal of the buffer decoder
         * is accepted there (the source decoders have read the maximum and are
         * not at an end they know of: they still owe "illegal"). */
        for (int d = 0; d < 3; ++d)
            if (o[d].rc >= 0 || (!r->ill_overflow && !(d == 0 && r->ill_at_end) && o[d].rc == -ENODATA)) {
                mc_fail("C14/no-terminator-illegal",
                        "%s: %zu octets without terminator, %s decoder returned %d (want an error other than the cut-off code "
                        "-ENODATA=%d)",
                        TN[t], t_max(t), DN[d], o[d].rc, -ENODATA);
                return false;
            }
        return true;
    case V_OK:
        break;
    }
    /* terminated within the maximum: the statement demands agreement; and the
     * round-trip sentence decides the strings that are some value's encoding */
    for (int d = 1; d < 3; ++d) {
        if ((o[d].rc >= 0) != (o[0].rc >= 0)) {
            mc_fail("C14/decoders-agree", "%s: buffer decoder returned %d, %s decoder returned %d",
                    TN[t], o[0].rc, DN[d], o[d].rc);
            return false;
        }
        if (o[0].rc < 0)
            continue;
        if (o[d].rc != o[0].rc || o[d].consumed != o[0].consumed) {
            mc_fail("C14/decoders-agree", "%s: count differs: buffer rc=%d consumed=%zu, %s rc=%d consumed=%zu",
                    TN[t], o[0].rc, o[0].consumed, DN[d], o[d].rc, o[d].consumed);
            return false;
        }
        if (o[d].bits != o[0].bits) {
            mc_fail("C14/decoders-agree", "%s: value differs: buffer 0x%llx, %s 0x%llx", TN[t],
                    (unsigned long long)o[0].bits, DN[d], (unsigned long long)o[d].bits);
            return false;
        }
    }
    if (r->canonical) {
        for (int d = 0; d < 3; ++d) {
            const char *cl = d == 0 ? "C14/roundtrip-buffer" : "C14/roundtrip-source";
            if (o[d].rc < 0) {
                mc_fail(cl, "%s: %s decoder refused the encoding of 0x%llx with %d", TN[t], DN[d],
                        (unsigned long long)r->value, o[d].rc);
                return false;
            }
            if (o[d].bits != r->value) {
                mc_fail(cl, "%s: %s decoder returned 0x%llx for the encoding of 0x%llx", TN[t], DN[d],
                        (unsigned long long)o[d].bits, (unsigned long long)r->value);
                return false;
            }
            if ((size_t)o[d].rc != r->count || o[d].consumed != r->count) {
                mc_fail(cl, "%s: %s decoder rc=%d consumed=%zu for an encoding of %zu octets", TN[t], DN[d],
                        o[d].rc, o[d].consumed, r->count);
                return false;
            }
        }
    }
    return true;
}

/* ---- one value through length query, encoders and decoders ------------------- */

/* exact-size blocks reused by the big sweeps: pool[n] has exactly n octets */
static unsigned char *pool[11];
static unsigned char *encblk[NTYPES];

static void
pools_init(void)
{
    for (size_t n = 1; n <= 10; ++n)
        pool[n] = mc_exact(n);
    for (int t = 0; t < NTYPES; ++t)
        encblk[t] = mc_exact(t_max(t));
}

/* Returns the reference length, or 0 after a failure.  `sweep`: use the pooled
 * exact-size blocks instead of a fresh mc_exact_copy per value. */
static size_t
check_value(int t, uint64_t bits, bool sweep)
{
    unsigned char want[10];
    const size_t len = ref_len(bits);
    if (ref_enc(bits, want) != len)
        mc_broken("reference model: length and encoder disagree for 0x%llx", (unsigned long long)bits);
    const size_t maxoct = t_max(t);

    /* length query */
    const size_t ql = lib_length(t, bits);
    mc_trans(1);
    if (ql != len || ql > maxoct) {
        mc_fail("C14/length-query", "%s: length query says %zu for 0x%llx, minimal form has %zu octets (max %zu)",
                TN[t], ql, (unsigned long long)bits, len, maxoct);
        return 0;
    }

    /* encoder into a fresh buffer that has exactly the documented maximum */
    unsigned char *enc = sweep ? encblk[t] : mc_exact(maxoct);
    memset(enc, 0xa5, maxoct);
    ByteBuffer b;
    if (byte_buffer_space(&b, enc, maxoct) < 0)
        mc_broken("byte_buffer_space refused");
    const int erc = lib_encode(t, &b, bits);
    mc_trans(1);
    bool ok = true;
    if (!sweep) {
        mc_log("%s 0x%llx: length query %zu, encode rc=%d used=%zu offset=%zu", TN[t],
               (unsigned long long)bits, ql, erc, b.used, b.offset);
        mc_log_hex("  encoded", enc, b.used <= maxoct ? b.used : maxoct);
        mc_log_hex("  expected", want, len);
    }
    if (erc < 0 || (size_t)erc != len || b.used != len || b.data != enc || b.size != maxoct || b.offset != 0) {
        mc_fail("C14/encode-minimal", "%s: encoding 0x%llx: rc=%d used=%zu offset=%zu, minimal form has %zu octets",
                TN[t], (unsigned long long)bits, erc, b.used, b.offset, len);
        ok = false;
    } else if (memcmp(enc, want, len) != 0) {
        mc_fail("C14/encode-minimal", "%s: encoding 0x%llx: octets differ from the minimal little-endian base-128 form",
                TN[t], (unsigned long long)bits);
        ok = false;
    }

    /* encoder towards a sink */
    if (ok) {
        struct csink cs;
        cs.n = 0;
        cs.calls = 0;
        Sink sink = CHUNK_SINK_INIT(csink_put, &cs);
        const int src = lib_to_sink(t, &sink, bits);
        mc_trans(1);
        if (src < 0 || cs.n != len || memcmp(cs.got, want, len) != 0) {
            mc_fail("C14/encode-minimal-sink", "%s: encoding 0x%llx to a sink: rc=%d, %zu octets delivered, minimal form has %zu",
                    TN[t], (unsigned long long)bits, src, cs.n, len);
            ok = false;
        }
    }

    /* decode from the buffer that was just filled */
    if (ok) {
        uint64_t got;
        const int drc = lib_decode(t, &b, &got);
        mc_trans(1);
        if (drc < 0 || (size_t)drc != len || got != bits || b.offset != len) {
            mc_fail("C14/roundtrip-buffer", "%s: decoding what was just encoded for 0x%llx: rc=%d value=0x%llx offset=%zu (want %zu)",
                    TN[t], (unsigned long long)bits, drc, (unsigned long long)got, b.offset, len);
            ok = false;
        }
    }

    /* decode the encoding placed in a block of exactly its length */
    if (ok) {
        unsigned char *blk;
        if (sweep) {
            blk = pool[len];
            memcpy(blk, enc, len);
        } else {
            blk = mc_exact_copy(enc, len);
        }
        struct dobs o[3];
        (void)run_decoders(t, blk, len, 0, o); /* len <= 10: a refusal is fatal in there */
        for (int d = 0; d < 3 && ok; ++d) {
            if (o[d].rc < 0 || (size_t)o[d].rc != len || o[d].bits != bits || o[d].consumed != len) {
                mc_fail(d == 0 ? "C14/roundtrip-buffer" : "C14/roundtrip-source",
                        "%s: %s decoder on the %zu-octet encoding of 0x%llx: rc=%d value=0x%llx consumed=%zu",
                        TN[t], DN[d], len, (unsigned long long)bits, o[d].rc,
                        (unsigned long long)o[d].bits, o[d].consumed);
                ok = false;
            }
        }
        if (!sweep)
            free(blk);
    }
    if (!sweep)
        free(enc);
    return ok ? len : 0;
}

/* The same oracle for the big sweeps, reduced to length query, buffer encoder,
 * buffer decoder and octet-source decoder on pooled exact-size blocks and
 * without calls into intercepted libc functions.  Returns the length, or 0
 * when anything is off; the caller then runs check_value() on the value to
 * get the precise failing sentence recorded. */
static inline size_t
fast_value(int t, uint64_t bits)
{
    unsigned char want[10];
    const size_t len = ref_enc(bits, want);
    const size_t maxoct = t_max(t);
    if (len != ref_len(bits) || lib_length(t, bits) != len || len > maxoct)
        return 0;
    unsigned char *enc = encblk[t];
    for (size_t i = 0; i < maxoct; ++i)
        enc[i] = 0xa5;
    ByteBuffer b = BYTE_BUFFER_EMPTY(enc, maxoct);
    const int erc = lib_encode(t, &b, bits);
    if (erc < 0 || (size_t)erc != len || b.used != len || b.offset != 0 || b.data != enc || b.size != maxoct)
        return 0;
    unsigned char *blk = pool[len];
    for (size_t i = 0; i < len; ++i) {
        if (enc[i] != want[i])
            return 0;
        blk[i] = enc[i];
    }
    ByteBuffer d = BYTE_BUFFER(blk, len);
    uint64_t got;
    const int drc = lib_decode(t, &d, &got);
    if (drc < 0 || (size_t)drc != len || got != bits || d.offset != len)
        return 0;
    struct osrc os = { blk, len, 0 };
    Source src = OCTET_SOURCE_INIT(osrc_get, &os);
    const int src_rc = lib_from_source(t, &src, &got);
    if (src_rc < 0 || (size_t)src_rc != len || got != bits || os.pos != len)
        return 0;
    mc_trans(4);
    return len;
}

/* one value of a sweep, both signednesses; 0 after a (recorded) failure */
static inline size_t
sweep_value(int t0, uint64_t v)
{
    if (fast_value(t0, v) && fast_value(t0 + 1, v))
        return ref_len(v);
    size_t l = check_value(t0, v, true);
    if (l)
        l = check_value(t0 + 1, v, true);
    if (l)
        mc_fail("C14/roundtrip-buffer", "value 0x%llx failed the reduced round trip but not the full one",
                (unsigned long long)v);
    return 0;
}

static const char *const RT32[6] = { "rt32-failed", "rt32-len1", "rt32-len2", "rt32-len3", "rt32-len4", "rt32-len5" };
static const char *const RT64[11] = { "rt64-failed", "rt64-len1", "rt64-len2", "rt64-len3", "rt64-len4",
                                      "rt64-len5", "rt64-len6", "rt64-len7", "rt64-len8", "rt64-len9",
                                      "rt64-len10" };
static const char *const SW32[6] = { "sweep32-failed", "sweep32-maxlen1", "sweep32-maxlen2", "sweep32-maxlen3",
                                     "sweep32-maxlen4", "sweep32-maxlen5" };
static const char *const SW64[11] = { "sweep64-failed", "sweep64-maxlen1", "sweep64-maxlen2", "sweep64-maxlen3",
                                      "sweep64-maxlen4", "sweep64-maxlen5", "sweep64-maxlen6", "sweep64-maxlen7",
                                      "sweep64-maxlen8", "sweep64-maxlen9", "sweep64-maxlen10" };

/* ---- structured value sets ------------------------------------------------------ */

struct vset {
    uint64_t *v;
    size_t n, cap;
};

static void
vs_add(struct vset *s, uint64_t x)
{
    if (s->n == s->cap) {
        s->cap = s->cap ? 2 * s->cap : 4096;
        s->v = realloc(s->v, s->cap * sizeof *s->v);
        if (!s->v)
            mc_broken("out of memory");
    }
    s->v[s->n++] = x;
}

static int
cmp_u64(const void *a, const void *b)
{
    const uint64_t x = *(const uint64_t *)a, y = *(const uint64_t *)b;
    return x < y ? -1 : x > y;
}

static void
vs_unique(struct vset *s)
{
    qsort(s->v, s->n, sizeof *s->v, cmp_u64);
    size_t w = 0;
    for (size_t i = 0; i < s->n; ++i)
        if (w == 0 || s->v[w - 1] != s->v[i])
            s->v[w++] = s->v[i];
    s->n = w;
}

static void
structured_values(struct vset *s, unsigned width)
{
    const uint64_t mask = width == 32 ? 0xffffffffull : ~0ull;
    const unsigned nlanes = width == 32 ? 5 : 10;
    static const unsigned LV[4] = { 0x00, 0x01, 0x40, 0x7f };
    static const unsigned BV[5] = { 0x00, 0x01, 0x7f, 0x80, 0xff };
    /* x * 2^s, x < 256, and the complements (the shapes of negative numbers) */
    for (unsigned sh = 0; sh < width; ++sh)
        for (uint64_t x = 0; x < 256; ++x) {
            vs_add(s, (x << sh) & mask);
            vs_add(s, ~(x << sh) & mask);
        }
    /* 2^k, 2^k +- 1: every place where the length changes is among them */
    for (unsigned k = 0; k < width; ++k) {
        vs_add(s, (1ull << k) & mask);
        vs_add(s, ((1ull << k) - 1) & mask);
        vs_add(s, ((1ull << k) + 1) & mask);
    }
    /* one septet lane at a time on an all-zero and an all-one background */
    for (unsigned l = 0; l < nlanes; ++l)
        for (unsigned vi = 0; vi < 4; ++vi)
            for (unsigned bg = 0; bg < 2; ++bg) {
                const uint64_t base = bg ? ~0ull : 0ull;
                const uint64_t lane = 0x7full << (7 * l);
                vs_add(s, ((base & ~lane) | ((uint64_t)LV[vi] << (7 * l))) & mask);
            }
    /* two septet lanes at a time */
    for (unsigned l = 0; l < nlanes; ++l)
        for (unsigned m = l + 1; m < nlanes; ++m)
            for (unsigned vi = 1; vi < 4; ++vi)
                for (unsigned wi = 1; wi < 4; ++wi)
                    vs_add(s, (((uint64_t)LV[vi] << (7 * l)) | ((uint64_t)LV[wi] << (7 * m))) & mask);
    /* 32 bit: every combination of lane values (4^5) */
    if (width == 32)
        for (unsigned c = 0; c < 1024; ++c) {
            uint64_t x = 0;
            for (unsigned l = 0; l < 5; ++l)
                x |= (uint64_t)LV[(c >> (2 * l)) & 3] << (7 * l);
            vs_add(s, x & mask);
        }
    /* one octet lane at a time */
    for (unsigned l = 0; l < width / 8; ++l)
        for (unsigned vi = 0; vi < 5; ++vi)
            for (unsigned bg = 0; bg < 2; ++bg) {
                const uint64_t base = bg ? ~0ull : 0ull;
                const uint64_t lane = 0xffull << (8 * l);
                vs_add(s, ((base & ~lane) | ((uint64_t)BV[vi] << (8 * l))) & mask);
            }
    /* the values of the repository's tables */
    static const int64_t tab[] = { 0, 128, -128, 1234, -1234, -1, INT32_MAX, INT32_MIN, INT64_MAX, INT64_MIN };
    for (size_t i = 0; i < sizeof tab / sizeof *tab; ++i)
        vs_add(s, (uint64_t)tab[i] & mask);
    vs_unique(s);
}

static void
family_values(unsigned width)
{
    struct vset s = { NULL, 0, 0 };
    structured_values(&s, width);
    for (size_t i = 0; i < s.n; ++i) {
        const uint64_t v = s.v[i];
        if (!mc_case(width == 32 ? "value32 v=0x%08llx (u32 and s32)" : "value64 v=0x%016llx (u64 and s64)",
                     (unsigned long long)v))
            continue;
        const int t0 = width == 32 ? T_U32 : T_U64;
        size_t l = check_value(t0, v, false);
        if (l)
            l = check_value(t0 + 1, v, false);
        mc_end(l >= 2, width == 32 ? RT32[l] : RT64[l]);
    }
    free(s.v);
}

/* contiguous 32-bit range as one case */
static void
sweep32(uint64_t base, uint64_t count)
{
    if (!mc_case("sweep32 v=0x%08llx..0x%08llx (u32 and s32, every value)", (unsigned long long)base,
                 (unsigned long long)(base + count - 1)))
        return;
    size_t maxl = 0;
    for (uint64_t v = base; v < base + count; ++v) {
        const size_t l = sweep_value(T_U32, v);
        if (l == 0) {
            maxl = 0;
            break;
        }
        if (l > maxl)
            maxl = l;
    }
    mc_end(true, SW32[maxl]);
}

/* 64 bit, thorough: odd * 2^sh for every odd < 2^16 that fits, and complements */
static void
sweep64(unsigned sh, bool complement)
{
    if (!mc_case("sweep64 v=%s(x<<%u) for every odd x < min(2^16, 2^%u) (u64 and s64)", complement ? "~" : "",
                 sh, 64 - sh))
        return;
    const uint64_t lim = (64 - sh) >= 16 ? 65536 : (1ull << (64 - sh));
    size_t maxl = 0;
    for (uint64_t x = 1; x < lim; x += 2) {
        const uint64_t v = complement ? ~(x << sh) : (x << sh);
        const size_t l = sweep_value(T_U64, v);
        if (l == 0) {
            maxl = 0;
            break;
        }
        if (l > maxl)
            maxl = l;
    }
    mc_end(true, SW64[maxl]);
}

/* ---- decoder input strings --------------------------------------------------------- */

static const unsigned char ALPHA6[6] = { 0x00, 0x01, 0x7f, 0x80, 0x81, 0xff };
static const unsigned char ALPHA3[3] = { 0x00, 0x7f, 0x80 };

static void
one_string(const unsigned char *s, size_t n, size_t pre)
{
    if (!mc_would_run()) {
        mc_skip_case();
        return;
    }
    char hex[3 * 12 + 1];
    hex[0] = 0;
    for (size_t i = 0; i < n; ++i) {
        hex[3 * i] = "0123456789abcdef"[s[i] >> 4];
        hex[3 * i + 1] = "0123456789abcdef"[s[i] & 15];
        hex[3 * i + 2] = i + 1 < n ? ' ' : 0;
    }
    if (!mc_case("string pre=%zu len=%zu s=[%s]", pre, n, hex))
        return;
    /* the block: pre consumed octets (ff: continuation bits, in case a decoder
     * starts at the wrong place), then the string; nothing behind it */
    unsigned char tmp[16];
    memset(tmp, 0xff, pre);
    memcpy(tmp + pre, s, n);
    const size_t tot = pre + n;
    unsigned char *blk = mc_exact_copy(tmp, tot);
    struct refdec r32 = { 0 }, r64 = { 0 };
    bool ok = true;
    for (int t = 0; t < NTYPES; ++t) {
        const struct refdec r = ref_dec(s, n, t);
        if (t == T_U32)
            r32 = r;
        if (t == T_U64)
            r64 = r;
        mc_log("%s: reference verdict %s count=%zu value=0x%llx overflow=%d canonical=%d", TN[t],
               r.v == V_OK ? "ok" : r.v == V_ILLEGAL ? "illegal" : "truncated", r.count,
               (unsigned long long)r.value, r.overflow || r.ill_overflow, r.canonical);
        struct dobs o[3];
        (void)run_decoders(t, blk, tot, pre, o); /* tot <= 16: a refusal is fatal in there */
        if (!judge_string(t, &r, o))
            ok = false;
    }
    free(blk);
    (void)ok;
    const char *outcome;
    if (r32.v == V_TRUNC)
        outcome = "dec-trunc32-trunc64";
    else if (r32.v == V_ILLEGAL)
        outcome = r64.v == V_TRUNC     ? "dec-ill32-trunc64"
            : r64.v == V_ILLEGAL       ? "dec-ill32-ill64"
            : r64.overflow             ? "dec-ill32-ok64-overflow"
            : r64.canonical            ? "dec-ill32-ok64-canonical"
                                       : "dec-ill32-ok64-overlong";
    else
        outcome = r32.overflow ? (r64.canonical ? "dec-ok-overflow32-canonical64" : "dec-ok-overflow32-overlong64")
            : r32.canonical    ? "dec-ok-canonical"
                               : "dec-ok-overlong";
    /* non-trivial: a decoder has to go beyond the first octet */
    mc_end(n >= 1 && s[0] >= 0x80, outcome);
}

static void
family_strings(const unsigned char *alpha, unsigned nalpha, size_t minlen, size_t maxlen, size_t pre)
{
    unsigned char s[12];
    for (size_t n = minlen; n <= maxlen; ++n) {
        if (pre + n == 0)
            continue; /* a ByteBuffer cannot have size 0 */
        uint64_t total = 1;
        for (size_t i = 0; i < n; ++i)
            total *= nalpha;
        /* the counter's digits, most significant first, index the alphabet:
         * strings of one length in lexicographic order */
        for (uint64_t c = 0; c < total; ++c) {
            if (!mc_would_run()) {
                mc_skip_case();
                continue;
            }
            uint64_t r = c;
            for (size_t i = n; i-- > 0;) {
                s[i] = alpha[r % nalpha];
                r /= nalpha;
            }
            one_string(s, n, pre);
        }
    }
}

/* ---- scripted drivers: answers other than "here is the octet" ------------------------- */

/* One answer per driver call; calls behind the script are served normally.
 * '.' serve, Z return 0 ("allowed, strictly, but will cause the system to
 * retry", endpoints/core.c), I -EINTR, A -EAGAIN, E a hard error (-EIO). */
enum { A_D, A_I, A_A, A_E, A_Z, A_NKINDS };
static const char ALET[A_NKINDS + 1] = ".IAEZ";
#define SCRIPT_MAX 40
#define CALL_BUDGET 48 /* driver calls per library call; an encoding has at most 10 octets */

static int
a_code(int a)
{
    switch (a) {
    case A_Z: return 0;
    case A_I: return -EINTR;
    case A_A: return -EAGAIN;
    default: return -EIO;
    }
}

struct script {
    unsigned char a[SCRIPT_MAX];
    size_t n; /* 0, or a[n-1] != A_D */
};

static void
script_text(const struct script *sc, char *out)
{
    for (size_t i = 0; i < sc->n; ++i)
        out[i] = ALET[sc->a[i]];
    out[sc->n] = 0;
}

/* Every script with at most `faults` answers other than '.' among the first
 * `lmax` calls, in a fixed order (the empty script first). */
typedef void script_fn(const struct script *sc, void *ctx);

static void
scripts_rec(struct script *sc, size_t from, size_t lmax, unsigned faults, script_fn *fn, void *ctx)
{
    fn(sc, ctx);
    if (faults == 0)
        return;
    const size_t n0 = sc->n;
    for (size_t p = from; p < lmax && p < SCRIPT_MAX; ++p) {
        for (size_t i = n0; i < p; ++i)
            sc->a[i] = A_D;
        for (int k = A_D + 1; k < A_NKINDS; ++k) {
            sc->a[p] = (unsigned char)k;
            sc->n = p + 1;
            scripts_rec(sc, p + 1, lmax, faults - 1, fn, ctx);
        }
    }
    sc->n = n0;
}

static void
for_scripts(size_t lmax, unsigned faults, script_fn *fn, void *ctx)
{
    struct script sc;
    memset(&sc, 0, sizeof sc);
    scripts_rec(&sc, 0, lmax, faults, fn, ctx);
}

static void
hex_text(const unsigned char *s, size_t n, char *out)
{
    out[0] = 0;
    for (size_t i = 0; i < n; ++i) {
        out[3 * i] = "0123456789abcdef"[s[i] >> 4];
        out[3 * i + 1] = "0123456789abcdef"[s[i] & 15];
        out[3 * i + 2] = i + 1 < n ? ' ' : 0;
    }
}

/* ---- scripted source ------------------------------------------------------------------- */

struct ssrc {
    const unsigned char *p; /* the stream */
    size_t n, pos;
    const struct script *sc;
    size_t calls;  /* driver calls so far (index into the script) */
    size_t call0;  /* value of calls when the current library call started */
    size_t given;  /* answers other than "served"/-ENODATA given during the current library call */
    int first;     /* first such answer of the case (A_D: none) */
    unsigned char poison; /* what a call that delivers nothing leaves in the caller's octet */
    bool budget;   /* the library kept calling: see C14/hang */
};

static int
ssrc_step(struct ssrc *s, unsigned char *dst, size_t room)
{
    const size_t c = s->calls++;
    if (s->calls - s->call0 > CALL_BUDGET) {
        s->budget = true;
        return -EIO;
    }
    const int a = c < s->sc->n ? s->sc->a[c] : A_D;
    if (a != A_D) {
        s->given++;
        if (s->first == A_D)
            s->first = a;
        if (room)
            *dst = s->poison; /* nothing was delivered: the octet's content means nothing */
        return a_code(a);
    }
    if (s->pos >= s->n)
        return -ENODATA;
    if (room == 0)
        return 0;
    *dst = s->p[s->pos++];
    return 1;
}

static int
ssrc_get_octet(void *drv, void *dst)
{
    return ssrc_step(drv, dst, 1);
}

static ssize_t
ssrc_get_chunk(void *drv, void *dst, size_t n)
{
    return ssrc_step(drv, dst, n); /* one octet per call at most: a short read is a legal answer */
}

static const char *const SRC_OUT[A_NKINDS] = { "srcscript-undisturbed", "srcscript-eintr", "srcscript-eagain",
                                               "srcscript-hard", "srcscript-zero" };

struct srcctx {
    int t;
    int chunk;            /* 0: octet source, 1: chunk source */
    unsigned char poison;
    const unsigned char *stream;
    size_t n;
    unsigned k;           /* varints to decode from the stream */
};

static void
srcscript_case(const struct script *sc, void *vctx)
{
    const struct srcctx *c = vctx;
    if (!mc_would_run()) {
        mc_skip_case();
        return;
    }
    char hex[3 * 32 + 1], st[SCRIPT_MAX + 1];
    hex_text(c->stream, c->n, hex);
    script_text(sc, st);
    if (!mc_case("srcscript %s %s-source poison=%02x decodes=%u stream=[%s] answers=\"%s\" then served", TN[c->t],
                 c->chunk ? "chunk" : "octet", c->poison, c->k, hex, st))
        return;
    const int t = c->t;
    struct ssrc s;
    memset(&s, 0, sizeof s);
    s.p = c->stream;
    s.n = c->n;
    s.sc = sc;
    s.first = A_D;
    s.poison = c->poison;
    Source src;
    if (c->chunk)
        chunk_source_init(&src, ssrc_get_chunk, &s);
    else
        octet_source_init(&src, ssrc_get_octet, &s);
    for (unsigned j = 0; j < c->k && s.pos < s.n; ++j) {
        const size_t pos0 = s.pos, restn = s.n - pos0;
        const struct refdec r = ref_dec(s.p + pos0, restn, t);
        /* the buffer decoder on the same octets, in an exact-size block */
        unsigned char *blk = mc_exact_copy(s.p + pos0, restn);
        struct dobs o[3];
        ByteBuffer b;
        if (byte_buffer_set(&b, blk, restn, restn, 0) < 0)
            mc_broken("byte_buffer_set refused");
        o[0].rc = lib_decode(t, &b, &o[0].bits);
        o[0].consumed = b.offset;
        free(blk);
        s.call0 = s.calls;
        s.given = 0;
        o[1].rc = lib_from_source(t, &src, &o[1].bits);
        o[1].consumed = s.pos - pos0;
        o[2] = o[1];
        mc_trans(2);
        mc_log("decode %u at stream position %zu: reference %s count=%zu; driver calls %zu, disturbed %zu times", j, pos0,
               r.v == V_OK ? "ok" : r.v == V_ILLEGAL ? "illegal" : "cut off", r.count, s.calls - s.call0, s.given);
        if (s.budget) {
            mc_fail("C14/hang", "%s: source decoder made more than %d driver calls for one varint", TN[t], CALL_BUDGET);
            break;
        }
        if (s.given == 0) {
            if (!judge_string(t, &r, o) || o[1].rc < 0)
                break;
            continue;
        }
        mc_log("  %s source: rc=%d value=0x%llx consumed=%zu; buffer decoder on the same octets: rc=%d value=0x%llx",
               TN[t], o[1].rc, o[1].rc >= 0 ? (unsigned long long)o[1].bits : 0ull, o[1].consumed, o[0].rc,
               o[0].rc >= 0 ? (unsigned long long)o[0].bits : 0ull);
        if (o[1].rc < 0)
            break; /* reporting the driver's trouble is fine; the stream's state is open afterwards */
        /* success: it has to be the value of the octets that were delivered, and exactly those */
        if (r.v != V_OK || (size_t)o[1].rc != r.count || o[1].consumed != r.count) {
            mc_fail("C14/source-retry-exact",
                    "%s: source decoder reports success rc=%d value=0x%llx having been delivered %zu octets; those octets %s",
                    TN[t], o[1].rc, (unsigned long long)o[1].bits, o[1].consumed,
                    r.v == V_ILLEGAL ? "have no terminator within the maximum length"
                    : r.v == V_TRUNC ? "end before a terminator"
                    : o[1].consumed == r.count ? "are a varint of that many octets, not of rc octets"
                                               : "are not one complete varint");
            break;
        }
        if (o[0].rc >= 0 && o[1].bits != o[0].bits) {
            mc_fail("C14/source-retry-exact", "%s: source decoder returned 0x%llx, buffer decoder 0x%llx for the same octets",
                    TN[t], (unsigned long long)o[1].bits, (unsigned long long)o[0].bits);
            break;
        }
        if (r.canonical && o[1].bits != r.value) {
            mc_fail("C14/source-retry-exact", "%s: source decoder returned 0x%llx for the encoding of 0x%llx", TN[t],
                    (unsigned long long)o[1].bits, (unsigned long long)r.value);
            break;
        }
    }
    mc_end(s.first != A_D, SRC_OUT[s.first]);
}

/* ---- scripted sink --------------------------------------------------------------------- */

struct ssink {
    unsigned char got[64];
    size_t n;
    const struct script *sc;
    size_t most;      /* chunk flavour: takes at most this many octets per call */
    size_t calls, call0;
    size_t given;     /* disturbances (script answers, short takes) during the current library call */
    int first;        /* first script answer given in the case */
    bool shorted;     /* took fewer octets than offered at least once */
    bool budget;
};

static ssize_t
ssink_step(struct ssink *s, const unsigned char *p, size_t n)
{
    const size_t c = s->calls++;
    if (s->calls - s->call0 > CALL_BUDGET) {
        s->budget = true;
        return -EIO;
    }
    const int a = c < s->sc->n ? s->sc->a[c] : A_D;
    if (a != A_D) {
        s->given++;
        if (s->first == A_D)
            s->first = a;
        return a_code(a);
    }
    size_t m = n;
    if (m > s->most) {
        m = s->most;
        s->given++;
        s->shorted = true;
    }
    for (size_t i = 0; i < m; ++i) {
        if (s->n < sizeof s->got)
            s->got[s->n] = p[i];
        s->n++;
    }
    return (ssize_t)m;
}

static int
ssink_put_octet(void *drv, unsigned char c)
{
    return (int)ssink_step(drv, &c, 1);
}

static ssize_t
ssink_put_chunk(void *drv, const void *p, size_t n)
{
    return ssink_step(drv, p, n);
}

struct sinkctx {
    int t;
    size_t most; /* 0: octet sink; otherwise chunk sink taking at most this many per call */
    const uint64_t *v;
    unsigned k;
};

static void
sinkscript_case(const struct script *sc, void *vctx)
{
    const struct sinkctx *c = vctx;
    if (!mc_would_run()) {
        mc_skip_case();
        return;
    }
    char st[SCRIPT_MAX + 1], kind[40];
    script_text(sc, st);
    if (c->most == 0)
        snprintf(kind, sizeof kind, "octet-sink");
    else if (c->most >= 64)
        snprintf(kind, sizeof kind, "chunk-sink");
    else
        snprintf(kind, sizeof kind, "chunk-sink(at most %zu per call)", c->most);
    if (!mc_case("sinkscript %s %s values=[0x%llx 0x%llx 0x%llx] first %u answers=\"%s\" then served", TN[c->t], kind,
                 (unsigned long long)c->v[0], (unsigned long long)(c->k > 1 ? c->v[1] : 0),
                 (unsigned long long)(c->k > 2 ? c->v[2] : 0), c->k, st))
        return;
    const int t = c->t;
    struct ssink s;
    memset(&s, 0, sizeof s);
    s.sc = sc;
    s.most = c->most ? c->most : 1;
    s.first = A_D;
    Sink sink;
    if (c->most)
        chunk_sink_init(&sink, ssink_put_chunk, &s);
    else
        octet_sink_init(&sink, ssink_put_octet, &s);
    for (unsigned j = 0; j < c->k; ++j) {
        unsigned char want[10];
        const size_t len = ref_enc(c->v[j], want);
        const size_t n0 = s.n;
        s.call0 = s.calls;
        s.given = 0;
        const int rc = lib_to_sink(t, &sink, c->v[j]);
        mc_trans(1);
        const size_t got = s.n - n0;
        mc_log("to_sink %u 0x%llx: rc=%d, driver calls %zu, disturbed %zu times, %zu octets taken", j,
               (unsigned long long)c->v[j], rc, s.calls - s.call0, s.given, got);
        mc_log_hex("  taken", s.got + (n0 < sizeof s.got ? n0 : sizeof s.got),
                   n0 + got <= sizeof s.got ? got : 0);
        mc_log_hex("  minimal form", want, len);
        if (s.budget) {
            mc_fail("C14/hang", "%s: sink encoder made more than %d driver calls for one varint", TN[t], CALL_BUDGET);
            break;
        }
        if (rc < 0) {
            if (s.given == 0)
                mc_fail("C14/encode-minimal-sink", "%s: encoding 0x%llx to a sink that takes everything: rc=%d", TN[t],
                        (unsigned long long)c->v[j], rc);
            break; /* an honest error report after a disturbance is fine; the sink's content is open then */
        }
        if (got != len || n0 + got > sizeof s.got || memcmp(s.got + n0, want, len) != 0) {
            mc_fail("C14/encode-minimal-sink",
                    "%s: encoding 0x%llx to a sink reports success (rc=%d) but the sink took %zu octets that %s the minimal "
                    "form of %zu octets (driver was disturbed %zu times)",
                    TN[t], (unsigned long long)c->v[j], rc, got, got == len ? "differ from" : "are not", len, s.given);
            break;
        }
    }
    const char *outcome = s.first == A_Z ? "sinkscript-zero"
        : s.first == A_I                 ? "sinkscript-eintr"
        : s.first == A_A                 ? "sinkscript-eagain"
        : s.first == A_E                 ? "sinkscript-hard"
        : s.shorted                      ? "sinkscript-short"
                                         : "sinkscript-undisturbed";
    mc_end(s.first != A_D || s.shorted, outcome);
}

/* ---- the script families ---------------------------------------------------------------- */

struct bstr {
    unsigned char s[11];
    size_t n;
};

#define FF5 0xff, 0xff, 0xff, 0xff, 0xff
#define C5 0x80, 0x80, 0x80, 0x80, 0x80
/* decoder inputs of the script family: encodings of every length class, an
 * overlong form, a form beyond the width, no terminator, cut off */
static const struct bstr SSTR32[] = {
    { { 0x00 }, 1 }, { { 0x7f }, 1 }, { { 0x80, 0x01 }, 2 }, { { 0xd2, 0x09 }, 2 }, { { 0xff, 0xff, 0x03 }, 3 },
    { { 0xff, 0xff, 0xff, 0x7f }, 4 }, { { 0xff, 0xff, 0xff, 0xff, 0x0f }, 5 }, { { 0x80, 0x80, 0x80, 0x80, 0x08 }, 5 },
    { { 0x80, 0x00 }, 2 }, { { 0xff, 0xff, 0xff, 0xff, 0x7f }, 5 }, { { C5 }, 5 }, { { 0x81 }, 1 }, { { 0xff, 0x80 }, 2 },
};
static const struct bstr SSTR64[] = {
    { { 0x00 }, 1 }, { { 0x7f }, 1 }, { { 0x80, 0x01 }, 2 }, { { 0xd2, 0x09 }, 2 }, { { 0xff, 0xff, 0x03 }, 3 },
    { { FF5, 0x0f }, 6 }, { { FF5, 0xff, 0xff, 0xff, 0x7f }, 9 }, { { FF5, 0xff, 0xff, 0xff, 0xff, 0x01 }, 10 },
    { { C5, 0x80, 0x80, 0x80, 0x80, 0x01 }, 10 }, { { 0x80, 0x00 }, 2 }, { { FF5, 0xff, 0xff, 0xff, 0xff, 0x7f }, 10 },
    { { C5, C5 }, 10 }, { { 0x81 }, 1 }, { { 0xff, 0x80 }, 2 },
};
/* the parts streams of several varints are made of */
static const struct bstr PART32[3] = { { { 0x01 }, 1 }, { { 0xd2, 0x09 }, 2 }, { { 0xff, 0xff, 0xff, 0xff, 0x0f }, 5 } };
static const struct bstr PART64[3] = { { { 0x01 }, 1 }, { { 0xd2, 0x09 }, 2 },
                                       { { FF5, 0xff, 0xff, 0xff, 0xff, 0x01 }, 10 } };
static const uint64_t PARTV32[3] = { 1, 1234, 0xffffffffull };
static const uint64_t PARTV64[3] = { 1, 1234, ~0ull };

static const unsigned char POISON[2] = { 0x00, 0xd5 };

static void
family_srcscripts(void)
{
    const unsigned f1 = mc_thorough() ? 3 : 2; /* disturbances per single varint */
    const unsigned fk = mc_thorough() ? 2 : 1; /* per stream of two or three */
    for (int t = 0; t < NTYPES; ++t) {
        const bool w32 = t < T_U64;
        const struct bstr *str = w32 ? SSTR32 : SSTR64;
        const size_t nstr = w32 ? sizeof SSTR32 / sizeof *SSTR32 : sizeof SSTR64 / sizeof *SSTR64;
        const struct bstr *part = w32 ? PART32 : PART64;
        for (int chunk = 0; chunk < 2; ++chunk)
            for (unsigned pz = 0; pz < 2; ++pz) {
                struct srcctx c = { t, chunk, POISON[pz], NULL, 0, 1 };
                for (size_t i = 0; i < nstr; ++i) {
                    c.stream = str[i].s;
                    c.n = str[i].n;
                    c.k = 1;
                    /* the decoder asks for at most min(n + 1, maximum) octets; a
                     * disturbance behind that many calls plus the earlier ones is never seen */
                    for_scripts(str[i].n + f1, f1, srcscript_case, &c);
                }
                for (unsigned k = 2; k <= 3; ++k) {
                    unsigned total = 1;
                    for (unsigned j = 0; j < k; ++j)
                        total *= 3;
                    for (unsigned comb = 0; comb < total; ++comb) {
                        unsigned char stream[32];
                        size_t n = 0;
                        unsigned r = comb;
                        for (unsigned j = 0; j < k; ++j) {
                            memcpy(stream + n, part[r % 3].s, part[r % 3].n);
                            n += part[r % 3].n;
                            r /= 3;
                        }
                        c.stream = stream;
                        c.n = n;
                        c.k = k;
                        for_scripts(n + fk, fk, srcscript_case, &c);
                    }
                }
            }
    }
}

static void
family_sinkscripts(void)
{
    static const uint64_t V32[] = { 0, 0x7f, 0x80, 1234, 0x1ffff, 0x0fffffff, 0x80000000ull, 0xffffffffull };
    static const uint64_t V64[] = { 0, 0x7f, 0x80, 1234, 0x1ffff, 0x123456789abcull, 0x7fffffffffffffffull,
                                    0x8000000000000000ull, ~0ull };
    static const size_t MOST[5] = { 0, 64, 1, 2, 3 };
    const unsigned f1 = mc_thorough() ? 3 : 2;
    const unsigned fk = mc_thorough() ? 2 : 1;
    for (int t = 0; t < NTYPES; ++t) {
        const bool w32 = t < T_U64;
        const uint64_t *vals = w32 ? V32 : V64;
        const size_t nvals = w32 ? sizeof V32 / sizeof *V32 : sizeof V64 / sizeof *V64;
        const uint64_t *part = w32 ? PARTV32 : PARTV64;
        for (unsigned m = 0; m < 5; ++m) {
            struct sinkctx c = { t, MOST[m], NULL, 1 };
            for (size_t i = 0; i < nvals; ++i) {
                uint64_t v[3] = { vals[i], 0, 0 };
                c.v = v;
                c.k = 1;
                for_scripts(ref_len(vals[i]) + f1, f1, sinkscript_case, &c);
            }
            for (unsigned k = 2; k <= 3; ++k) {
                unsigned total = 1;
                for (unsigned j = 0; j < k; ++j)
                    total *= 3;
                for (unsigned comb = 0; comb < total; ++comb) {
                    uint64_t v[3] = { 0, 0, 0 };
                    size_t n = 0;
                    unsigned r = comb;
                    for (unsigned j = 0; j < k; ++j) {
                        v[j] = part[r % 3];
                        n += ref_len(v[j]);
                        r /= 3;
                    }
                    c.v = v;
                    c.k = k;
                    for_scripts(n + fk, fk, sinkscript_case, &c);
                }
            }
        }
    }
}

/* ---- descriptors that are not fresh ------------------------------------------------------- */

/* What "encoding produces the form" means on a ByteBuffer whose read cursor and
 * fill mark are not both zero is not spelled out by the statement.  Two readings
 * are accepted, whichever the implementation follows, call by call:
 *   (at-cursor) the form is written at the read cursor and the fill mark is set
 *               to its end, so that the unread part [offset, used) is the form;
 *   (appended)  the form is appended at the fill mark, which moves behind it;
 *   (at-cursor, mark kept) the form is written at the read cursor and the fill
 *               mark is never moved backwards (used = max(used, offset + len)).
 * A refusal is admissible whenever offset != used (the statement says nothing
 * about descriptors with unread data), and whenever less than the documented
 * maximum is free.
 * All coincide when offset == used (fresh descriptors, "decode what was there,
 * encode the next").  A form of the right length somewhere, with a fill mark
 * that delimits something else, is neither.
 * Returns 1: encoded (at_cursor tells which reading), 0: refused admissibly,
 * -1: failure recorded. */
static int
encode_step(int t, ByteBuffer *b, unsigned char *mem, size_t size, uint64_t bits, bool *at_cursor)
{
    unsigned char want[10];
    const size_t len = ref_enc(bits, want);
    const size_t maxoct = t_max(t);
    const size_t o = b->offset, u = b->used;
    const int erc = lib_encode(t, b, bits);
    mc_trans(1);
    mc_log("%s encode 0x%llx on size=%zu used=%zu offset=%zu: rc=%d, afterwards used=%zu offset=%zu", TN[t],
           (unsigned long long)bits, size, u, o, erc, b->used, b->offset);
    if (b->data != mem || b->size != size) {
        mc_fail("C14/encode-minimal-reuse", "%s: encoding 0x%llx changed the descriptor's memory or size", TN[t],
                (unsigned long long)bits);
        return -1;
    }
    if (erc < 0) {
        /* The statement's encoding sentence is about producing the form; it has
         * no sentence about descriptors that hold unread data (offset != used):
         * an encoder that refuses those is admissible.  Success is demanded
         * only where both readings coincide (offset == used) and the documented
         * maximum is free behind the fill mark. */
        if (o == u && size - u >= maxoct) {
            mc_fail("C14/encode-minimal-reuse",
                    "%s: encoding 0x%llx refused with %d although the descriptor holds nothing unread and %zu octets (the "
                    "documented maximum is %zu) are free behind the fill mark (size=%zu used=%zu offset=%zu)",
                    TN[t], (unsigned long long)bits, erc, size - u, maxoct, size, u, o);
            return -1;
        }
        return 0;
    }
    /* (at-cursor) fill mark set to the form's end; (appended) at the old fill
     * mark; (at-cursor, mark kept) written at the read cursor, the fill mark
     * only ever moves forwards: used == max(old used, offset + len) */
    const bool at_o = o + len <= size && memcmp(mem + o, want, len) == 0;
    const bool a_ok = at_o && b->used == o + len;
    const bool b_ok = b->used == u + len && u + len <= size && memcmp(mem + u, want, len) == 0;
    const bool c_ok = at_o && b->used == (u > o + len ? u : o + len);
    if ((size_t)erc != len || b->offset != o || !(a_ok || b_ok || c_ok)) {
        mc_fail("C14/encode-minimal-reuse",
                "%s: encoding 0x%llx (minimal form: %zu octets) on size=%zu used=%zu offset=%zu: rc=%d used=%zu offset=%zu; "
                "the form is neither at the read cursor (fill mark at its end, or kept where it was when that is further on) "
                "nor appended at the old fill mark",
                TN[t], (unsigned long long)bits, len, size, u, o, erc, b->used, b->offset);
        return -1;
    }
    *at_cursor = a_ok || c_ok;
    return 1;
}

/* Decode through the same descriptor when the unread part starts with a
 * complete canonical encoding (so that the verdict does not depend on whether a
 * decoder is bounded by the fill mark or by the memory).  1 decoded, 0 not
 * applicable, -1 failure recorded. */
static int
decode_step(int t, ByteBuffer *b, unsigned char *mem, size_t size)
{
    const size_t o = b->offset, u = b->used;
    if (o > u || u > size)
        return 0;
    const struct refdec r = ref_dec(mem + o, u - o, t);
    if (r.v != V_OK || !r.canonical)
        return 0;
    uint64_t got;
    const int drc = lib_decode(t, b, &got);
    mc_trans(1);
    mc_log("%s decode on size=%zu used=%zu offset=%zu: rc=%d value=0x%llx, afterwards used=%zu offset=%zu", TN[t], size, u,
           o, drc, drc >= 0 ? (unsigned long long)got : 0ull, b->used, b->offset);
    if (drc < 0 || (size_t)drc != r.count || got != r.value || b->offset != o + r.count) {
        mc_fail("C14/roundtrip-buffer",
                "%s: the unread part of the descriptor (size=%zu used=%zu offset=%zu) starts with the %zu-octet encoding of "
                "0x%llx: rc=%d value=0x%llx offset=%zu",
                TN[t], size, u, o, r.count, (unsigned long long)r.value, drc, drc >= 0 ? (unsigned long long)got : 0ull,
                b->offset);
        return -1;
    }
    return 1;
}

static void
stale_fill(unsigned char *mem, size_t n)
{
    /* continuation bits everywhere: stale octets never look like a terminator,
     * and never like the last octet of a form */
    for (size_t i = 0; i < n; ++i)
        mem[i] = (unsigned char)(0x80u | ((i * 37u + 0x25u) & 0x7fu));
}

static const uint64_t DV32[3] = { 5, 1234, 0xffffffffull };
static const uint64_t DV64[3] = { 5, 1234, ~0ull };

/* one encode on every (size, used, offset) */
static void
family_dirty(void)
{
    for (int t = 0; t < NTYPES; ++t) {
        const size_t maxoct = t_max(t);
        const size_t sizes[6] = { maxoct - 1, maxoct, maxoct + 1, maxoct + 2, 2 * maxoct, 2 * maxoct + 3 };
        const uint64_t *dv = t < T_U64 ? DV32 : DV64;
        for (unsigned si = 0; si < 6; ++si)
            for (size_t u = 0; u <= sizes[si]; ++u)
                for (size_t o = 0; o <= u; ++o)
                    for (unsigned vi = 0; vi < 3; ++vi) {
                        const size_t size = sizes[si];
                        if (!mc_case("dirty %s encode 0x%llx on size=%zu used=%zu offset=%zu, then decode", TN[t],
                                     (unsigned long long)dv[vi], size, u, o))
                            continue;
                        unsigned char *mem = mc_exact(size);
                        stale_fill(mem, size);
                        ByteBuffer b;
                        if (byte_buffer_set(&b, mem, size, u, o) < 0)
                            mc_broken("byte_buffer_set refused size=%zu used=%zu offset=%zu", size, u, o);
                        bool at_cursor = false;
                        const int e = encode_step(t, &b, mem, size, dv[vi], &at_cursor);
                        const char *outcome = e < 0 ? "dirty-failed" : e == 0 ? "dirty-refused"
                            : o == u                ? "dirty-encoded-at-mark"
                                                    : "dirty-encoded-below-mark";
                        if (e == 1 && at_cursor)
                            (void)decode_step(t, &b, mem, size);
                        free(mem);
                        mc_end(u != 0, outcome);
                    }
    }
}

/* histories on one descriptor.  The cursor operations are done by the harness
 * on the public struct (what byte_buffer_repeat / byte_buffer_reset do, and a
 * caller that appends by moving the read cursor to the fill mark). */
enum { H_E1, H_E2, H_EMAX, H_DEC, H_REPEAT, H_SEEKEND, H_RESET, H_NOPS };
static const char *const HN[H_NOPS] = { "enc1", "enc2", "encmax", "dec", "repeat", "seek-end", "reset" };

static void
family_histories(void)
{
    const unsigned maxlen = mc_thorough() ? 4 : 3;
    for (int t = 0; t < NTYPES; ++t) {
        const size_t maxoct = t_max(t);
        const size_t sizes[3] = { maxoct, 2 * maxoct, 3 * maxoct + 1 };
        const uint64_t *dv = t < T_U64 ? DV32 : DV64;
        for (unsigned si = 0; si < 3; ++si)
            for (unsigned len = 1; len <= maxlen; ++len) {
                unsigned total = 1;
                for (unsigned j = 0; j < len; ++j)
                    total *= H_NOPS;
                for (unsigned comb = 0; comb < total; ++comb) {
                    if (!mc_would_run()) {
                        mc_skip_case();
                        continue;
                    }
                    unsigned ops[4], r = comb;
                    char text[80];
                    size_t tl = 0;
                    for (unsigned j = len; j-- > 0;) {
                        ops[j] = r % H_NOPS;
                        r /= H_NOPS;
                    }
                    for (unsigned j = 0; j < len; ++j)
                        tl += (size_t)snprintf(text + tl, sizeof text - tl, "%s%s", j ? " " : "", HN[ops[j]]);
                    const size_t size = sizes[si];
                    if (!mc_case("history %s size=%zu fresh: %s", TN[t], size, text))
                        continue;
                    unsigned char *mem = mc_exact(size);
                    stale_fill(mem, size);
                    ByteBuffer b;
                    if (byte_buffer_space(&b, mem, size) < 0)
                        mc_broken("byte_buffer_space refused");
                    unsigned reuse = 0, encodes = 0;
                    bool failed = false;
                    for (unsigned j = 0; j < len && !failed; ++j) {
                        switch (ops[j]) {
                        case H_E1:
                        case H_E2:
                        case H_EMAX: {
                            bool at_cursor;
                            const size_t o = b.offset, u = b.used;
                            const int e = encode_step(t, &b, mem, size, dv[ops[j] - H_E1], &at_cursor);
                            if (e < 0)
                                failed = true;
                            else if (e == 0 && (b.offset != o || b.used != u))
                                j = len; /* refused and moved the marks: nothing more to be said about this descriptor */
                            else if (e == 1) {
                                encodes++;
                                if (o != u)
                                    reuse++;
                            }
                            break;
                        }
                        case H_DEC:
                            if (decode_step(t, &b, mem, size) < 0)
                                failed = true;
                            break;
                        case H_REPEAT:
                            b.offset = 0;
                            break;
                        case H_SEEKEND:
                            b.offset = b.used;
                            break;
                        default:
                            b.offset = b.used = 0;
                            break;
                        }
                    }
                    free(mem);
                    mc_end(encodes >= 2, failed ? "history-failed" : reuse ? "history-reencoded-below-mark"
                               : encodes >= 2                            ? "history-reencoded-at-mark"
                                                                         : "history-single");
                }
            }
    }
}

/* ---- decode histories on one descriptor, in every fill-mark flavour ------------------------------ */

/* A receive buffer holds a stream of complete varints and a tail; the varints
 * are decoded one after the other through ONE descriptor, then the tail is.
 * The descriptor's memory is exactly the stream (exact-size heap block: a read
 * behind it is an ASan report) or the front of a bigger block that goes on with
 * terminator octets (01: an over-read shows as a bogus success).  Flavours of
 * the fill mark: filled (used = size, byte_buffer_use), space (used = 0,
 * byte_buffer_space around received data - the idiom of the repository's
 * tests; after the first decode the read cursor is BEYOND the fill mark) and
 * partly (every 0 < used < size).
 *
 * Oracle per decode, r = reference verdict on memory[offset, size):
 *   cut off by the end of the memory: an error that consumes nothing (any
 *     flavour: "the buffer decoder never reads beyond the buffer's memory");
 *   no terminator within the maximum: an error (and, when all of it lies below
 *     the fill mark, not the cut-off code, as in judge_string);
 *   complete canonical encoding: when all of it lies in [offset, used) the
 *     round trip sentence decides; when it reaches beyond the fill mark (or the
 *     cursor already is beyond it) the statement does not say that such octets
 *     are "in the buffer": exact success or a refusal are both accepted, a
 *     refusal ends the history (class dechist-*-refused-beyond-mark). */
enum { DF_FILLED, DF_SPACE, DF_PARTLY, DF_N };
static const char *const DFN[DF_N] = { "filled (used = size)", "space (used = 0)", "partly filled" };
enum { DO_CUTOFF, DO_OK, DO_ILLEGAL, DO_REFUSED, DO_N };
static const char *const DH_OUT[DF_N][DO_N] = {
    { "dechist-filled-cutoff", "dechist-filled-ok", "dechist-filled-illegal", "dechist-filled-refused-beyond-mark" },
    { "dechist-space-cutoff", "dechist-space-ok", "dechist-space-illegal", "dechist-space-refused-beyond-mark" },
    { "dechist-partly-cutoff", "dechist-partly-ok", "dechist-partly-illegal", "dechist-partly-refused-beyond-mark" },
};

/* one decode; DO_* reached, or -1 after a recorded failure */
static int
dechist_step(int t, ByteBuffer *b, unsigned char *mem, size_t size, const char *what)
{
    const size_t o = b->offset, u = b->used;
    const struct refdec r = ref_dec(mem + o, size - o, t);
    uint64_t got;
    const int rc = lib_decode(t, b, &got);
    mc_trans(1);
    mc_log("%s as %s at offset=%zu (used=%zu size=%zu): reference %s count=%zu; rc=%d value=0x%llx offset afterwards %zu", what,
           TN[t], o, u, size, r.v == V_OK ? "ok" : r.v == V_ILLEGAL ? "illegal" : "cut off", r.count, rc,
           rc >= 0 ? (unsigned long long)got : 0ull, b->offset);
    if (b->data != mem || b->size != size) {
        mc_fail("C14/roundtrip-buffer", "%s: decoding changed the descriptor's memory or size", TN[t]);
        return -1;
    }
    switch (r.v) {
    case V_TRUNC:
        if (rc >= 0) {
            mc_fail("C14/truncated-is-error",
                    "%s: %zu octets of memory follow the read cursor (size=%zu used=%zu offset=%zu), none is a terminator: buffer "
                    "decoder returned %d",
                    TN[t], size - o, size, u, o, rc);
            return -1;
        }
        if (b->offset != o) {
            mc_fail("C14/truncated-consumes-nothing",
                    "%s: buffer decoder failed with %d on a varint cut off by the end of the memory but moved the offset from %zu "
                    "to %zu (size=%zu used=%zu)",
                    TN[t], rc, o, b->offset, size, u);
            return -1;
        }
        return DO_CUTOFF;
    case V_ILLEGAL: {
        const bool below = o <= u && o + t_max(t) <= u;
        /* memory (or the fill mark, for a decoder bounded by it) ends exactly
         * behind the maximum: the cut-off class applies too (see judge_string) */
        const bool at_end = r.ill_at_end || o + t_max(t) == u;
        if (rc >= 0 || (below && !r.ill_overflow && !at_end && rc == -ENODATA)) {
            mc_fail("C14/no-terminator-illegal",
                    "%s: %zu octets without terminator at offset %zu (size=%zu used=%zu), buffer decoder returned %d", TN[t],
                    t_max(t), o, size, u, rc);
            return -1;
        }
        return DO_ILLEGAL;
    }
    case V_OK:
        break;
    }
    const bool below = o <= u && o + r.count <= u;
    if (rc < 0) {
        if (below && r.canonical) {
            mc_fail("C14/roundtrip-buffer",
                    "%s: the unread part of the descriptor (size=%zu used=%zu offset=%zu) starts with the %zu-octet encoding of "
                    "0x%llx: rc=%d",
                    TN[t], size, u, o, r.count, (unsigned long long)r.value, rc);
            return -1;
        }
        return DO_REFUSED;
    }
    if ((size_t)rc != r.count || b->offset != o + r.count || (r.canonical && got != r.value)) {
        mc_fail("C14/roundtrip-buffer",
                "%s: the %zu-octet encoding of 0x%llx at offset %zu (size=%zu used=%zu): rc=%d value=0x%llx offset=%zu", TN[t],
                r.count, (unsigned long long)r.value, o, size, u, rc, (unsigned long long)got, b->offset);
        return -1;
    }
    return DO_OK;
}

static void
family_dechist(void)
{
    const unsigned maxpre = mc_thorough() ? 3 : 2;
    for (int tp = 0; tp < NTYPES; ++tp) {
        const struct bstr *part = tp < T_U64 ? PART32 : PART64;
        for (int tt = 0; tt < NTYPES; ++tt) {
            const size_t tmax = t_max(tt);
            /* tails: nothing; 1..max-1 continuation octets (80.. / ff..); the three parts; max continuation octets */
            const unsigned ntails = 1 + 2 * (unsigned)(tmax - 1) + 3 + 1;
            for (unsigned k = 0; k <= maxpre; ++k) {
                unsigned total = 1;
                for (unsigned j = 0; j < k; ++j)
                    total *= 3;
                for (unsigned comb = 0; comb < total; ++comb)
                    for (unsigned ti = 0; ti < ntails; ++ti) {
                        unsigned char stream[48];
                        size_t n = 0;
                        unsigned r = comb;
                        for (unsigned j = 0; j < k; ++j) {
                            memcpy(stream + n, part[r % 3].s, part[r % 3].n);
                            n += part[r % 3].n;
                            r /= 3;
                        }
                        const size_t pren = n;
                        if (ti == 0) {
                        } else if (ti <= 2 * (tmax - 1)) {
                            const size_t c = (ti + 1) / 2;
                            memset(stream + n, (ti & 1) ? 0x80 : 0xff, c);
                            n += c;
                        } else if (ti <= 2 * (tmax - 1) + 3) {
                            const struct bstr *tp3 = tt < T_U64 ? PART32 : PART64;
                            const struct bstr *q = &tp3[ti - 2 * (tmax - 1) - 1];
                            memcpy(stream + n, q->s, q->n);
                            n += q->n;
                        } else {
                            memset(stream + n, 0x80, tmax);
                            n += tmax;
                        }
                        if (n == 0)
                            continue; /* a ByteBuffer cannot have size 0 */
                        /* flavours: filled, space, partly with every 0 < used < size */
                        for (size_t used = 0; used <= n; ++used)
                            for (unsigned arena = 0; arena < 2; ++arena) {
                                if (!mc_would_run()) {
                                    mc_skip_case();
                                    continue;
                                }
                                const int fl = used == n ? DF_FILLED : used == 0 ? DF_SPACE : DF_PARTLY;
                                char hex[3 * 48 + 1];
                                hex_text(stream, n, hex);
                                if (!mc_case("dechist memory=[%s] (%zu octets, %s), descriptor %s used=%zu offset=0: decode %u "
                                             "varints as %s (%zu octets), then the rest as %s",
                                             hex, n, arena ? "followed by 16 octets 01 in the same block" : "exact-size block",
                                             DFN[fl], used, k, TN[tp], pren, TN[tt]))
                                    continue;
                                unsigned char *mem = mc_exact(n + (arena ? 16 : 0));
                                memcpy(mem, stream, n);
                                if (arena)
                                    memset(mem + n, 0x01, 16);
                                ByteBuffer b;
                                const int src = fl == DF_FILLED ? byte_buffer_use(&b, mem, n)
                                    : fl == DF_SPACE            ? byte_buffer_space(&b, mem, n)
                                                                : byte_buffer_set(&b, mem, n, used, 0);
                                if (src < 0)
                                    mc_broken("byte buffer set-up refused size=%zu used=%zu offset=0", n, used);
                                int res = DO_OK;
                                unsigned done = 0;
                                for (unsigned j = 0; j < k && res == DO_OK; ++j) {
                                    res = dechist_step(tp, &b, mem, n, "varint");
                                    if (res == DO_OK)
                                        done++;
                                }
                                if (res == DO_OK && done == k)
                                    res = dechist_step(tt, &b, mem, n, "rest");
                                /* a second attempt on a cut-off rest: nothing was consumed, so nothing changes */
                                if (res == DO_CUTOFF)
                                    res = dechist_step(tt, &b, mem, n, "rest again");
                                free(mem);
                                mc_end(done >= 1 && res == DO_CUTOFF, res < 0 ? "dechist-failed" : DH_OUT[fl][res]);
                            }
                    }
            }
        }
    }
}

/* ---- decoding in place: the result object lives inside the buffer's memory ------------------- */

/* The decoders take a plain pointer for the result: a caller that unpacks a
 * record in place hands in a result object inside the memory that is being
 * decoded.  The round trip sentence ("decoding it returns the same value and
 * consumes exactly those octets") is checked for every placement of an aligned
 * result object that does NOT overlap the encoding.  Placements over the
 * encoding's head, tail or inside it are run and logged but not judged (audit
 * 5: the statement says nothing about the result aliasing the input; a decoder
 * that clears *n on entry and accumulates directly into it is admissible).
 * Only canonical encodings are used; nothing is demanded of the buffer's
 * content afterwards. */
static inline int
lib_decode_at(int t, ByteBuffer *b, void *res)
{
    switch (t) {
    case T_U32: return varint_decode_u32(b, res);
    case T_S32: return varint_decode_s32(b, res);
    case T_U64: return varint_decode_u64(b, res);
    default: return varint_decode_s64(b, res);
    }
}

static inline int
lib_from_source_at(int t, Source *s, void *res)
{
    switch (t) {
    case T_U32: return varint_u32_from_source(s, res);
    case T_S32: return varint_s32_from_source(s, res);
    case T_U64: return varint_u64_from_source(s, res);
    default: return varint_s64_from_source(s, res);
    }
}

static const uint64_t IV32[] = { 0, 1, 0x7f, 0x80, 1234, 0x3fff, 0x4000, 0x1fffff, 0x200000, 0xfffffff, 0x10000000,
                                 0x80000000ull, 0xffffffffull };
static const uint64_t IV64[] = { 0, 1, 0x7f, 0x80, 1234, 0x3fff, 0x4000, 0x1fffff, 0x200000, 0xfffffff, 0x10000000,
                                 0x80000000ull, 0xffffffffull, (1ull << 35) - 1, 1ull << 35, (1ull << 42) - 1, 1ull << 42,
                                 (1ull << 49) - 1, 1ull << 49, (1ull << 56) - 1, 1ull << 56, 0x0123456789abcdefull,
                                 (1ull << 63) - 1, 1ull << 63, ~0ull };

static void
family_inplace(void)
{
    for (int t = 0; t < NTYPES; ++t) {
        const bool w32 = t < T_U64;
        const size_t w = w32 ? 4 : 8, tot = 3 * w + (w32 ? 4 : 0); /* 16 resp. 24 octets */
        const uint64_t *vals = w32 ? IV32 : IV64;
        const size_t nvals = w32 ? sizeof IV32 / sizeof *IV32 : sizeof IV64 / sizeof *IV64;
        for (int d = 0; d < 3; d += 2) /* buffer decoder, buffer-backed source */
            for (size_t vi = 0; vi < nvals; ++vi) {
                unsigned char want[10];
                const size_t len = ref_enc(vals[vi], want);
                for (size_t pre = 0; pre + len <= tot; ++pre)
                    for (size_t rp = 0; rp + w <= tot; rp += w) {
                        if (!mc_case("inplace %s %s decoder: block of %zu octets, encoding of 0x%llx (%zu octets) at %zu, "
                                     "result object at %zu",
                                     TN[t], DN[d], tot, (unsigned long long)vals[vi], len, pre, rp))
                            continue;
                        unsigned char *blk = mc_exact(tot);
                        if ((uintptr_t)blk % 8u != 0)
                            mc_broken("heap block not aligned for a 64-bit result object");
                        stale_fill(blk, tot);
                        memcpy(blk + pre, want, len);
                        ByteBuffer b;
                        if (byte_buffer_set(&b, blk, tot, tot, pre) < 0)
                            mc_broken("byte_buffer_set refused");
                        int rc;
                        if (d == 0) {
                            rc = lib_decode_at(t, &b, blk + rp);
                        } else {
                            Source src;
                            source_from_buffer(&src, &b);
                            rc = lib_from_source_at(t, &src, blk + rp);
                        }
                        mc_trans(1);
                        uint64_t got = 0;
                        if (w32) {
                            uint32_t g32;
                            memcpy(&g32, blk + rp, 4);
                            got = g32;
                        } else {
                            memcpy(&got, blk + rp, 8);
                        }
                        const size_t consumed = b.offset - pre;
                        mc_log("rc=%d value=0x%llx consumed=%zu", rc, rc >= 0 ? (unsigned long long)got : 0ull, consumed);
                        const bool overlap = rp < pre + len && pre < rp + w;
                        const bool exact = rc >= 0 && (size_t)rc == len && got == vals[vi] && consumed == len;
                        if (overlap) {
                            /* observation only (audit 5): the statement has no sentence about a
                             * result object that aliases the octets being decoded */
                            mc_log("observation: result object overlaps the encoding; round trip %s", exact ? "exact" : "NOT exact "
                                   "(not judged: the statement says nothing about the result aliasing the input)");
                        } else if (!exact)
                            mc_fail(d == 0 ? "C14/roundtrip-buffer" : "C14/roundtrip-source",
                                    "%s: %s decoder on the %zu-octet encoding of 0x%llx at octet %zu of a %zu-octet buffer, result "
                                    "stored at octet %zu of the same memory (not overlapping the encoding): rc=%d value=0x%llx "
                                    "consumed=%zu",
                                    TN[t], DN[d], len, (unsigned long long)vals[vi], pre, tot, rp, rc,
                                    rc >= 0 ? (unsigned long long)got : 0ull, consumed);
                        free(blk);
                        mc_end(!overlap && len >= 2, overlap ? "inplace-overlapping" : "inplace-disjoint");
                    }
            }
    }
}

/* ---- sinks that encode while they are being written to ---------------------------------------- */

/* A stacked sink (record framing, tee, sequence numbering): while its driver
 * holds the chunk it was handed and before it stores it, it encodes a varint of
 * its own to a sink below.  Both calls are encodings in the statement's sense:
 * each has to deliver the minimal form of its value.
 *
 * That demands RE-ENTRANCY of the sink encoders, on which the statement has no
 * sentence (a `static` scratch array in varint_*_to_sink encodes every value
 * correctly into every sink that does not call back into the library).  The
 * family is therefore gated: a start-up probe (nested_probe) runs every (outer
 * type, inner type, sink kind) combination with and, where that goes wrong,
 * without the inner call; if an encoding is only wrong when the driver encodes
 * too, the cases are numbered but not run (class nested-not-run, a cap, exit 0)
 * -- never a violation. */
struct nsink {
    bool quiet;          /* probe: the driver does not call the library */
    int t_in;
    uint64_t v_in;
    bool v_is_len;       /* the inner value is the length of the chunk in hand */
    unsigned char got[32];
    size_t n;
    unsigned char in[160];
    size_t in_n;
    Sink inner;
    unsigned calls;
    bool inner_bad;
    int inner_rc;
    uint64_t inner_v;
};

static ssize_t
nsink_inner_put(void *drv, const void *p, size_t n)
{
    struct nsink *s = drv;
    for (size_t i = 0; i < n; ++i) {
        if (s->in_n < sizeof s->in)
            s->in[s->in_n] = ((const unsigned char *)p)[i];
        s->in_n++;
    }
    return (ssize_t)n;
}

static void
nsink_nested(struct nsink *s, size_t chunk_len)
{
    if (s->quiet)
        return;
    const uint64_t v = s->v_is_len ? (uint64_t)chunk_len : s->v_in;
    unsigned char want[10];
    const size_t len = ref_enc(v, want);
    const size_t n0 = s->in_n;
    const int rc = lib_to_sink(s->t_in, &s->inner, v);
    mc_trans(1);
    if (!s->inner_bad
        && (rc < 0 || s->in_n - n0 != len || s->in_n > sizeof s->in || memcmp(s->in + n0, want, len) != 0)) {
        s->inner_bad = true;
        s->inner_rc = rc;
        s->inner_v = v;
    }
}

static ssize_t
nsink_put_chunk(void *drv, const void *p, size_t n)
{
    struct nsink *s = drv;
    s->calls++;
    nsink_nested(s, n);
    for (size_t i = 0; i < n; ++i) {
        if (s->n < sizeof s->got)
            s->got[s->n] = ((const unsigned char *)p)[i];
        s->n++;
    }
    return (ssize_t)n;
}

static int
nsink_put_octet(void *drv, unsigned char c)
{
    struct nsink *s = drv;
    s->calls++;
    nsink_nested(s, 1);
    if (s->n < sizeof s->got)
        s->got[s->n] = c;
    s->n++;
    return 1;
}

/* one outer encode; returns 0 both minimal, 1 the inner encoding was not, 2 the outer one was not */
static int
nested_run(int t, uint64_t v, int octet, int ti, uint64_t vin, bool v_is_len, bool quiet, struct nsink *s, int *rc_out)
{
    memset(s, 0, sizeof *s);
    s->quiet = quiet;
    s->t_in = ti;
    s->v_in = vin;
    s->v_is_len = v_is_len;
    chunk_sink_init(&s->inner, nsink_inner_put, s);
    Sink outer;
    if (octet)
        octet_sink_init(&outer, nsink_put_octet, s);
    else
        chunk_sink_init(&outer, nsink_put_chunk, s);
    unsigned char want[10];
    const size_t len = ref_enc(v, want);
    const int rc = lib_to_sink(t, &outer, v);
    *rc_out = rc;
    if (s->inner_bad)
        return 1;
    if (rc < 0 || s->n != len || memcmp(s->got, want, len) != 0)
        return 2;
    return 0;
}

/* Is varint_*_to_sink re-entrant?  Every (outer type, inner type, sink kind) x
 * outer values {0x80, all-ones} x inner values {length of the chunk in hand,
 * 1234, all-ones}: wrong with the inner call and right without it = not
 * re-entrant.  Runs outside any case, in every process. */
static bool
nested_probe(void)
{
    for (int t = 0; t < NTYPES; ++t)
        for (int ti = 0; ti < NTYPES; ++ti)
            for (int octet = 0; octet < 2; ++octet)
                for (int vo = 0; vo < 2; ++vo)
                    for (int vi = 0; vi < 3; ++vi) {
                        const uint64_t v = vo ? t_mask(t) : 0x80;
                        const uint64_t vin = (vi == 1 ? 1234 : ~0ull) & t_mask(ti);
                        struct nsink s;
                        int rc;
                        if (nested_run(t, v, octet, ti, vin, vi == 0, false, &s, &rc) != 0
                            && nested_run(t, v, octet, ti, vin, vi == 0, true, &s, &rc) == 0)
                            return false;
                    }
    return true;
}

static void
family_nested_sinks(void)
{
    static const uint64_t V32[] = { 0, 0x7f, 0x80, 1234, 0x1ffff, 0x0fffffff, 0x80000000ull, 0xffffffffull };
    static const uint64_t V64[] = { 0, 0x7f, 0x80, 1234, 0x1ffff, 0x123456789abcull, 0x7fffffffffffffffull,
                                    0x8000000000000000ull, ~0ull };
    static const uint64_t INNER[5] = { 0 /* the chunk's length */, 0, 0x7f, 1234, ~0ull };
    const bool was_active = mc.active;
    mc.active = false; /* the probe belongs to no case: no transition counts */
    const bool runnable = nested_probe();
    mc.active = was_active;
    if (!runnable)
        mc_cap("varint_*_to_sink is not re-entrant (an encoding is only wrong when the sink's driver encodes a varint itself): "
               "nested cases not run");
    for (int t = 0; t < NTYPES; ++t) {
        const bool w32 = t < T_U64;
        const uint64_t *vals = w32 ? V32 : V64;
        const size_t nvals = w32 ? sizeof V32 / sizeof *V32 : sizeof V64 / sizeof *V64;
        for (int ti = 0; ti < NTYPES; ++ti)
            for (int octet = 0; octet < 2; ++octet)
                for (size_t vi = 0; vi < nvals; ++vi)
                    for (unsigned ii = 0; ii < 5; ++ii) {
                        const uint64_t vin = INNER[ii] & t_mask(ti);
                        if (!mc_case("nested %s 0x%llx to a %s sink whose driver, before it stores what it is handed, encodes %s "
                                     "0x%llx%s to a sink below",
                                     TN[t], (unsigned long long)vals[vi], octet ? "octet" : "chunk", TN[ti],
                                     (unsigned long long)vin, ii == 0 ? " (the length of the chunk in hand instead)" : ""))
                            continue;
                        if (!runnable) {
                            mc_log("not run: the start-up probe found an encoding that is only wrong when the sink's driver "
                                   "encodes a varint itself (the encoders are not re-entrant; the statement does not say they are)");
                            mc_end(false, "nested-not-run");
                            continue;
                        }
                        struct nsink s;
                        unsigned char want[10];
                        const size_t len = ref_enc(vals[vi], want);
                        int rc;
                        const int verdict = nested_run(t, vals[vi], octet, ti, vin, ii == 0, false, &s, &rc);
                        mc_trans(1);
                        mc_log("outer rc=%d, %zu octets in %u driver calls; %zu octets reached the sink below", rc, s.n, s.calls,
                               s.in_n);
                        mc_log_hex("  outer sink stored", s.got, s.n <= sizeof s.got ? s.n : sizeof s.got);
                        mc_log_hex("  minimal form", want, len);
                        if (verdict == 1)
                            mc_fail("C14/encode-minimal-sink",
                                    "%s: encoding 0x%llx to a sink from inside the driver of a sink that is being encoded to: rc=%d, "
                                    "not the minimal form",
                                    TN[ti], (unsigned long long)s.inner_v, s.inner_rc);
                        else if (verdict == 2)
                            mc_fail("C14/encode-minimal-sink",
                                    "%s: encoding 0x%llx to a sink whose driver encodes a varint of its own to another sink before "
                                    "it stores what it was handed: rc=%d, %zu octets stored that %s the minimal form of %zu octets",
                                    TN[t], (unsigned long long)vals[vi], rc, s.n, s.n == len ? "differ from" : "are not", len);
                        mc_end(len >= 2, octet ? "nested-octet-sink" : "nested-chunk-sink");
                    }
    }
}

/* ---- large windows -------------------------------------------------------------------------- */

/* A lazily mapped, never reserved region of WIN_MAX octets that ends in front
 * of an inaccessible page.  A buffer of `size` octets is the last `size` octets
 * of the region, so its memory really has that size and really ends there; only
 * the pages a case writes to are ever materialised.  The region is all zero
 * between cases. */
#define WIN_MAX ((1ull << 33) + (1ull << 16))
static unsigned char *win_end;

static void
window_init(void)
{
    const size_t pg = (size_t)sysconf(_SC_PAGESIZE);
    unsigned char *m = mmap(NULL, WIN_MAX + pg, PROT_READ | PROT_WRITE, MAP_PRIVATE | MAP_ANONYMOUS | MAP_NORESERVE, -1, 0);
    if (m == MAP_FAILED)
        mc_broken("cannot map the %llu-octet window region", (unsigned long long)WIN_MAX);
    if (mprotect(m + WIN_MAX, pg, PROT_NONE) != 0)
        mc_broken("cannot protect the page behind the window region");
    win_end = m + WIN_MAX;
}

static size_t
boundary_family(uint64_t *out, bool small_too)
{
    static const unsigned P[6] = { 7, 8, 15, 16, 31, 32 };
    size_t n = 0;
    if (small_too)
        for (uint64_t r = 1; r <= 11; ++r)
            out[n++] = r;
    for (unsigned i = 0; i < 6; ++i) {
        const uint64_t b = 1ull << P[i];
        out[n++] = b - 2;
        out[n++] = b - 1;
        for (uint64_t k = 0; k <= 11; ++k)
            out[n++] = b + k;
    }
    out[n++] = 3ull << 30;
    return n;
}

static const struct bstr WSTR[] = {
    { { 0x00 }, 1 }, { { 0x7f }, 1 }, { { 0xd2, 0x09 }, 2 }, { { 0xff, 0xff, 0x03 }, 3 },
    { { 0xff, 0xff, 0xff, 0xff, 0x0f }, 5 }, { { C5, 0x01 }, 6 }, { { FF5, 0xff, 0xff, 0xff, 0x7f }, 9 },
    { { FF5, 0xff, 0xff, 0xff, 0xff, 0x01 }, 10 }, { { C5, C5, 0x01 }, 11 }, { { 0x80, 0x80, 0x00 }, 3 },
};
static const uint64_t WOFF[] = { 0, 1, 3, 127, 128, 255, 256, 65535, 65536, (1ull << 31) - 1, 1ull << 31, (1ull << 31) + 1,
                                 (1ull << 32) - 1, 1ull << 32, (1ull << 32) + 1, (1ull << 32) + 5 };

static void
family_windows(void)
{
    uint64_t rest[128];
    const size_t nrest = boundary_family(rest, true);
    const size_t noff = sizeof WOFF / sizeof *WOFF;
    /* decoders: a string at `offset`, `rest` octets of memory from there on */
    for (size_t si = 0; si < sizeof WSTR / sizeof *WSTR; ++si)
        for (size_t oi = 0; oi < noff; ++oi)
            for (size_t ri = 0; ri < nrest; ++ri) {
                if (!mc_would_run()) {
                    mc_skip_case();
                    continue;
                }
                const uint64_t off = WOFF[oi], r = rest[ri], size = off + r;
                char hex[3 * 12 + 1];
                hex_text(WSTR[si].s, WSTR[si].n, hex);
                if (!mc_case("window size=%llu offset=%llu (%llu octets follow the offset) s=[%s] then zeros",
                             (unsigned long long)size, (unsigned long long)off, (unsigned long long)r, hex))
                    continue;
                unsigned char *data = win_end - size;
                /* what a decoder can see: the string, cut by the end of the memory, zeros behind it */
                unsigned char eff[12];
                memset(eff, 0, sizeof eff);
                memcpy(eff, WSTR[si].s, WSTR[si].n);
                const size_t effn = r < sizeof eff ? (size_t)r : sizeof eff;
                const size_t put = WSTR[si].n < r ? WSTR[si].n : (size_t)r;
                memcpy(data + off, WSTR[si].s, put);
                struct refdec r64 = { 0 };
                bool refused = false;
                for (int t = 0; t < NTYPES && !refused; ++t) {
                    const struct refdec rd = ref_dec(eff, effn, t);
                    if (t == T_U64)
                        r64 = rd;
                    mc_log("%s: reference verdict %s count=%zu value=0x%llx", TN[t],
                           rd.v == V_OK ? "ok" : rd.v == V_ILLEGAL ? "illegal" : "truncated", rd.count,
                           (unsigned long long)rd.value);
                    struct dobs o[3];
                    if (!run_decoders(t, data, (size_t)size, (size_t)off, o))
                        refused = true;
                    else
                        (void)judge_string(t, &rd, o);
                }
                memset(data + off, 0, put);
                if (refused) {
                    mc_end(false, "window-refused-big");
                    continue;
                }
                const bool big = r >= (1ull << 31) || off >= (1ull << 31);
                mc_end(size > 255, r64.v == V_TRUNC ? (big ? "window-cutoff-big" : "window-cutoff")
                           : r64.v == V_ILLEGAL     ? (big ? "window-illegal-big" : "window-illegal")
                           : big                    ? "window-ok-big"
                                                    : "window-ok");
            }
    /* encoders: read cursor at `offset`, fill mark there or at `offset + 3`, `room` octets behind the fill mark */
    uint64_t room[128];
    const size_t nroom = boundary_family(room, true);
    for (int t = 0; t < NTYPES; ++t) {
        const uint64_t *dv = t < T_U64 ? DV32 : DV64;
        for (size_t oi = 0; oi < noff; ++oi)
            for (unsigned gap = 0; gap <= 3; gap += 3)
                for (size_t ri = 0; ri < nroom; ++ri)
                    for (unsigned vi = 0; vi < 3; ++vi) {
                        const uint64_t off = WOFF[oi], used = off + gap, size = used + room[ri];
                        if (!mc_case("window %s encode 0x%llx on size=%llu used=%llu offset=%llu (%llu octets free), then decode",
                                     TN[t], (unsigned long long)dv[vi], (unsigned long long)size, (unsigned long long)used,
                                     (unsigned long long)off, (unsigned long long)room[ri]))
                            continue;
                        unsigned char *data = win_end - size;
                        /* stale content between cursor and fill mark */
                        for (unsigned g = 0; g < gap; ++g)
                            data[off + g] = (unsigned char)(0x91u + g);
                        ByteBuffer b;
                        if (byte_buffer_set(&b, data, (size_t)size, (size_t)used, (size_t)off) < 0) {
                            (void)setup_refused((size_t)size, (size_t)used, (size_t)off);
                            memset(data + off, 0, gap);
                            mc_end(false, "window-refused-big");
                            continue;
                        }
                        bool at_cursor = false;
                        const int e = encode_step(t, &b, data, (size_t)size, dv[vi], &at_cursor);
                        if (e == 1 && at_cursor)
                            (void)decode_step(t, &b, data, (size_t)size);
                        /* back to all zero: everything an encoder of either reading may have written */
                        const uint64_t span = gap + 10u < size - off ? gap + 10u : size - off;
                        memset(data + off, 0, (size_t)span);
                        const bool big = room[ri] >= (1ull << 31) || off >= (1ull << 31);
                        mc_end(size > 255, e < 0 ? "window-encode-failed" : e == 0 ? "window-encode-refused"
                                   : big                                          ? "window-encoded-big"
                                                                                  : "window-encoded");
                    }
    }
}

/* ---- anchors: the repository's own tables (test/t-varint.c) -------------------------- */

static void
anchor(int t, int64_t value, size_t octets, const unsigned char *expect)
{
    unsigned char out[10];
    const uint64_t bits = (uint64_t)value & t_mask(t);
    MC_ANCHOR(ref_len(bits) == octets, "reference length vs t-varint.c");
    MC_ANCHOR(ref_enc(bits, out) == octets, "reference encoder length vs t-varint.c");
    MC_ANCHOR(memcmp(out, expect, octets) == 0, "reference encoder octets vs t-varint.c");
    const struct refdec r = ref_dec(expect, octets, t);
    MC_ANCHOR(r.v == V_OK && r.count == octets && r.value == bits && r.canonical && !r.overflow,
              "reference decoder vs t-varint.c");
    if (octets > 1) {
        const struct refdec c = ref_dec(expect, octets - 1, t);
        MC_ANCHOR(c.v == V_TRUNC, "reference decoder on a cut-off table entry");
    }
}

static void
anchors(void)
{
    static const unsigned char u64max[10] = { 0xff, 0xff, 0xff, 0xff, 0xff, 0xff, 0xff, 0xff, 0xff, 0x01 };
    static const unsigned char zero[1] = { 0x00 };
    static const unsigned char v128[2] = { 0x80, 0x01 };
    static const unsigned char v1234[2] = { 0xd2, 0x09 };
    static const unsigned char s64max[9] = { 0xff, 0xff, 0xff, 0xff, 0xff, 0xff, 0xff, 0xff, 0x7f };
    static const unsigned char s64min[10] = { 0x80, 0x80, 0x80, 0x80, 0x80, 0x80, 0x80, 0x80, 0x80, 0x01 };
    static const unsigned char m128_64[10] = { 0x80, 0xff, 0xff, 0xff, 0xff, 0xff, 0xff, 0xff, 0xff, 0x01 };
    static const unsigned char m1234_64[10] = { 0xae, 0xf6, 0xff, 0xff, 0xff, 0xff, 0xff, 0xff, 0xff, 0x01 };
    static const unsigned char u32max[5] = { 0xff, 0xff, 0xff, 0xff, 0x0f };
    static const unsigned char s32max[5] = { 0xff, 0xff, 0xff, 0xff, 0x07 };
    static const unsigned char s32min[5] = { 0x80, 0x80, 0x80, 0x80, 0x08 };
    static const unsigned char m128_32[5] = { 0x80, 0xff, 0xff, 0xff, 0x0f };
    static const unsigned char m1234_32[5] = { 0xae, 0xf6, 0xff, 0xff, 0x0f };
    anchor(T_U64, -1, 10, u64max); /* UINT64_MAX */
    anchor(T_U64, 0, 1, zero);
    anchor(T_U64, 128, 2, v128);
    anchor(T_U64, 1234, 2, v1234);
    anchor(T_S64, INT64_MAX, 9, s64max);
    anchor(T_S64, INT64_MIN, 10, s64min);
    anchor(T_S64, -1, 10, u64max);
    anchor(T_S64, 128, 2, v128);
    anchor(T_S64, -128, 10, m128_64);
    anchor(T_S64, 1234, 2, v1234);
    anchor(T_S64, -1234, 10, m1234_64);
    anchor(T_U32, 0xffffffffll, 5, u32max);
    anchor(T_U32, 0, 1, zero);
    anchor(T_U32, 128, 2, v128);
    anchor(T_U32, 1234, 2, v1234);
    anchor(T_S32, INT32_MAX, 5, s32max);
    anchor(T_S32, INT32_MIN, 5, s32min);
    anchor(T_S32, -1, 5, u32max);
    anchor(T_S32, 128, 2, v128);
    anchor(T_S32, -128, 5, m128_32);
    anchor(T_S32, 1234, 2, v1234);
    anchor(T_S32, -1234, 5, m1234_32);
    /* the header's constants, which the statement quotes as 5 resp. 10 */
    MC_ANCHOR(VARINT_32BIT_MAX_OCTETS == 5u && VARINT_64BIT_MAX_OCTETS == 10u, "maximum lengths");
    /* verdict classes of the reference on hand-made strings */
    static const unsigned char c5[6] = { 0x80, 0x80, 0x80, 0x80, 0x80, 0x00 };
    MC_ANCHOR(ref_dec(c5, 6, T_U32).v == V_ILLEGAL && !ref_dec(c5, 6, T_U32).ill_overflow,
              "five continuation octets are illegal for 32 bit");
    static const unsigned char c5f[5] = { 0x80, 0x80, 0x80, 0x80, 0xff }, c5ok[5] = { 0x80, 0x80, 0x80, 0x80, 0x8f };
    MC_ANCHOR(ref_dec(c5f, 5, T_U32).v == V_ILLEGAL && ref_dec(c5f, 5, T_U32).ill_overflow,
              "unterminated and beyond 32 bit: two failure classes");
    MC_ANCHOR(ref_dec(c5ok, 5, T_U32).v == V_ILLEGAL && !ref_dec(c5ok, 5, T_U32).ill_overflow,
              "unterminated within 32 bit: one failure class");
    MC_ANCHOR(ref_dec(c5, 6, T_U64).v == V_OK && ref_dec(c5, 6, T_U64).count == 6
                  && !ref_dec(c5, 6, T_U64).canonical,
              "overlong zero for 64 bit");
    MC_ANCHOR(ref_dec(c5, 5, T_U64).v == V_TRUNC, "five continuation octets and the end are cut off for 64 bit");
    MC_ANCHOR(ref_dec(c5, 4, T_U32).v == V_TRUNC, "four continuation octets and the end are cut off for 32 bit");
}

int
main(int argc, char **argv)
{
    mc_init(argc, argv);
    anchors();
    pools_init();

    /* 1. structured values, one case each */
    family_values(32);
    family_values(64);

    /* 2. decoder inputs: strings in exact-size blocks */
    const size_t maxlen = mc_thorough() ? 11 : 8;
    family_strings(ALPHA6, 6, 1, maxlen, 0);
    if (!mc_thorough())
        family_strings(ALPHA3, 3, 9, 11, 0); /* reach the 64-bit maximum in the quick tier too */
    family_strings(ALPHA6, 6, 0, 5, 1); /* behind one consumed octet; includes the empty rest */
    family_strings(ALPHA6, 6, 0, 5, 3);

    /* 3. contiguous 32-bit values */
    if (mc_thorough()) {
        for (uint64_t c = 0; c < 4096; ++c)
            sweep32(c << 20, 1ull << 20);
        for (unsigned sh = 0; sh < 64; ++sh) {
            sweep64(sh, false);
            sweep64(sh, true);
        }
    } else {
        for (uint64_t c = 0; c < 32; ++c)
            sweep32(c << 12, 1ull << 12);
    }

    /* 4. descriptors that are not fresh */
    family_dirty();
    family_histories();
    family_dechist();

    /* 5. large windows */
    window_init();
    family_windows();

    /* 6. drivers that do not simply serve */
    family_sinkscripts();
    family_srcscripts();

    /* 7. result objects inside the buffer; sinks that encode while written to */
    family_inplace();
    family_nested_sinks();

    char bound[3200];
    snprintf(bound, sizeof bound,
             "32 bit: %s, plus the structured set (x<<s and ~(x<<s) for x<256, 2^k and 2^k+-1, one/two/all septet lanes "
             "over {00,01,40,7f}, octet lanes over {00,01,7f,80,ff}); 64 bit: the structured set%s; decoder input: "
             "every string of length 1..%zu over {00,01,7f,80,81,ff}%s, and of length 0..5 behind 1 and 3 consumed octets; "
             "reuse: one encode of {5,1234,max} on every (size,used,offset) for size in {max-1,max,max+1,max+2,2max,2max+3}, "
             "every history of 1..%u operations over {enc1,enc2,encmax,dec,repeat,seek-end,reset} on a fresh descriptor of "
             "size {max,2max,3max+1}; decode histories: every stream of 0..%u complete varints over {1 octet, 2 octets, maximum} "
             "followed by {nothing, 1..max-1 continuation octets 80/ff, a complete varint, max continuation octets}, as the memory "
             "of one descriptor (exact-size block, or followed by 16 octets 01) with every fill mark 0..size, decoded varint by "
             "varint (4 types) and then the rest (4 types); windows: 10 strings x 16 offsets (0,1,3, 2^7,2^8,2^16 and neighbours, 2^31-1..2^31+1, "
             "2^32-1..2^32+5) x 96 lengths behind the offset (1..11, 2^p-2..2^p+11 for p in 7,8,15,16,31,32, 3*2^30), "
             "encoders on the same offsets x fill mark at/3 behind the offset x the same 96 free lengths; scripts: source "
             "decoders (octet and chunk source, 13/14 strings per width) and sink encoders (octet sink, chunk sink taking all/1/2/3 "
             "per call, 8/9 values per width) with every placement of up to %u answers from {0,-EINTR,-EAGAIN,-EIO} among the "
             "driver calls of one varint, up to %u among those of every stream of 2 and 3 varints over {1 octet, 2 octets, "
             "maximum} through one Source/Sink; in place: buffer decoder and buffer-backed source on the encodings of 13/25 "
             "values per width at every position of a 16/24-octet buffer with the result object at every aligned position of "
             "the same memory (judged where the object does not overlap the encoding); nested: 8/9 values per type to an octet/chunk sink whose driver encodes {chunk length,0,7f,1234,"
             "max} of every type to a sink below before it stores what it was handed (run only when a start-up probe finds the sink "
             "encoders re-entrant)",
             mc_thorough() ? "all 2^32 values" : "all values < 2^17",
             mc_thorough() ? " plus odd*2^s and complements for every odd < 2^16 and every s" : "", maxlen,
             mc_thorough() ? "" : " and of length 9..11 over {00,7f,80}", mc_thorough() ? 4u : 3u, mc_thorough() ? 3u : 2u,
             mc_thorough() ? 3u : 2u,
             mc_thorough() ? 2u : 1u);
    mc_finish(true, bound);
    return 0;
}
