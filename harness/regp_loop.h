/*
 * regp_loop.h -- the serving loop that regp_recv()'s documentation prescribes
 * (src/register-protocol.c, comment in regp_recv), as a closed driver on top
 * of regp_ref.h:
 *
 *     RPMaybeFrame mf;                       one object, reused, never cleared
 *     for (;;) {
 *         rc = regp_recv(p, &mf);            rc < 0: "error handling", then go on
 *         rc = regp_process(p, &mf);
 *         regp_free(p, mf.frame);
 *     }
 *
 * plus what sessions of such rounds need: an allocator that hands the block
 * released last out again (slab / pool behaviour: stale contents stay in
 * place), a deterministic stand-in for the indeterminate first contents of the
 * RPMaybeFrame, and the set of frames a SLIP receiver may make of a damaged
 * octet stream.  Used by the C06 and C07 harnesses.  Nothing here is copied
 * from ufw.
 */
#ifndef VERIF_REGP_LOOP_H
#define VERIF_REGP_LOOP_H

#include "regp_ref.h"

/* The harnesses that use this header run millions of receptions, each of which
 * takes and releases one heap block.  ASan's default quarantine (256 MB per
 * process) makes that touch fresh pages all the time; 16 MB still keeps a
 * released block poisoned for tens of thousands of later allocations, far
 * longer than any session here lasts.  Options given in the environment
 * (engine/run.py) take precedence; it does not set this one. */
const char *__asan_default_options(void);
const char *
__asan_default_options(void)
{
    return "quarantine_size_mb=16";
}

/* ---- pool allocator --------------------------------------------------------------- */
#define LP_SLOTS 4
#define LP_POOLS 2

struct lp_pool {
    struct drv *owner;
    unsigned char *slot[LP_SLOTS];
    bool used[LP_SLOTS];
    int stack[LP_SLOTS]; /* free slots, last released on top */
    int nstack;
    size_t blocksize;
};
static struct lp_pool lp_pools[LP_POOLS];

static struct lp_pool *
lp_pool_of(struct drv *d)
{
    for (int i = 0; i < LP_POOLS; ++i)
        if (lp_pools[i].owner == d)
            return &lp_pools[i];
    return NULL;
}

static int
lp_pool_alloc(void *driver, void **m, size_t n)
{
    struct drv *d = driver;
    struct lp_pool *pl = lp_pool_of(d);
    const int k = d->allocs++;
    *m = NULL;
    if (d->fail_mask & (1u << (k > 31 ? 31 : k)))
        return -ENOMEM;
    if (pl == NULL || n > pl->blocksize || pl->nstack == 0 || d->nlive >= 8) {
        d->bad_frees += 100; /* more live blocks than any receiver of one frame at a time needs */
        return -ENOMEM;
    }
    const int s = pl->stack[--pl->nstack];
    pl->used[s] = true;
    *m = pl->slot[s]; /* contents are whatever the previous user left there */
    d->live[d->nlive++] = *m;
    return 0;
}

static void
lp_pool_free(void *driver, void *m)
{
    struct drv *d = driver;
    struct lp_pool *pl = lp_pool_of(d);
    for (int i = 0; i < d->nlive; ++i)
        if (d->live[i] == m) {
            d->live[i] = d->live[--d->nlive];
            d->frees++;
            for (int s = 0; pl != NULL && s < LP_SLOTS; ++s)
                if (pl->slot[s] == m && pl->used[s]) {
                    pl->used[s] = false;
                    pl->stack[pl->nstack++] = s;
                }
            return;
        }
    d->bad_frees++; /* double or foreign release */
}

/* switch driver d (after drv_init*) to the pool; `which` selects the pool object */
static void
lp_use_pool(struct drv *d, int which)
{
    struct lp_pool *pl = &lp_pools[which];
    for (int s = 0; s < LP_SLOTS; ++s) {
        if (pl->slot[s] == NULL || pl->blocksize != d->blocksize) {
            free(pl->slot[s]);
            pl->slot[s] = malloc(d->blocksize); /* exact size: ASan guards both ends of every slot */
        }
        memset(pl->slot[s], 0xcd, d->blocksize);
        pl->used[s] = false;
        pl->stack[s] = LP_SLOTS - 1 - s;
    }
    pl->nstack = LP_SLOTS;
    pl->owner = d;
    pl->blocksize = d->blocksize;
    d->alloc = (BlockAllocator)MAKE_GENERIC_BLOCKALLOC(d, lp_pool_alloc, lp_pool_free, d->blocksize);
}

/* Releases that were no release of a live block (a block released twice, or a
 * pointer the allocator never handed out).  How many blocks a receiver holds at
 * a time and when it gives them back is statement C09's sentence, not C06's or
 * C07's: those two only look at this.  (The drivers also add 100 to bad_frees
 * when more blocks are live than they can track; that is a count of live
 * blocks and is left out here.) */
static inline int
lp_bad_releases(const struct drv *d)
{
    return d->bad_frees % 100;
}

/* end of a case: forget live blocks (heap blocks are released, pool slots stay with the pool) */
static void
lp_release(struct drv *d)
{
    if (lp_pool_of(d) != NULL && d->alloc.alloc.generic == lp_pool_alloc) {
        d->nlive = 0;
        return;
    }
    drv_release(d);
}

/* ---- the caller's RPMaybeFrame ------------------------------------------------------ */

/* A deterministic stand-in for the indeterminate contents of `RPMaybeFrame mf;`
 * before the first regp_recv(): it designates a well-formed write request of
 * one word at address 0x00dec0de that was never received.  A receiver that
 * does not overwrite the object when reception fails makes the loop execute
 * (and release) it. */
#define LP_DECOY_ADDR 0x00dec0deu
static unsigned char lp_decoy_block[sizeof(RPFrame) + 16] __attribute__((aligned(16)));

static void
lp_decoy(RPMaybeFrame *mf, bool m16)
{
    memset(lp_decoy_block, 0, sizeof lp_decoy_block);
    RPFrame *f = (RPFrame *)lp_decoy_block;
    unsigned char *raw = lp_decoy_block + sizeof(RPFrame);
    const size_t ws = m16 ? 2 : 1;
    f->header.version = 0;
    f->header.type = RP_FRAME_WRITE_REQUEST;
    f->header.options = m16 ? RP_OPT_WORD_SIZE_16 : 0;
    f->header.meta.raw = 0;
    f->header.sequence = 0xdec0;
    f->header.address = LP_DECOY_ADDR;
    f->header.blocksize = 1;
    f->raw.memory = raw;
    f->raw.size = 12 + ws;
    f->payload.data = raw + 12;
    f->payload.size = ws;
    raw[12] = 0xde;
    raw[13] = 0xc0;
    memset(mf, 0, sizeof *mf);
    mf->frame = f;
}

/* ---- one round of the documented loop ---------------------------------------------------- */
struct lp_result {
    int rrc, prc, errid;
    bool hadframe;
    int calls;        /* backend calls of this round; they are d->call[call0 ...] */
    int call0;
    size_t out0, out1; /* reply octets of this round: d->out[out0, out1) */
};

static void
lp_round(struct drv *d, RPMaybeFrame *mf, struct lp_result *r)
{
    r->out0 = d->outlen;
    r->call0 = d->ncalls;
    r->rrc = regp_recv(&d->p, mf);
    r->errid = mf->error.id;
    r->hadframe = mf->frame != NULL;
    r->prc = regp_process(&d->p, mf);
    regp_free(&d->p, mf->frame);
    r->calls = d->ncalls - r->call0;
    r->out1 = d->outlen;
}

/* ---- what a SLIP receiver may make of a damaged octet stream -------------------------------- */

/* RFC 1055 leaves the treatment of ESC followed by an octet that is neither
 * ESC_END nor ESC_ESC to the receiver ("protocol violation"); so does
 * doc/regp.txt.  lp_slip_may_be_valid() walks every reading: keep the octet,
 * drop it, abandon the frame and resume at the offending octet / behind it /
 * behind the next END, deliver what was collected so far; the same for a
 * stream that ends without END.  It reports whether *any* frame of *any*
 * reading is valid by the reference (then the damage is undetectable in
 * principle and the case is not judged). */
static bool lp_found_valid;
static int lp_readings;

static void
lp_emit(const unsigned char *acc, size_t k)
{
    struct rframe f;
    lp_readings++;
    if (rr_verdict(acc, k, &f) & RV_OK)
        lp_found_valid = true;
}

static void
lp_walk(const unsigned char *w, size_t n, size_t i, const unsigned char *acc0, size_t k0, int depth)
{
    unsigned char acc[RR_MAXFRAME];
    size_t k = k0;
    if (k0)
        memcpy(acc, acc0, k0);
    while (i < n && !lp_found_valid) {
        const unsigned char b = w[i];
        if (b == 0xc0) {
            lp_emit(acc, k);
            k = 0;
            i++;
        } else if (b == 0xdb) {
            if (i + 1 >= n) {
                lp_emit(acc, k); /* stream ends inside an escape */
                return;
            }
            const unsigned char c = w[i + 1];
            if (c == 0xdc || c == 0xdd) {
                if (k < sizeof acc)
                    acc[k++] = c == 0xdc ? 0xc0 : 0xdb;
                i += 2;
                continue;
            }
            if (depth >= 3) {
                lp_found_valid = true; /* too many violations to walk: do not judge */
                return;
            }
            /* deliver what was collected, resume at the offending octet, behind it, behind the next END */
            lp_emit(acc, k);
            lp_walk(w, n, i + 1, NULL, 0, depth + 1);
            lp_walk(w, n, i + 2, NULL, 0, depth + 1);
            {
                size_t j = i + 1;
                while (j < n && w[j] != 0xc0)
                    j++;
                if (j < n)
                    lp_walk(w, n, j + 1, NULL, 0, depth + 1);
            }
            /* drop the pair and go on */
            lp_walk(w, n, i + 2, acc, k, depth + 1);
            /* keep the octet and go on */
            if (k < sizeof acc)
                acc[k++] = c;
            i += 2;
            depth++;
        } else {
            if (k < sizeof acc)
                acc[k++] = b;
            i++;
        }
    }
    if (k)
        lp_emit(acc, k); /* stream ran dry inside a frame */
}

static bool
lp_slip_may_be_valid(const unsigned char *wire, size_t n)
{
    lp_found_valid = false;
    lp_readings = 0;
    lp_walk(wire, n, 0, NULL, 0, 0);
    return lp_found_valid;
}

#endif /* VERIF_REGP_LOOP_H */
