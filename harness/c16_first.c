/*
 * C16 -- CRC-16/ARC, call histories from a fresh process.
 *
 * The statement quantifies over every octet sequence and every starting value,
 * not over "every call after some other call has been made".  c16_crc.c runs
 * thousands of cases per process, so anything the library sets up on first use
 * (a generated table, a cached flag) is set up by whatever case happens to run
 * first in a shard.  This harness owns that dimension: the process that
 * enumerates never calls a checksum function itself.  Every case forks; the
 * child's first library calls are exactly the history of the case, it writes
 * the results into a pipe and leaves with _exit(); the parent compares them
 * with the bit-serial reference.
 *
 * Enumerated space: all histories of length 1..3 over the four entry points
 *   A ufw_crc16_arc(init, octets, n)      B ufw_buffer_crc16_arc(octets, n)
 *   W ufw_crc16_arc_u16(init, words, n)   Z ufw_buffer_crc16_arc_u16(words, n)
 * (4 + 16 + 64 = 84 histories) x input rows {content} x {length} x {init}; the
 * k-th call of a history uses the row's content rotated by k so that calls of
 * one history do not repeat each other's arguments.  Numbering never depends
 * on what ufw returns.
 *
 * Second family (gather lists, see family_seglists below): a running checksum
 * continued over 1..3 parts of which any may be empty (valid pointer: judged;
 * null pointer: observed only).
 */
#include "mc.h"

#include <errno.h>
#include <sys/wait.h>

#include <ufw/crc/crc16-arc.h>

/* ---- reference (same definition as in c16_crc.c, kept separate on purpose) -- */

static inline uint16_t
ref_octet(uint16_t reg, unsigned octet)
{
    for (int k = 0; k < 8; ++k) {
        const unsigned in = (octet >> k) & 1u;
        const unsigned out = reg & 1u;
        reg >>= 1;
        if (out ^ in)
            reg ^= 0xA001u;
    }
    return reg;
}

static uint16_t
ref_buf(uint16_t reg, const unsigned char *p, size_t n)
{
    for (size_t i = 0; i < n; ++i)
        reg = ref_octet(reg, p[i]);
    return reg;
}

static void
anchors(void)
{
    MC_ANCHOR(ref_buf(0, (const unsigned char *)"123456789", 9) == 0xBB3Du,
              "reference: check value for \"123456789\" from 0 must be 0xBB3D");
    static const unsigned char h1[12] = { 0x03, 0x00, 0x00, 0x00, 0x00, 0x00, 0x00, 0x64, 0x00, 0x00, 0x00, 0x01 };
    MC_ANCHOR(ref_buf(0, h1, 12) == 0x0cb4u, "reference: t-register-protocol.c header checksum 0cb4");
    MC_ANCHOR(CRC16_ARC_INITIAL == 0, "doc/regp.txt: the initial value is zero");
}

/* ---- the alphabet ------------------------------------------------------------ */

enum fn { FN_A, FN_B, FN_W, FN_Z, NFN };
static const char fnletter[NFN] = { 'A', 'B', 'W', 'Z' };
static const char *const fnname[NFN] = { "ufw_crc16_arc", "ufw_buffer_crc16_arc", "ufw_crc16_arc_u16",
                                         "ufw_buffer_crc16_arc_u16" };

enum content { CT_RAMP, CT_HIGH, CT_SPARSE, NCT };
static const char *const ctname[NCT] = { "ramp(1234+0301*i)", "ff80", "0100-then-zeros" };

#define MAXWORDS 9
static const size_t LENS[] = { 0, 1, 2, 7, 9 };     /* in words; the octet functions get 2*len octets */
#define NLENS ((int)(sizeof LENS / sizeof LENS[0]))
static const uint16_t INITS[] = { 0x0000, 0xffff, 0x8e9d };
#define NINITS ((int)(sizeof INITS / sizeof INITS[0]))

static void
fill_words(uint16_t *w, size_t len, enum content ct, unsigned rot)
{
    for (size_t i = 0; i < len; ++i) {
        const size_t k = i + rot;
        switch (ct) {
        case CT_RAMP: w[i] = (uint16_t)(0x1234u + 0x0301u * k); break;
        case CT_HIGH: w[i] = (k & 1u) ? 0x80ffu : 0xff80u; break;
        default: w[i] = (i == 0) ? (uint16_t)(0x0100u << (rot & 3u)) : 0x0000u; break;
        }
    }
}

/* What the k-th call of a history is applied to. */
struct call {
    enum fn fn;
    uint16_t init;       /* ignored by B and Z (they start from zero) */
    size_t len;          /* words */
    uint16_t words[MAXWORDS];
};

static uint16_t
call_reference(const struct call *c)
{
    unsigned char img[2 * MAXWORDS + 1];
    memcpy(img, c->words, 2 * c->len);
    const uint16_t init = (c->fn == FN_B || c->fn == FN_Z) ? 0x0000 : c->init;
    return ref_buf(init, img, 2 * c->len);
}

/* Runs in the child: exact-size blocks, the library calls in order. */
static void
child_run(const struct call *calls, int ncalls, int fd)
{
    uint16_t results[3] = { 0, 0, 0 };
    for (int k = 0; k < ncalls; ++k) {
        const struct call *c = &calls[k];
        uint16_t *blk = malloc(2 * c->len);   /* exact size; malloc alignment suits uint16_t */
        if (c->len != 0 && blk == NULL)
            _exit(3);
        if (c->len != 0)
            memcpy(blk, c->words, 2 * c->len);
        switch (c->fn) {
        case FN_A: results[k] = ufw_crc16_arc(c->init, blk, 2 * c->len); break;
        case FN_B: results[k] = ufw_buffer_crc16_arc(blk, 2 * c->len); break;
        case FN_W: results[k] = ufw_crc16_arc_u16(c->init, blk, c->len); break;
        default: results[k] = ufw_buffer_crc16_arc_u16(blk, c->len); break;
        }
        free(blk);
    }
    const ssize_t w = write(fd, results, sizeof results);
    _exit(w == (ssize_t)sizeof results ? 0 : 3);
}

static const char *
first_outcome(enum fn f)
{
    switch (f) {
    case FN_A: return "first-call-octets-continue";
    case FN_B: return "first-call-octets-from-zero";
    case FN_W: return "first-call-words-continue";
    default: return "first-call-words-from-zero";
    }
}

static void
history_case(const enum fn *hist, int ncalls, enum content ct, int li, int ii)
{
    char letters[4] = { 0, 0, 0, 0 };
    for (int k = 0; k < ncalls; ++k)
        letters[k] = fnletter[hist[k]];
    if (!mc_case("fresh-process history=%s (A=arc B=buffer_arc W=arc_u16 Z=buffer_arc_u16) content=%s words=%zu init=%04x",
                 letters, ctname[ct], LENS[li], INITS[ii]))
        return;
    struct call calls[3];
    memset(calls, 0, sizeof calls);
    for (int k = 0; k < ncalls; ++k) {
        calls[k].fn = hist[k];
        calls[k].init = INITS[(ii + k) % NINITS];
        calls[k].len = LENS[li];
        fill_words(calls[k].words, calls[k].len, ct, (unsigned)k);
    }
    int pfd[2];
    if (pipe(pfd) != 0)
        mc_broken("pipe failed");
    fflush(NULL);
    const pid_t pid = fork();
    if (pid < 0)
        mc_broken("fork failed");
    if (pid == 0) {
        close(pfd[0]);
        child_run(calls, ncalls, pfd[1]);
    }
    close(pfd[1]);
    uint16_t results[3] = { 0, 0, 0 };
    size_t have = 0;
    while (have < sizeof results) {
        const ssize_t r = read(pfd[0], (unsigned char *)results + have, sizeof results - have);
        if (r < 0 && errno == EINTR)
            continue; /* the runtime's 1 s watchdog tick */
        if (r <= 0)
            break;
        have += (size_t)r;
    }
    close(pfd[0]);
    int status = 0;
    while (waitpid(pid, &status, 0) < 0)
        if (errno != EINTR)
            mc_broken("waitpid failed");
    mc_trans(ncalls);
    if (have != sizeof results || !WIFEXITED(status) || WEXITSTATUS(status) != 0) {
        if (WIFEXITED(status) && WEXITSTATUS(status) == 3)
            mc_broken("child could not allocate or report");
        /* the child did not get through its calls (sanitizer report, signal) */
        mc_fail("C16/fresh-process-is-crc16-arc",
                "history %s in a fresh process did not return: child %s %d", letters,
                WIFSIGNALED(status) ? "killed by signal" : "left with status",
                WIFSIGNALED(status) ? WTERMSIG(status) : WEXITSTATUS(status));
    } else {
        for (int k = 0; k < ncalls; ++k) {
            const uint16_t want = call_reference(&calls[k]);
            mc_log("call %d: %s(init=%04x, %zu words) = %04x, reference %04x", k + 1, fnname[calls[k].fn],
                   (calls[k].fn == FN_B || calls[k].fn == FN_Z) ? 0 : calls[k].init, calls[k].len, results[k], want);
            if (results[k] != want) {
                mc_fail("C16/fresh-process-is-crc16-arc",
                        "call %d of history %s in a fresh process: %s over %zu words (%zu octets) from 0x%04x = 0x%04x, "
                        "CRC-16/ARC of the octet image is 0x%04x", k + 1, letters, fnname[calls[k].fn], calls[k].len,
                        2 * calls[k].len, (calls[k].fn == FN_B || calls[k].fn == FN_Z) ? 0 : calls[k].init, results[k],
                        want);
                break;
            }
        }
    }
    mc_end(LENS[li] > 0, LENS[li] > 0 ? first_outcome(hist[0]) : "first-call-empty");
}

/* ---- gather lists: a running checksum continued over a list of parts ---------
 *
 * "checksumming a concatenation equals continuing the checksum of the first
 * part over the second" -- for every octet sequence, the empty one included.
 * An absent part of a gather list is spelled {valid pointer, 0}: that is the
 * empty sequence, and continuing over it has to return the running value.
 * The spelling {NULL, 0} is run too but only observed (audit 6): a null pointer
 * designates no octet sequence at all, the statement has no sentence about it,
 * and "a NULL buffer is an argument error, the initial value is returned"
 * (zlib's convention) is ordinary.  Every list of 1..3 parts over {data, empty
 * with a valid pointer, empty with a null pointer} is run through the two
 * continuing functions, in a forked child like the histories above; every call
 * is judged from the running value it was given, so the parts behind a null
 * part are still decided.
 *
 * A child that does not come back from a list with a null part is not judged
 * either (class segments-null-trapped). */

enum seg { SG_DATA, SG_EMPTY, SG_NULL, NSG };
static const char sgletter[NSG] = { 'D', 'E', 'N' };
#define SEGWORDS 3 /* at most 1 + 2 + 1 words of data in a list of three parts */

struct seglist {
    enum fn fn;           /* FN_A or FN_W */
    uint16_t init;
    int nparts;
    enum seg kind[3];
    size_t len[3];        /* words */
    size_t total;         /* words */
    uint16_t words[2 * SEGWORDS];
};

static void
seg_child(const struct seglist *l, int fd)
{
    uint16_t results[3] = { 0, 0, 0 };
    uint16_t *blk = malloc(2 * l->total); /* exact size; malloc(0) is a valid, fully poisoned block */
    if (blk == NULL)
        _exit(3);
    if (l->total)
        memcpy(blk, l->words, 2 * l->total);
    uint16_t reg = l->init;
    size_t at = 0;
    for (int k = 0; k < l->nparts; ++k) {
        const uint16_t *p = l->kind[k] == SG_NULL ? NULL : blk + at;
        if (l->fn == FN_A)
            reg = ufw_crc16_arc(reg, p, 2 * l->len[k]);
        else
            reg = ufw_crc16_arc_u16(reg, p, l->len[k]);
        results[k] = reg;
        at += l->len[k];
    }
    free(blk);
    const ssize_t w = write(fd, results, sizeof results);
    _exit(w == (ssize_t)sizeof results ? 0 : 3);
}

static void
seglist_case(enum fn fn, const enum seg *kind, int nparts, enum content ct, int ii)
{
    char letters[4] = { 0, 0, 0, 0 };
    bool has_null = false, has_empty = false, has_data = false;
    for (int k = 0; k < nparts; ++k) {
        letters[k] = sgletter[kind[k]];
        has_null |= kind[k] == SG_NULL;
        has_empty |= kind[k] == SG_EMPTY;
        has_data |= kind[k] == SG_DATA;
    }
    if (!mc_case("fresh-process gather-list fn=%s parts=%s (D=data E=empty,valid pointer N=empty,null pointer) content=%s "
                 "init=%04x",
                 fnname[fn], letters, ctname[ct], INITS[ii]))
        return;
    struct seglist l;
    memset(&l, 0, sizeof l);
    l.fn = fn;
    l.init = INITS[ii];
    l.nparts = nparts;
    for (int k = 0; k < nparts; ++k) {
        l.kind[k] = kind[k];
        l.len[k] = kind[k] == SG_DATA ? (size_t)(k % 2) + 1u : 0u;
        l.total += l.len[k];
    }
    fill_words(l.words, l.total, ct, 0);
    int pfd[2];
    if (pipe(pfd) != 0)
        mc_broken("pipe failed");
    fflush(NULL);
    const pid_t pid = fork();
    if (pid < 0)
        mc_broken("fork failed");
    if (pid == 0) {
        close(pfd[0]);
        seg_child(&l, pfd[1]);
    }
    close(pfd[1]);
    uint16_t results[3] = { 0, 0, 0 };
    size_t have = 0;
    while (have < sizeof results) {
        const ssize_t r = read(pfd[0], (unsigned char *)results + have, sizeof results - have);
        if (r < 0 && errno == EINTR)
            continue;
        if (r <= 0)
            break;
        have += (size_t)r;
    }
    close(pfd[0]);
    int status = 0;
    while (waitpid(pid, &status, 0) < 0)
        if (errno != EINTR)
            mc_broken("waitpid failed");
    mc_trans(nparts);
    const char *outcome = has_null ? "segments-with-null" : has_empty ? "segments-with-empty" : "segments-data-only";
    if (have != sizeof results || !WIFEXITED(status) || WEXITSTATUS(status) != 0) {
        if (WIFEXITED(status) && WEXITSTATUS(status) == 3)
            mc_broken("child could not allocate or report");
        mc_log("child did not return: %s %d", WIFSIGNALED(status) ? "killed by signal" : "left with status",
               WIFSIGNALED(status) ? WTERMSIG(status) : WEXITSTATUS(status));
        if (has_null)
            outcome = "segments-null-trapped";
        else
            mc_fail("C16/fresh-process-is-crc16-arc", "gather list %s through %s in a fresh process did not return: child %s %d",
                    letters, fnname[fn], WIFSIGNALED(status) ? "killed by signal" : "left with status",
                    WIFSIGNALED(status) ? WTERMSIG(status) : WEXITSTATUS(status));
    } else {
        unsigned char img[4 * SEGWORDS + 1];
        memcpy(img, l.words, 2 * l.total);
        size_t at = 0;
        uint16_t before = l.init;
        for (int k = 0; k < nparts; ++k) {
            /* every call is judged from the running value it was really given
             * (what the previous call returned), so that a part that is only
             * observed does not decide the parts behind it */
            const uint16_t want = ref_buf(before, img + 2 * at, 2 * l.len[k]);
            at += l.len[k];
            mc_log("part %d (%c, %zu words): running value %04x -> %04x, reference %04x", k + 1, letters[k], l.len[k], before,
                   results[k], want);
            if (results[k] != want) {
                if (kind[k] == SG_NULL) {
                    /* observation, not a verdict (audit 6): a null pointer
                     * designates no octet sequence, not even the empty one */
                    mc_log("  null part: the running value was not kept (not judged; e.g. the convention \"a NULL buffer "
                           "returns the initial value\")");
                } else {
                    mc_fail("C16/concatenation-continues",
                            "gather list %s through %s from 0x%04x: part %d (%s, %zu octets) continued from the running value "
                            "0x%04x returned 0x%04x, CRC-16/ARC continued over these octets is 0x%04x",
                            letters, fnname[fn], l.init, k + 1, kind[k] == SG_DATA ? "data" : "empty, valid pointer",
                            2 * l.len[k], before, results[k], want);
                    break;
                }
            }
            before = results[k];
        }
    }
    mc_end(has_data, outcome);
}

static void
family_seglists(void)
{
    static const enum fn fns[2] = { FN_A, FN_W };
    for (int nparts = 1; nparts <= 3; ++nparts) {
        int total = 1;
        for (int k = 0; k < nparts; ++k)
            total *= NSG;
        for (int h = 0; h < total; ++h) {
            enum seg kind[3] = { SG_DATA, SG_DATA, SG_DATA };
            int x = h;
            for (int k = nparts - 1; k >= 0; --k) {
                kind[k] = (enum seg)(x % NSG);
                x /= NSG;
            }
            for (int fi = 0; fi < 2; ++fi)
                for (int ct = 0; ct < 2; ++ct)
                    for (int ii = 0; ii < NINITS; ++ii)
                        seglist_case(fns[fi], kind, nparts, (enum content)ct, ii);
        }
    }
}

int
main(int argc, char **argv)
{
    mc_init(argc, argv);
    anchors();
    for (int ncalls = 1; ncalls <= 3; ++ncalls) {
        int total = 1;
        for (int k = 0; k < ncalls; ++k)
            total *= NFN;
        for (int h = 0; h < total; ++h) {
            enum fn hist[3] = { FN_A, FN_A, FN_A };
            int x = h;
            for (int k = ncalls - 1; k >= 0; --k) {
                hist[k] = (enum fn)(x % NFN);
                x /= NFN;
            }
            for (int ct = 0; ct < NCT; ++ct)
                for (int li = 0; li < NLENS; ++li)
                    for (int ii = 0; ii < NINITS; ++ii)
                        history_case(hist, ncalls, (enum content)ct, li, ii);
        }
    }
    family_seglists();
    mc_finish(true, "all 84 histories of 1..3 calls over the 4 entry points, each in a freshly forked process that has "
                    "made no checksum call before; x 3 contents x word counts {0,1,2,7,9} x 3 initial values; all 39 gather "
                    "lists of 1..3 parts over {data, empty with a valid pointer, empty with a null pointer (observed, not judged)} "
                    "continued through ufw_crc16_arc and ufw_crc16_arc_u16 x 2 contents x 3 initial values");
    return 0;
}
