/*
 * C07 -- corrupted frames are never executed nor acknowledged.
 *
 * Part 1 (fault space, serial): corpus of valid frames of every type x
 * semantics x payload length x content, built by the reference encoder.
 * Faults on the raw frame (then SLIP-encoded): every single-bit flip; every
 * two-bit flip inside the protected fields (octets >= 2); every burst = every
 * bit pattern of span 2..16 with first and last bit set, at every bit offset
 * >= 16, bits numbered in line transmission order (least significant bit of
 * each octet first); every truncation; extensions by 1..3 octets.
 * Part 2 (generated space, both transports): version x type x all option bits
 * x meta x declared/actual header length x payload length {0,n-1,n,n+1} x each
 * checksum right/wrong.
 * Oracle: the receiver's verdict is in the reference verdict set of
 * regp_ref.h; a frame whose reference verdict is not "valid" is never
 * executed, never acknowledged, and answered as the statement prescribes.
 */
#include "mc.h"
#include "regp_ref.h"

#define BLOCKSIZE 256

static struct drv D;
static bool g_th;

static void
drv_reset(struct drv *d, bool m16)
{
    d->allocs = d->frees = d->bad_frees = 0;
    d->ncalls = 0;
    d->outlen = 0;
    d->src_calls = 0;
    d->overrun = false;
    d->verdict = RP_RESP_ACK;
    if (d->m16 != m16) {
        d->m16 = m16;
        if (m16)
            regp_use_memory16(&d->p, drv_r16, drv_w16);
        else
            regp_use_memory8(&d->p, drv_r8, drv_w8);
    }
}

static unsigned
impl_verdict(int errid)
{
    switch (errid) {
    case 0: return RV_OK;
    case EBADMSG: return RV_BADHDR;
    case EILSEQ: return RV_BADHDRCRC;
    case EFAULT: return RV_BADSIZE;
    case EPROTO: return RV_BADPLCRC;
    default: return 0;
    }
}

static const char *
vname(unsigned v)
{
    switch (v) {
    case RV_OK: return "valid";
    case RV_BADHDR: return "bad-header-encoding";
    case RV_BADHDRCRC: return "bad-header-checksum";
    case RV_BADSIZE: return "implausible-payload-size";
    case RV_BADPLCRC: return "bad-payload-checksum";
    case 0: return "other-error";
    default: return "(set)";
    }
}

static long n_detected[6], n_valid, n_skipped_valid;
static int g_escape_mode; /* 0: skip+count reference-valid corrupted frames; 1: skip silently (bursts, case A); 2: run ONLY those (bursts, case B) */
static long n_escaped;

/* Feed raw frame X (n octets) over the given transport; check the receiver
 * against the reference.  `fault` describes the case for the failure text;
 * corrupted=true demands that the frame is not taken as valid unless the
 * reference itself finds it valid (then it is counted and skipped). */
static bool
run_frame(bool tcp, const unsigned char *X, size_t n, bool corrupted, const char *fault)
{
    unsigned char wire[2 * 600 + 16], scratch[DRV_WIRE];
    struct rframe rf;
    unsigned vset = rr_verdict(X, n, &rf);
    if (n == 0 && tcp)
        return true; /* a zero length prefix is a channel matter, not a frame */
    /* transport-mandated option bits: the document could be read as making a
     * violation a header encoding error; the receiver may take either view */
    if (vset & RV_OK) {
        const bool mand_ok = tcp ? !(rf.options & (RO_HDCRC | RO_PLCRC))
                                 : ((rf.options & RO_HDCRC) && (((rf.options & RO_PLCRC) != 0) == (rf.plen != 0)));
        if (!mand_ok)
            vset |= RV_BADHDR;
    }
    if (corrupted && g_escape_mode == 2 && !(vset & RV_OK))
        return true;
    if (corrupted && (vset & RV_OK) && g_escape_mode != 2) {
        if (g_escape_mode == 0)
            n_skipped_valid++;
        if (getenv("C07_DEBUG")) {
            fprintf(stderr, "SKIPPED-VALID %s: %s len=%zu:", mc.desc, fault, n);
            for (size_t i = 0; i < n; ++i)
                fprintf(stderr, " %02x", X[i]);
            fprintf(stderr, "\n");
        }
        return true; /* undetectable by the protocol itself */
    }
    const size_t wn = tcp ? rr_lenprefix(wire, X, n) : rr_slip(wire, X, n);
    const bool m16 = (rf.options & RO_W16) != 0; /* attach matching memory: execution must be prevented by the verdict alone */
    drv_reset(&D, m16);
    D.p.ep.type = tcp ? RP_EP_TCP : RP_EP_SERIAL;
    drv_feed(&D, wire, wn);
    RPMaybeFrame mf;
    memset(&mf, 0, sizeof mf);
    const int rrc = regp_recv(&D.p, &mf);
    const int errid = mf.error.id;
    const size_t reply_after_recv = D.outlen;
    int prc = 0;
    if (rrc >= 0)
        prc = regp_process(&D.p, &mf);
    if (mf.frame != NULL)
        regp_free(&D.p, mf.frame);
    mc_trans(3);
    const unsigned iv = impl_verdict(errid);
    if (mc.verbose && mc.active) {
        mc_log("%s: recv rc=%d error.id=%d (%s) process rc=%d calls=%d reply=%zu octets; reference verdict set=%02x", fault, rrc, errid, vname(iv), prc,
               D.ncalls, D.outlen, vset);
        mc_log_hex("frame", X, n);
        mc_log_hex("reply", D.out, D.outlen);
    }
    if (corrupted && g_escape_mode == 2) {
        n_escaped++;
        if (iv == RV_OK) {
            mc_fail("C07/burst-escapes-checksum", "%s: the corrupted frame is valid under doc/regp.txt's checksum layout and was accepted%s", fault,
                    D.ncalls ? " and executed" : "");
            return false;
        }
        return true;
    }
    if (rrc < 0 && iv <= RV_OK) {
        /* the classification is observed in error.id; a receiver may in
         * addition report the fault through its return value */
        mc_fail("C07/receiver-classifies", "%s: regp_recv returned %d with error.id=%d instead of classifying the frame", fault, rrc, errid);
        return false;
    }
    if (!(iv & vset)) {
        /* name the most telling clause */
        const char *cl = (iv == RV_OK && (vset & RV_BADPLCRC)) ? "C07/payload-checksum-verified"
            : (iv == RV_OK && (vset & RV_BADSIZE)) ? "C07/payload-size-verified"
            : (iv == RV_OK && (vset & RV_BADHDRCRC)) ? "C07/header-checksum-verified"
            : (iv == RV_OK) ? "C07/header-encoding-verified"
            : (vset & RV_OK) ? "C07/valid-frame-accepted" : "C07/verdict-class";
        mc_fail(cl, "%s: receiver says %s (error.id=%d); an independent reading of the document says %s%s", fault, vname(iv), errid,
                vname(vset & -vset), (vset & (vset - 1)) ? " (or alternatives)" : "");
        return false;
    }
    /* decode what was sent back */
    struct rr_frames fr;
    const int nfr = rr_unframe(tcp, D.out, D.outlen, scratch, &fr);
    struct rframe reply[8];
    bool acked = false;
    for (int i = 0; i < nfr; ++i) {
        const unsigned rv = rr_verdict(scratch + fr.off[i], fr.len[i], &reply[i]);
        if (!rr_reply_ok(rv, &reply[i])) {
            mc_fail("C07/reply-well-formed", "%s: reply frame %d is not a valid frame", fault, i);
            return false;
        }
        if ((reply[i].type == RT_READ_RESP || reply[i].type == RT_WRITE_RESP) && reply[i].meta == 0)
            acked = true;
    }
    if (nfr < 0) {
        mc_fail("C07/reply-well-formed", "%s: the reply octets are not a sequence of frames", fault);
        return false;
    }
    if (iv == RV_OK) {
        n_valid++;
        return true; /* executing valid frames is C06's subject */
    }
    n_detected[iv == RV_BADHDR ? 0 : iv == RV_BADHDRCRC ? 1 : iv == RV_BADSIZE ? 2 : 3]++;
    if (D.ncalls != 0) {
        mc_fail("C07/never-executed", "%s: a frame classified %s caused %d memory accesses", fault, vname(iv), D.ncalls);
        return false;
    }
    if (acked) {
        mc_fail("C07/never-acknowledged", "%s: a frame classified %s was acknowledged", fault, vname(iv));
        return false;
    }
    if (iv == RV_BADHDR || iv == RV_BADHDRCRC) {
        const unsigned want = iv == RV_BADHDR ? 1 : 2;
        (void)reply_after_recv; /* whether reception or processing sends it is not part of the statement */
        if (nfr != 1 || reply[0].type != RT_META || reply[0].meta != want) {
            mc_fail("C07/header-fault-meta-reply", "%s: %s must be answered by reception with exactly one meta message %u; got %d frames (first: type %u code %u)", fault,
                    vname(iv), want, nfr, nfr > 0 ? reply[0].type : 99, nfr > 0 ? reply[0].meta : 99);
            return false;
        }
    } else {
        const bool isreq = rf.type == RT_READ_REQ || rf.type == RT_WRITE_REQ;
        if (!isreq) {
            if (D.outlen != 0) {
                mc_fail("C07/payload-fault-reply", "%s: a non-request with a payload fault was answered (%zu octets)", fault, D.outlen);
                return false;
            }
        } else {
            const unsigned want = iv == RV_BADSIZE ? 3 : 2;
            if (nfr != 1 || reply[0].type != (rf.type == RT_READ_REQ ? RT_READ_RESP : RT_WRITE_RESP) || reply[0].meta != want
                || reply[0].seq != rf.seq || reply[0].addr != rf.addr || reply[0].plen != 0) {
                mc_fail("C07/payload-fault-reply", "%s: a request classified %s must be answered with one response code %u echoing seq/address; got %d frames (first: type %u code %u)",
                        fault, vname(iv), want, nfr, nfr > 0 ? reply[0].type : 99, nfr > 0 ? reply[0].meta : 99);
                return false;
            }
        }
    }
    if (!drv_balanced(&D)) {
        mc_fail("C07/ledger", "%s: allocator ledger unbalanced", fault);
        return false;
    }
    return true;
}

/* ---- corpus ------------------------------------------------------------------------ */
struct cframe {
    unsigned char raw[64];
    size_t n;
    char name[48];
};
static struct cframe corpus[384];
static int ncorpus;

static void
make_corpus(void)
{
    static const unsigned types[] = { RT_READ_REQ, RT_READ_RESP, RT_WRITE_REQ, RT_WRITE_RESP, RT_META };
    static const char *tn[] = { "read-req", "read-resp", "write-req", "write-resp", "meta" };
    static const size_t lens[] = { 0, 1, 2, 3, 8 };
    for (unsigned ti = 0; ti < 5; ++ti)
        for (int w16 = 0; w16 < 2; ++w16)
            for (unsigned li = 0; li < 5; ++li)
                for (int content = 0; content < 3; ++content) {
                    const unsigned t = types[ti];
                    const bool haspl = (t == RT_READ_RESP || t == RT_WRITE_REQ || t == RT_WRITE_RESP);
                    if (t == RT_META && (w16 || li || content))
                        continue;
                    if (!haspl && content)
                        continue;
                    /* write responses: the acknowledgement (no payload) and EUNMAPPED with the
                     * four octets doc 3.1.8 prescribes, in octet semantics */
                    const bool wr_err = t == RT_WRITE_RESP && li == 1;
                    if (t == RT_WRITE_RESP && (li > 1 || (wr_err && w16)))
                        continue;
                    if (lens[li] == 0 && content)
                        continue;
                    if (!g_th && lens[li] == 3 && w16)
                        continue; /* quick keeps the odd octet counts 1 and 3 of 8-bit frames */
                    struct cframe *c = &corpus[ncorpus++];
                    unsigned char pl[16];
                    const size_t plen = wr_err ? 4 : haspl ? lens[li] * (w16 ? 2u : 1u) : 0;
                    for (size_t i = 0; i < plen; ++i)
                        pl[i] = content == 2 ? 0 /* all-zero payload: its CRC-16/ARC is 0000 */ : content ? (unsigned char)(0xc0 + 0x1b * i) : (unsigned char)(i + 1);
                    struct rframe f;
                    memset(&f, 0, sizeof f);
                    f.type = t;
                    f.meta = t == RT_META ? 1 : (t == RT_WRITE_RESP && plen) ? 7 : 0;
                    f.options = (w16 && !(t == RT_WRITE_RESP && plen) ? RO_W16 : 0) | RO_HDCRC | (plen ? RO_PLCRC : 0);
                    f.seq = t == RT_META ? 0 : 0x1234;
                    f.addr = t == RT_META ? 0 : 0x00c00064;
                    f.bsize = t == RT_META ? 0 : (t == RT_WRITE_RESP && plen) ? (uint32_t)plen : (uint32_t)lens[li];
                    f.payload = pl;
                    f.plen = plen;
                    c->n = rr_build(c->raw, &f, false, false);
                    snprintf(c->name, sizeof c->name, "%s%s len=%zu content=%d", tn[ti], w16 ? "16" : "8", wr_err ? (size_t)4 : lens[li], content);
                    struct rframe chk;
                    if (rr_verdict(c->raw, c->n, &chk) != RV_OK) /* exactly: no fault, no alternative reading */
                        mc_broken("corpus frame %s is not valid by the reference", c->name);
                }
}

static inline void
flipbit(unsigned char *x, size_t t)
{
    x[t >> 3] ^= (unsigned char)(1u << (t & 7)); /* transmission order: LSB of each octet first */
}

static const char *
outcome_of(bool ok)
{
    if (!ok)
        return "failed";
    int classes = 0;
    for (int i = 0; i < 4; ++i)
        classes += n_detected[i] > 0;
    return classes >= 3 ? "detected-3+classes" : classes == 2 ? "detected-2classes" : classes == 1 ? "detected-1class" : "nothing-detected";
}

static void
reset_counts(void)
{
    memset(n_detected, 0, sizeof n_detected);
    n_valid = 0;
}

static void
part1(void)
{
    char fd[160];
    for (int ci = 0; ci < ncorpus; ++ci) {
        const struct cframe *c = &corpus[ci];
        const size_t nbits = c->n * 8;
        unsigned char x[80];
        /* the unmodified frame is taken as valid */
        if (mc_case("corpus#%d %s unmodified", ci, c->name)) {
            reset_counts();
            bool ok = run_frame(false, c->raw, c->n, false, "unmodified");
            if (ok && n_valid != 1) {
                mc_fail("C07/valid-frame-accepted", "the unmodified corpus frame was not accepted");
                ok = false;
            }
            mc_end(true, ok ? "valid-accepted" : "failed");
        }
        /* single-bit flips, every octet */
        if (mc_case("corpus#%d %s every single-bit flip (%zu)", ci, c->name, nbits)) {
            reset_counts();
            bool ok = true;
            for (size_t t = 0; t < nbits && ok; ++t) {
                memcpy(x, c->raw, c->n);
                flipbit(x, t);
                snprintf(fd, sizeof fd, "bit %zu flipped", t);
                ok = run_frame(false, x, c->n, true, fd);
            }
            mc_end(true, outcome_of(ok));
        }
        /* two-bit flips inside the protected fields */
        for (size_t t1 = 16; t1 < nbits; ++t1) {
            if (!mc_case("corpus#%d %s two-bit flips, first bit %zu", ci, c->name, t1))
                continue;
            reset_counts();
            bool ok = true;
            for (size_t t2 = t1 + 1; t2 < nbits && ok; ++t2) {
                memcpy(x, c->raw, c->n);
                flipbit(x, t1);
                flipbit(x, t2);
                snprintf(fd, sizeof fd, "bits %zu and %zu flipped", t1, t2);
                ok = run_frame(false, x, c->n, true, fd);
            }
            mc_end(t1 + 1 < nbits, outcome_of(ok));
        }
        /* bursts: case A = every burst the reference finds invalid; case B =
         * the bursts that doc/regp.txt's checksum layout itself cannot detect
         * (the checksum fields travel most significant octet first, so a burst
         * straddling data and checksum field is not a burst of the cyclic
         * code).  B's numbering does not depend on the implementation. */
        for (size_t o = 16; o + 2 <= nbits; ++o)
            for (int mode = 1; mode <= 2; ++mode) {
                if (!mc_case("corpus#%d %s %s at bit offset %zu", ci, c->name, mode == 1 ? "bursts" : "escaping bursts", o))
                    continue;
                reset_counts();
                n_escaped = 0;
                g_escape_mode = mode;
                bool ok = true;
                for (unsigned span = 2; span <= 16 && o + span <= nbits; ++span) {
                    const unsigned inner = span - 2;
                    const bool all = g_th || span <= 9;
                    const uint32_t npat = all ? (1u << inner) : 1;
                    for (uint32_t pi = 0; pi < npat && (ok || mode == 2); ++pi) {
                        const uint32_t mid = all ? pi : ((1u << inner) - 1); /* quick, long spans: the solid run */
                        const uint32_t pat = 1u | (mid << 1) | (1u << (span - 1));
                        memcpy(x, c->raw, c->n);
                        for (unsigned b = 0; b < span; ++b)
                            if (pat & (1u << b))
                                flipbit(x, o + b);
                        snprintf(fd, sizeof fd, "burst span %u pattern %04x at bit %zu", span, pat, o);
                        ok = run_frame(false, x, c->n, true, fd) && ok;
                    }
                }
                g_escape_mode = 0;
                if (mode == 1)
                    mc_end(true, outcome_of(ok));
                else
                    mc_end(n_escaped > 0, !ok ? "failed" : n_escaped ? "escaping-burst-rejected" : "no-escaping-burst");
            }
        /* truncations and extensions */
        if (mc_case("corpus#%d %s every truncation and extension", ci, c->name)) {
            reset_counts();
            bool ok = true;
            for (size_t len = 0; len < c->n && ok; ++len) {
                snprintf(fd, sizeof fd, "truncated to %zu octets", len);
                ok = run_frame(false, c->raw, len, true, fd);
            }
            static const unsigned char ext[3] = { 0x00, 0xff, 0xc0 };
            for (int k = 1; k <= 3 && ok; ++k)
                for (int e = 0; e < 3 && ok; ++e) {
                    memcpy(x, c->raw, c->n);
                    for (int i = 0; i < k; ++i)
                        x[c->n + (size_t)i] = ext[e];
                    snprintf(fd, sizeof fd, "extended by %d octets %02x", k, ext[e]);
                    ok = run_frame(false, x, c->n + (size_t)k, true, fd);
                }
            mc_end(true, outcome_of(ok));
        }
    }
}

static void
part2(void)
{
    static const unsigned versions[] = { 0, 1, 15 };
    char fd[200];
    for (int tcp = 0; tcp < 2; ++tcp)
        for (unsigned vi = 0; vi < 3; ++vi)
            for (unsigned type = 0; type < 16; ++type)
                for (unsigned opt = 0; opt < 16; ++opt) {
                    if (!mc_case("generated %s version=%u type=%u options=%x x meta x block size x payload length x checksums x header cut", tcp ? "tcp" : "serial",
                                 versions[vi], type, opt))
                        continue;
                    reset_counts();
                    bool ok = true;
                    for (unsigned meta = 0; meta < 16 && ok; ++meta) {
                        if (versions[vi] != 0 && meta > 1)
                            continue;
                        for (unsigned bi = 0; bi < 8 && ok; ++bi)
                            for (int dl = -1; dl <= 1 && ok; ++dl)
                                for (int brk = 0; brk < 4 && ok; ++brk) {
                                    /* block sizes 0..2 and sizes whose octet count wraps in 32 bits */
                                    static const uint32_t BS[8] = { 0, 1, 2, 0x80000000u, 0x80000001u, 0x80000002u, 0xffffffffu, 0x7fffffffu };
                                    const uint32_t bs = BS[bi];
                                    const size_t ws = (opt & RO_W16) ? 2 : 1;
                                    const bool declares_payload = !(type == RT_READ_REQ || type == RT_META);
                                    /* for the huge sizes the payload carries what a 32-bit product would announce */
                                    const long want = declares_payload ? (long)(uint32_t)(bs * (uint32_t)ws) : 0;
                                    if (bi >= 3 && (want > 8 || !declares_payload))
                                        continue;
                                    const long plen = want + dl;
                                    if (plen < 0)
                                        continue;
                                    if ((brk & 1) && !(opt & RO_HDCRC))
                                        continue;
                                    if ((brk & 2) && !((opt & RO_PLCRC) && plen > 0))
                                        continue;
                                    unsigned char pl[16], raw[64];
                                    for (long i = 0; i < plen; ++i)
                                        pl[i] = (unsigned char)(0x51 + 3 * i);
                                    struct rframe f;
                                    memset(&f, 0, sizeof f);
                                    f.version = versions[vi];
                                    f.type = type;
                                    f.options = opt;
                                    f.meta = meta;
                                    f.seq = 0x0102;
                                    f.addr = 0x64;
                                    f.bsize = bs;
                                    f.payload = pl;
                                    f.plen = (size_t)plen;
                                    const size_t n = rr_build(raw, &f, brk & 1, (brk & 2) != 0);
                                    snprintf(fd, sizeof fd, "meta=%u bsize=%u payload=%ld octets (32-bit product %ld) hdcrc=%s plcrc=%s", meta, bs, plen, want,
                                             (brk & 1) ? "wrong" : "right", (brk & 2) ? "wrong" : "right");
                                    ok = run_frame(tcp, raw, n, false, fd);
                                    /* header cut short of its declared checksum words */
                                    if (ok && dl == 0 && brk == 0 && plen == 0 && bi == 0)
                                        for (size_t cut = 10; cut < n && ok; ++cut) {
                                            snprintf(fd, sizeof fd, "meta=%u header cut to %zu octets", meta, cut);
                                            ok = run_frame(tcp, raw, cut, false, fd);
                                        }
                                }
                    }
                    mc_end(true, !ok ? "failed" : n_valid == 0 ? outcome_of(true) : (n_detected[0] + n_detected[1] + n_detected[2] + n_detected[3]) ? "valid-and-invalid" : "all-valid");
                }
}

int
main(int argc, char **argv)
{
    mc_init(argc, argv);
    g_th = mc_thorough();
    MC_ANCHOR(rr_crc(0, (const unsigned char *)"123456789", 9) == 0xbb3d, "CRC check value");
    {
        /* anchors: wire images of t-register-protocol.c are valid by the reference */
        static const unsigned char a[] = { 0x03, 0x00, 0x00, 0x00, 0x00, 0x00, 0x00, 0x64, 0x00, 0x00, 0x00, 0x01, 0x0c, 0xb4 };
        static const unsigned char b[] = { 0x07, 0x10, 0x00, 0x00, 0x00, 0x00, 0x00, 0x64, 0x00, 0x00, 0x00, 0x01, 0x8e, 0x9d, 0xc0, 0x2a, 0x64, 0x00 };
        static const unsigned char c[] = { 0x01, 0x10, 0x00, 0x00, 0x00, 0x00, 0x00, 0x64, 0x00, 0x00, 0x00, 0x01, 0x64, 0x00 };
        struct rframe f;
        MC_ANCHOR(rr_verdict(a, sizeof a, &f) == RV_OK, "serial read request");
        MC_ANCHOR(rr_verdict(b, sizeof b, &f) == RV_OK && f.plen == 2, "serial read response");
        MC_ANCHOR(rr_verdict(c, sizeof c, &f) == RV_OK && f.plen == 2, "tcp read response");
    }
    make_corpus();
    drv_init(&D, false, true, BLOCKSIZE, true);
    part1();
    part2();
    drv_release(&D);
    if (mc.only < 0 && n_skipped_valid > 0)
        mc_cap("%ld corrupted frames were valid by the reference itself (undetectable, skipped)", n_skipped_valid);
    char bound[300];
    snprintf(bound, sizeof bound, "%d corpus frames x (all 1-bit flips, all 2-bit flips in octets>=2, all bursts of span 2..%s at every bit offset >= 16 in transmission order, all truncations, 9 extensions); generated: 2 transports x 3 versions x 16 types x 16 option patterns x 16 meta x block size {0,1,2, sizes wrapping in 32 bits} x payload length {n-1,n,n+1} x checksums right/wrong x header cuts",
             ncorpus, g_th ? "16 (every pattern)" : "9 (every pattern) and solid runs up to 16");
    mc_finish(true, bound);
    return 0;
}
