/*
 * C07 -- corrupted frames are never executed nor acknowledged.
 *
 * Part 1 (fault space, serial): corpus of valid frames of every type x
 * semantics x payload length x content, built by the reference encoder.
 * Faults on the raw frame (then SLIP-encoded): every single-bit flip; every
 * two-bit flip inside the protected fields (octets >= 2); every burst = every
 * bit pattern of span 2..16 with first and last bit set, at every bit offset
 * >= 16, bits numbered in line transmission order (least significant bit of
 * each octet first); every truncation; extensions by 1..3 octets.
 * Part 2 (generated space, both transports): version x type x all option bits
 * x meta x declared/actual header length x payload length {0,n-1,n,n+1} x each
 * checksum right/wrong.
 * Part 3 (the line itself, serial): the same corpus, faults on the SLIP
 * *stream* (every single-bit flip, thorough: every two-bit flip; every cut;
 * every lost or duplicated octet) -- these also break the framing (escape
 * violations, lost and spurious END octets), so the receiver sees channel-level
 * failures and fragments; played as a session of the documented serving loop
 * (regp_loop.h: one RPMaybeFrame reused, regp_process/regp_free after every
 * regp_recv) after a good request or from indeterminate contents, on a heap
 * and on a pool allocator: nothing is executed, nothing acknowledged.
 * Part 4 (the reply cannot be sent): faulted requests x sink failure at every
 * octet of the reply x error codes: still never executed nor acknowledged.
 * Part 5 (sessions): every sequence of 2..3 (thorough: 4) receptions out of
 * good requests, corrupted frames of every class and channel-level failures.
 * After a channel failure that regp_recv reported (negative return) a round in
 * which regp_recv again returns a negative value is judged like a channel
 * failure (an instance may latch the failure until a channel is installed
 * again, a framing layer may resynchronise at the next frame boundary; no frame
 * was handed over that it would have to classify).  The two valid requests that
 * a receiver taking a frame into one allocator block cannot receive (no block /
 * larger than the block) are judged by what the library reports.
 * Part 6 (what the library itself puts on a serial line): every frame kind the
 * library emits (requests, responses to every backend verdict), then every
 * single-bit flip, two-bit flip in octets >= 2 and truncation: a frame that
 * left without the checksum the fault needs to be noticed is a violation.
 * Part 7 (frames that fill the block): valid write requests ending 4 (thorough:
 * 18) octets before .. 2 octets behind block - sizeof(RPFrame), for three block
 * sizes, as built, cut short by 1..3 and extended by 1..300 octets, on both
 * transports with octet, chunk and own-buffer (64 / 1024 octets) sources: up to
 * the capacity the library shows (learned, regp_ref.h) judged like any frame;
 * a longer one is never executed nor acknowledged nor called valid.
 * Oracle: the receiver's verdict is in the reference verdict set of
 * regp_ref.h; a frame whose reference verdict is not "valid" is never
 * executed, never acknowledged, and answered as the statement prescribes.
 * The receiver's verdict is "valid" (error.id 0) or "faulty" (any other
 * error.id: the statement names the classes, not the numbers); which class it
 * means is read off the prescribed message (meta message 1/2, response code
 * 3/2), which must be one the reference admits; for header faults the meta
 * message is owed on a serial channel by requests and by frames whose header
 * cannot be trusted ("classified, nothing sent" is admitted on the
 * length-prefix transport and for intact response/meta frames: doc 2.1).  The
 * allocator ledger is C09's
 * subject: only a release of something that is no live block is reported.
 */
#include "mc.h"
#include "regp_ref.h"
#include "regp_loop.h"

#define BLOCKSIZE 256

static struct drv D;
static bool g_th;

static void
drv_reset(struct drv *d, bool m16)
{
    d->allocs = d->frees = d->bad_frees = 0;
    d->ncalls = 0;
    d->outlen = 0;
    d->src_calls = 0;
    d->overrun = false;
    d->verdict = RP_RESP_ACK;
    if (d->m16 != m16) {
        d->m16 = m16;
        if (m16)
            regp_use_memory16(&d->p, drv_r16, drv_w16);
        else
            regp_use_memory8(&d->p, drv_r8, drv_w8);
    }
}

/* What the receiver says about a frame is observed in RPMaybeFrame.error.id:
 * zero = "valid", anything else = "classified as faulty".  The statement names
 * four fault classes, not the numbers that stand for them in error.id; which
 * class the receiver means is read off the message it sends (meta message 1 / 2
 * for the header faults, response code 3 / 2 for the payload faults of
 * requests).  Where no message is owed (payload fault of a non-request) any
 * non-zero error.id is a classification. */
static const char *
vname(unsigned v)
{
    switch (v) {
    case RV_OK: return "valid";
    case RV_BADHDR: return "bad-header-encoding";
    case RV_BADHDRCRC: return "bad-header-checksum";
    case RV_BADSIZE: return "implausible-payload-size";
    case RV_BADPLCRC: return "bad-payload-checksum";
    case 0: return "faulty (class not shown)";
    default: return "(set)";
    }
}

/* the fault class a reply stream of nfr frames shows; 0: none */
static unsigned
reply_class(const struct rframe *reply, int nfr)
{
    if (nfr != 1)
        return 0;
    if (reply[0].type == RT_META)
        return reply[0].meta == 1 ? RV_BADHDR : reply[0].meta == 2 ? RV_BADHDRCRC : 0;
    if (reply[0].type == RT_READ_RESP || reply[0].type == RT_WRITE_RESP)
        return reply[0].meta == 2 ? RV_BADPLCRC : reply[0].meta == 3 ? RV_BADSIZE : 0;
    return 0;
}

static long n_detected[6], n_valid, n_skipped_valid;
/* the caller's RPMaybeFrame: one object, reused by every reception of a case
 * (set to the indeterminate-contents stand-in when a case starts) */
static RPMaybeFrame g_mf;
static int g_escape_mode; /* 0: skip+count reference-valid corrupted frames; 1: skip silently (bursts, case A); 2: run ONLY those (bursts, case B);
                            * 3: such a frame is a violation (1-/2-bit flips of frames the library emitted itself) */
static long n_escaped;

/* the reference verdict set for raw frame X on the given transport */
static unsigned
frame_vset(bool tcp, const unsigned char *X, size_t n, struct rframe *rf)
{
    unsigned vset = rr_verdict(X, n, rf);
    /* A frame that ends inside the header it declares (12 <= n < 12 + 2 per
     * declared checksum word) while declaring a header checksum: the header is
     * malformed (bad header encoding), and equally "the header checksum cannot be
     * verified" -- the checksum word is missing or cut (bad header checksum).
     * The document does not order the two tests: either class is admitted.
     * Fewer than the 12 octets of the fixed header: no option bits can be read,
     * bad header encoding only. */
    if (n >= 12 && !(vset & RV_OK) && rf->hdrlen == 0 && (rf->options & RO_HDCRC))
        vset |= RV_BADHDRCRC;
    /* ... but its first octet is: with at least the first header word there and the
     * header-checksum bit set in it, "the header checksum cannot be verified" is
     * as good a description of a frame that ends before its checksum word */
    if (n >= 2 && n < 12 && (X[0] & RO_HDCRC))
        vset |= RV_BADHDRCRC;
    /* transport-mandated option bits: the document could be read as making a
     * violation a header encoding error; the receiver may take either view, and
     * the document does not order this test against the others either (a receiver
     * may look at the option bits before it looks at the payload) */
    if (n >= 12) {
        const bool mand_ok = tcp ? !(rf->options & (RO_HDCRC | RO_PLCRC))
                                 : ((rf->options & RO_HDCRC) && (((rf->options & RO_PLCRC) != 0) == (rf->plen != 0)));
        if (!mand_ok)
            vset |= RV_BADHDR;
    }
    return vset;
}

/* decode the reply octets D.out[from, to) into frames; with `lenient` an
 * incomplete frame at the end (the sink failed) is left out.  Returns the
 * number of frames, -1 if the octets are not a sequence of frames, -2 if one of
 * them is not a valid frame. */
static int
decode_replies(bool tcp, size_t from, size_t to, bool lenient, struct rframe *reply, unsigned char *scratch, bool *acked)
{
    struct rr_frames fr;
    int nfr = rr_unframe(tcp, D.out + from, to - from, scratch, &fr);
    while (nfr < 0 && lenient && to > from)
        nfr = rr_unframe(tcp, D.out + from, --to - from, scratch, &fr);
    *acked = false;
    for (int i = 0; i < nfr; ++i) {
        const unsigned rv = rr_verdict(scratch + fr.off[i], fr.len[i], &reply[i]);
        if (!rr_reply_ok(rv, &reply[i]))
            return -2 - i;
        if ((reply[i].type == RT_READ_RESP || reply[i].type == RT_WRITE_RESP) && reply[i].meta == 0)
            *acked = true;
    }
    return nfr;
}

/* Judge one round of the serving loop in which the channel delivered raw frame
 * X intact (rf/vset: the reference's reading of X).  sink_failed: the sink
 * refused octets of the reply in this round. */
static bool
judge(bool tcp, const struct rframe *rf, unsigned vset, const struct lp_result *r, bool sink_failed, const char *fault)
{
    unsigned char scratch[DRV_WIRE];
    const int rrc = r->rrc, errid = r->errid;
    const bool says_valid = errid == 0;
    const unsigned faults = vset & ~(unsigned)RV_OK;
    if (sink_failed) {
        /* The statement's "is never executed and never acknowledged" does not
         * depend on the reply getting through; "the corresponding message is
         * sent" cannot hold, so the class the receiver means cannot be seen.
         * A receiver whose transmission failed may report that through its
         * return value alone (error.id 0 with rc < 0). */
        if (r->calls != 0) {
            mc_fail("C07/never-executed", "%s: the reply could not be sent (recv rc=%d error.id=%d) and the frame caused %d memory accesses", fault, rrc, errid, r->calls);
            return false;
        }
        struct rframe reply[8];
        bool acked;
        (void)decode_replies(tcp, r->out0, r->out1, true, reply, scratch, &acked);
        if (acked) {
            mc_fail("C07/never-acknowledged", "%s: the frame was acknowledged", fault);
            return false;
        }
        if (!(vset & RV_OK) && says_valid && rrc >= 0) {
            mc_fail("C07/verdict-class", "%s: receiver says valid (rc=%d error.id=%d); an independent reading of the document says %s%s", fault, rrc, errid,
                    vname(vset & -vset), (vset & (vset - 1)) ? " (or alternatives)" : "");
            return false;
        }
        if (lp_bad_releases(&D)) {
            mc_fail("C07/ledger", "%s: %d releases of something that is no live block (double or foreign release)", fault, lp_bad_releases(&D));
            return false;
        }
        n_detected[4]++;
        return true;
    }
    if (rrc < 0 && says_valid) {
        /* the classification is observed in error.id; a receiver may in
         * addition report the fault through its return value */
        mc_fail("C07/receiver-classifies", "%s: regp_recv returned %d with error.id=%d instead of classifying the frame", fault, rrc, errid);
        return false;
    }
    if (says_valid ? !(vset & RV_OK) : !faults) {
        /* name the most telling clause */
        const char *cl = (says_valid && (vset & RV_BADPLCRC)) ? "C07/payload-checksum-verified"
            : (says_valid && (vset & RV_BADSIZE)) ? "C07/payload-size-verified"
            : (says_valid && (vset & RV_BADHDRCRC)) ? "C07/header-checksum-verified"
            : says_valid ? "C07/header-encoding-verified"
            : "C07/valid-frame-accepted";
        mc_fail(cl, "%s: receiver says %s (error.id=%d); an independent reading of the document says %s%s", fault, says_valid ? "valid" : "faulty", errid,
                vname(vset & -vset), (vset & (vset - 1)) ? " (or alternatives)" : "");
        return false;
    }
    /* decode what was sent back */
    struct rframe reply[8];
    bool acked = false;
    const int nfr = decode_replies(tcp, r->out0, r->out1, false, reply, scratch, &acked);
    if (nfr <= -2) {
        mc_fail("C07/reply-well-formed", "%s: reply frame %d is not a valid frame", fault, -2 - nfr);
        return false;
    }
    if (nfr < 0) {
        mc_fail("C07/reply-well-formed", "%s: the reply octets are not a sequence of frames", fault);
        return false;
    }
    if (says_valid) {
        n_valid++;
        return true; /* executing valid frames is C06's subject */
    }
    if (r->calls != 0) {
        mc_fail("C07/never-executed", "%s: a frame classified as faulty (error.id=%d) caused %d memory accesses", fault, errid, r->calls);
        return false;
    }
    if (acked) {
        mc_fail("C07/never-acknowledged", "%s: a frame classified as faulty (error.id=%d) was acknowledged", fault, errid);
        return false;
    }
    /* the class the receiver means, shown by the message the statement prescribes for it */
    const bool isreq = rf->type == RT_READ_REQ || rf->type == RT_WRITE_REQ;
    const unsigned hdrfaults = faults & (RV_BADHDR | RV_BADHDRCRC), plfaults = faults & (RV_BADSIZE | RV_BADPLCRC);
    /* a response or meta frame (as far as its first header word says; fewer than 12 octets
     * leave rf zeroed = request) whose header checksum verifies or is not declared */
    const bool intact_nonreq = (rf->type == RT_READ_RESP || rf->type == RT_WRITE_RESP || rf->type == RT_META) && !(faults & RV_BADHDRCRC);
    const unsigned shown = reply_class(reply, nfr);
    unsigned cls;
    if (shown) {
        if (!(shown & faults)) {
            mc_fail("C07/verdict-class", "%s: the receiver's reply (type %u code %u, error.id=%d) classifies the frame as %s; an independent reading of the document says %s%s",
                    fault, reply[0].type, reply[0].meta, errid, vname(shown), vname(vset & -vset), (vset & (vset - 1)) ? " (or alternatives)" : "");
            return false;
        }
        if ((shown & (RV_BADSIZE | RV_BADPLCRC))
            && (!isreq || reply[0].type != (rf->type == RT_READ_REQ ? RT_READ_RESP : RT_WRITE_RESP) || reply[0].seq != rf->seq || reply[0].addr != rf->addr
                || reply[0].plen != 0)) {
            mc_fail("C07/payload-fault-reply", "%s: a %s classified %s must be answered with %s; got type %u code %u seq %04x address %08x, %zu payload octets", fault,
                    isreq ? "request" : "non-request", vname(shown), isreq ? "one response of the request's kind echoing seq/address, without payload" : "nothing", reply[0].type,
                    reply[0].meta, reply[0].seq, reply[0].addr, reply[0].plen);
            return false;
        }
        cls = shown;
    } else if (nfr == 0 && r->out1 == r->out0 && !isreq && plfaults) {
        cls = plfaults & -plfaults; /* payload fault of a non-request: no message is owed, the class is not shown */
    } else if (nfr == 0 && r->out1 == r->out0 && hdrfaults && (tcp || (intact_nonreq && !plfaults))) {
        /* The meta-message sentence of the statement is scoped "on a serial channel",
         * and doc/regp.txt 2.1 says that problems in response or meta messages shall
         * not be met with another response: on the length-prefix transport, and for a
         * response or meta frame whose header can be trusted (its header checksum
         * verifies, or it declares none), "classified, nothing sent" is admitted.
         * The class is not shown. */
        cls = hdrfaults & -hdrfaults;
    } else {
        const bool want_pl = !hdrfaults;
        mc_fail(want_pl ? "C07/payload-fault-reply" : "C07/header-fault-meta-reply",
                "%s: the frame was classified as faulty (error.id=%d; by the document: %s%s) but the prescribed message (%s) was not what was sent: %d frames (first: type %u code %u)",
                fault, errid, vname(faults & -faults), (faults & (faults - 1)) ? " or alternatives" : "",
                want_pl ? (isreq ? "one response with code 2 or 3" : "none") : (isreq && plfaults) ? "one meta message 1 or 2, or one response with code 2 or 3" : "one meta message 1 or 2",
                nfr, nfr > 0 ? reply[0].type : 99, nfr > 0 ? reply[0].meta : 99);
        return false;
    }
    n_detected[cls == RV_BADHDR ? 0 : cls == RV_BADHDRCRC ? 1 : cls == RV_BADSIZE ? 2 : 3]++;
    if (lp_bad_releases(&D)) {
        mc_fail("C07/ledger", "%s: %d releases of something that is no live block (double or foreign release)", fault, lp_bad_releases(&D));
        return false;
    }
    return true;
}

/* D (parts 1, 2, 6: one instance, octet source, serial at first) is switched to
 * the other framing through the public interface */
static int g_chan_tcp;

static void
use_transport(bool tcp)
{
    if ((int)tcp == g_chan_tcp)
        return;
    Source src;
    Sink snk;
    octet_source_init(&src, drv_src_octet, &D);
    chunk_sink_init(&snk, drv_sink_chunk, &D);
    regp_use_channel(&D.p, tcp ? RP_EP_TCP : RP_EP_SERIAL, src, snk);
    g_chan_tcp = tcp;
}

/* Feed raw frame X (n octets) over the given transport; check the receiver
 * against the reference.  `fault` describes the case for the failure text;
 * corrupted=true demands that the frame is not taken as valid unless the
 * reference itself finds it valid (then it is counted and skipped). */
static bool
run_frame(bool tcp, const unsigned char *X, size_t n, bool corrupted, const char *fault)
{
    unsigned char wire[2 * 600 + 16];
    struct rframe rf;
    const unsigned vset = frame_vset(tcp, X, n, &rf);
    if (n == 0 && tcp)
        return true; /* a zero length prefix is a channel matter, not a frame */
    if (corrupted && g_escape_mode == 2 && !(vset & RV_OK))
        return true;
    if (corrupted && (vset & RV_OK) && g_escape_mode == 3) {
        mc_log_hex("frame", X, n);
        mc_fail("C07/serial-frame-protected",
                "%s: the damaged frame is a valid frame by doc/regp.txt (options %x, %zu payload octets): the frame was put on the serial line without the checksum that covers the damaged octets",
                fault, rf.options, rf.plen);
        return false;
    }
    if (corrupted && (vset & RV_OK) && g_escape_mode != 2) {
        if (g_escape_mode == 0)
            n_skipped_valid++;
        if (getenv("C07_DEBUG")) {
            fprintf(stderr, "SKIPPED-VALID %s: %s len=%zu:", mc.desc, fault, n);
            for (size_t i = 0; i < n; ++i)
                fprintf(stderr, " %02x", X[i]);
            fprintf(stderr, "\n");
        }
        return true; /* undetectable by the protocol itself */
    }
    const size_t wn = tcp ? rr_lenprefix(wire, X, n) : rr_slip(wire, X, n);
    const bool m16 = (rf.options & RO_W16) != 0; /* attach matching memory: execution must be prevented by the verdict alone */
    drv_reset(&D, m16);
    use_transport(tcp);
    drv_feed(&D, wire, wn);
    /* one round of the documented serving loop, the caller's RPMaybeFrame reused */
    struct lp_result r;
    lp_round(&D, &g_mf, &r);
    mc_trans(3);
    if (mc.verbose && mc.active) {
        mc_log("%s: recv rc=%d error.id=%d (%s) process rc=%d calls=%d reply=%zu octets; reference verdict set=%02x", fault, r.rrc, r.errid,
               r.errid ? "classified as faulty" : "valid", r.prc, r.calls, D.outlen, vset);
        mc_log_hex("frame", X, n);
        mc_log_hex("reply", D.out, D.outlen);
    }
    if (corrupted && g_escape_mode == 2) {
        n_escaped++;
        if (r.errid == 0) {
            mc_fail("C07/burst-escapes-checksum", "%s: the corrupted frame is valid under doc/regp.txt's checksum layout and was accepted%s", fault,
                    r.calls ? " and executed" : "");
            return false;
        }
        return true;
    }
    return judge(tcp, &rf, vset, &r, false, fault);
}

/* ---- corpus ------------------------------------------------------------------------ */
struct cframe {
    unsigned char raw[64];
    size_t n;
    char name[48];
};
static struct cframe corpus[384];
static int ncorpus;

static void
make_corpus(void)
{
    static const unsigned types[] = { RT_READ_REQ, RT_READ_RESP, RT_WRITE_REQ, RT_WRITE_RESP, RT_META };
    static const char *tn[] = { "read-req", "read-resp", "write-req", "write-resp", "meta" };
    static const size_t lens[] = { 0, 1, 2, 3, 8 };
    for (unsigned ti = 0; ti < 5; ++ti)
        for (int w16 = 0; w16 < 2; ++w16)
            for (unsigned li = 0; li < 5; ++li)
                for (int content = 0; content < 3; ++content) {
                    const unsigned t = types[ti];
                    const bool haspl = (t == RT_READ_RESP || t == RT_WRITE_REQ || t == RT_WRITE_RESP);
                    if (t == RT_META && (w16 || li || content))
                        continue;
                    if (!haspl && content)
                        continue;
                    /* write responses: the acknowledgement (no payload) and EUNMAPPED with the
                     * four octets doc 3.1.8 prescribes, in octet semantics */
                    const bool wr_err = t == RT_WRITE_RESP && li == 1;
                    if (t == RT_WRITE_RESP && (li > 1 || (wr_err && w16)))
                        continue;
                    if (lens[li] == 0 && content)
                        continue;
                    if (!g_th && lens[li] == 3 && w16)
                        continue; /* quick keeps the odd octet counts 1 and 3 of 8-bit frames */
                    struct cframe *c = &corpus[ncorpus++];
                    unsigned char pl[16];
                    const size_t plen = wr_err ? 4 : haspl ? lens[li] * (w16 ? 2u : 1u) : 0;
                    for (size_t i = 0; i < plen; ++i)
                        pl[i] = content == 2 ? 0 /* all-zero payload: its CRC-16/ARC is 0000 */ : content ? (unsigned char)(0xc0 + 0x1b * i) : (unsigned char)(i + 1);
                    struct rframe f;
                    memset(&f, 0, sizeof f);
                    f.type = t;
                    f.meta = t == RT_META ? 1 : (t == RT_WRITE_RESP && plen) ? 7 : 0;
                    f.options = (w16 && !(t == RT_WRITE_RESP && plen) ? RO_W16 : 0) | RO_HDCRC | (plen ? RO_PLCRC : 0);
                    f.seq = t == RT_META ? 0 : 0x1234;
                    f.addr = t == RT_META ? 0 : 0x00c00064;
                    f.bsize = t == RT_META ? 0 : (t == RT_WRITE_RESP && plen) ? (uint32_t)plen : (uint32_t)lens[li];
                    f.payload = pl;
                    f.plen = plen;
                    c->n = rr_build(c->raw, &f, false, false);
                    snprintf(c->name, sizeof c->name, "%s%s len=%zu content=%d", tn[ti], w16 ? "16" : "8", wr_err ? (size_t)4 : lens[li], content);
                    struct rframe chk;
                    if (rr_verdict(c->raw, c->n, &chk) != RV_OK) /* exactly: no fault, no alternative reading */
                        mc_broken("corpus frame %s is not valid by the reference", c->name);
                }
}

static inline void
flipbit(unsigned char *x, size_t t)
{
    x[t >> 3] ^= (unsigned char)(1u << (t & 7)); /* transmission order: LSB of each octet first */
}

static const char *
outcome_of(bool ok)
{
    if (!ok)
        return "failed";
    int classes = 0;
    for (int i = 0; i < 4; ++i)
        classes += n_detected[i] > 0;
    return classes >= 3 ? "detected-3+classes" : classes == 2 ? "detected-2classes" : classes == 1 ? "detected-1class" : "nothing-detected";
}

static void
reset_counts(void)
{
    memset(n_detected, 0, sizeof n_detected);
    n_valid = 0;
    /* a case starts like the documented loop does: `RPMaybeFrame mf;` */
    lp_decoy(&g_mf, true);
}

static void
part1(void)
{
    char fd[160];
    for (int ci = 0; ci < ncorpus; ++ci) {
        const struct cframe *c = &corpus[ci];
        const size_t nbits = c->n * 8;
        unsigned char x[80];
        /* the unmodified frame is taken as valid */
        if (mc_case("corpus#%d %s unmodified", ci, c->name)) {
            reset_counts();
            bool ok = run_frame(false, c->raw, c->n, false, "unmodified");
            if (ok && n_valid != 1) {
                mc_fail("C07/valid-frame-accepted", "the unmodified corpus frame was not accepted");
                ok = false;
            }
            mc_end(true, ok ? "valid-accepted" : "failed");
        }
        /* single-bit flips, every octet */
        if (mc_case("corpus#%d %s every single-bit flip (%zu)", ci, c->name, nbits)) {
            reset_counts();
            bool ok = true;
            for (size_t t = 0; t < nbits && ok; ++t) {
                memcpy(x, c->raw, c->n);
                flipbit(x, t);
                snprintf(fd, sizeof fd, "bit %zu flipped", t);
                ok = run_frame(false, x, c->n, true, fd);
            }
            mc_end(true, outcome_of(ok));
        }
        /* two-bit flips inside the protected fields */
        for (size_t t1 = 16; t1 < nbits; ++t1) {
            if (!mc_case("corpus#%d %s two-bit flips, first bit %zu", ci, c->name, t1))
                continue;
            reset_counts();
            bool ok = true;
            for (size_t t2 = t1 + 1; t2 < nbits && ok; ++t2) {
                memcpy(x, c->raw, c->n);
                flipbit(x, t1);
                flipbit(x, t2);
                snprintf(fd, sizeof fd, "bits %zu and %zu flipped", t1, t2);
                ok = run_frame(false, x, c->n, true, fd);
            }
            mc_end(t1 + 1 < nbits, outcome_of(ok));
        }
        /* bursts: case A = every burst the reference finds invalid; case B =
         * the bursts that doc/regp.txt's checksum layout itself cannot detect
         * (the checksum fields travel most significant octet first, so a burst
         * straddling data and checksum field is not a burst of the cyclic
         * code).  B's numbering does not depend on the implementation. */
        for (size_t o = 16; o + 2 <= nbits; ++o)
            for (int mode = 1; mode <= 2; ++mode) {
                if (!mc_case("corpus#%d %s %s at bit offset %zu", ci, c->name, mode == 1 ? "bursts" : "escaping bursts", o))
                    continue;
                reset_counts();
                n_escaped = 0;
                g_escape_mode = mode;
                bool ok = true;
                for (unsigned span = 2; span <= 16 && o + span <= nbits; ++span) {
                    const unsigned inner = span - 2;
                    const bool all = g_th || span <= 9;
                    const uint32_t npat = all ? (1u << inner) : 1;
                    for (uint32_t pi = 0; pi < npat && (ok || mode == 2); ++pi) {
                        const uint32_t mid = all ? pi : ((1u << inner) - 1); /* quick, long spans: the solid run */
                        const uint32_t pat = 1u | (mid << 1) | (1u << (span - 1));
                        memcpy(x, c->raw, c->n);
                        for (unsigned b = 0; b < span; ++b)
                            if (pat & (1u << b))
                                flipbit(x, o + b);
                        snprintf(fd, sizeof fd, "burst span %u pattern %04x at bit %zu", span, pat, o);
                        ok = run_frame(false, x, c->n, true, fd) && ok;
                    }
                }
                g_escape_mode = 0;
                if (mode == 1)
                    mc_end(true, outcome_of(ok));
                else
                    mc_end(n_escaped > 0, !ok ? "failed" : n_escaped ? "escaping-burst-rejected" : "no-escaping-burst");
            }
        /* truncations and extensions */
        if (mc_case("corpus#%d %s every truncation and extension", ci, c->name)) {
            reset_counts();
            bool ok = true;
            for (size_t len = 0; len < c->n && ok; ++len) {
                snprintf(fd, sizeof fd, "truncated to %zu octets", len);
                ok = run_frame(false, c->raw, len, true, fd);
            }
            static const unsigned char ext[3] = { 0x00, 0xff, 0xc0 };
            for (int k = 1; k <= 3 && ok; ++k)
                for (int e = 0; e < 3 && ok; ++e) {
                    memcpy(x, c->raw, c->n);
                    for (int i = 0; i < k; ++i)
                        x[c->n + (size_t)i] = ext[e];
                    snprintf(fd, sizeof fd, "extended by %d octets %02x", k, ext[e]);
                    ok = run_frame(false, x, c->n + (size_t)k, true, fd);
                }
            mc_end(true, outcome_of(ok));
        }
    }
}

static void
part2(void)
{
    static const unsigned versions[] = { 0, 1, 15 };
    static const uint32_t BS[] = { 0, 1, 2, 0x7f, 0x80, 0x81, 0x82, 0xff, 0x100, 0x101, 0x102, 0x7fff, 0x8000, 0x8001, 0x8002, 0xffff, 0x10000, 0x10001, 0x10002,
                                   0x7fffffffu, 0x80000000u, 0x80000001u, 0x80000002u, 0x80000003u, 0xfffffffeu, 0xffffffffu };
    enum { NBS = sizeof BS / sizeof *BS };
    char fd[200];
    for (int tcp = 0; tcp < 2; ++tcp)
        for (unsigned vi = 0; vi < 3; ++vi)
            for (unsigned type = 0; type < 16; ++type)
                for (unsigned opt = 0; opt < 16; ++opt) {
                    if (!mc_case("generated %s version=%u type=%u options=%x x meta x block size x payload length x checksums x header cut", tcp ? "tcp" : "serial",
                                 versions[vi], type, opt))
                        continue;
                    reset_counts();
                    bool ok = true;
                    for (unsigned meta = 0; meta < 16 && ok; ++meta) {
                        if (versions[vi] != 0 && meta > 1)
                            continue;
                        for (unsigned bi = 0; bi < NBS && ok; ++bi)
                            for (int dl = -1; dl <= 7 && ok; ++dl)
                                for (int brk = 0; brk < 4 && ok; ++brk) {
                                    /* block sizes 0..2 with payload lengths n-1, n, n+1; and sizes straddling
                                     * 2^7, 2^8, 2^15, 2^16, 2^31, 2^32 (whose octet count, or the size itself,
                                     * wraps in 8, 16 or 32 bits) with every payload length 0..7 */
                                    const uint32_t bs = BS[bi];
                                    const size_t ws = (opt & RO_W16) ? 2 : 1;
                                    const bool declares_payload = !(type == RT_READ_REQ || type == RT_META);
                                    long want, plen;
                                    if (bi < 3) {
                                        if (dl > 1)
                                            continue;
                                        want = declares_payload ? (long)(bs * ws) : 0;
                                        plen = want + dl;
                                    } else {
                                        if (dl < 0 || !declares_payload)
                                            continue;
                                        want = (long)(uint32_t)(bs * (uint32_t)ws); /* what a 32-bit product would announce */
                                        plen = dl;
                                    }
                                    if (plen < 0)
                                        continue;
                                    if ((brk & 1) && !(opt & RO_HDCRC))
                                        continue;
                                    if ((brk & 2) && !((opt & RO_PLCRC) && plen > 0))
                                        continue;
                                    unsigned char pl[16], raw[64];
                                    for (long i = 0; i < plen; ++i)
                                        pl[i] = (unsigned char)(0x51 + 3 * i);
                                    struct rframe f;
                                    memset(&f, 0, sizeof f);
                                    f.version = versions[vi];
                                    f.type = type;
                                    f.options = opt;
                                    f.meta = meta;
                                    f.seq = 0x0102;
                                    f.addr = 0x64;
                                    f.bsize = bs;
                                    f.payload = pl;
                                    f.plen = (size_t)plen;
                                    const size_t n = rr_build(raw, &f, brk & 1, (brk & 2) != 0);
                                    snprintf(fd, sizeof fd, "meta=%u bsize=%u payload=%ld octets (32-bit product %ld) hdcrc=%s plcrc=%s", meta, bs, plen, want,
                                             (brk & 1) ? "wrong" : "right", (brk & 2) ? "wrong" : "right");
                                    ok = run_frame(tcp, raw, n, false, fd);
                                    /* header cut short of its declared checksum words */
                                    if (ok && dl == 0 && brk == 0 && plen == 0 && bi == 0)
                                        for (size_t cut = 10; cut < n && ok; ++cut) {
                                            snprintf(fd, sizeof fd, "meta=%u header cut to %zu octets", meta, cut);
                                            ok = run_frame(tcp, raw, cut, false, fd);
                                        }
                                }
                    }
                    mc_end(true, !ok ? "failed" : n_valid == 0 ? outcome_of(true) : (n_detected[0] + n_detected[1] + n_detected[2] + n_detected[3]) ? "valid-and-invalid" : "all-valid");
                }
}


/* ---- part 3: faults on the line (the SLIP stream), played as sessions --------------------- */
static long n_wire_judged, n_wire_undetectable;

/* a good write request of one word for memory of the given width */
static size_t
good_request(bool tcp, bool m16, unsigned char *wire)
{
    static const unsigned char pl[2] = { 0x5a, 0xa5 };
    unsigned char raw[32];
    struct rframe f;
    memset(&f, 0, sizeof f);
    f.type = RT_WRITE_REQ;
    f.options = (m16 ? RO_W16 : 0) | (tcp ? 0 : RO_HDCRC | RO_PLCRC);
    f.seq = 0x7001;
    f.addr = 0x00000900;
    f.bsize = 1;
    f.payload = pl;
    f.plen = m16 ? 2 : 1;
    const size_t rn = rr_build(raw, &f, false, false);
    return tcp ? rr_lenprefix(wire, raw, rn) : rr_slip(wire, raw, rn);
}

/* start a session on a fresh instance: mode bit 0 = a good request was served
 * before (else the RPMaybeFrame has its indeterminate first contents), bit 1 =
 * pool allocator */
static int g_srcmode = DRV_SRC_OCTET;
static const char *SRCNAME[] = { "chunk source", "octet source", "chunk source with getbuffer" };

/* a chunk source that offers a buffer of its own large enough for a whole
 * frame (the getbuffer source of regp_ref.h offers 64 octets) */
static unsigned char big_scratch[1024];
static bool g_big_buffer;

static ByteBuffer
big_getbuffer(Source *s)
{
    (void)s;
    ByteBuffer b;
    byte_buffer_use(&b, big_scratch, sizeof big_scratch);
    return b;
}

static void
session_start_ex(bool tcp, bool m16, int mode, size_t blocksize)
{
    drv_init_ex(&D, tcp, m16, blocksize, g_srcmode);
    if (g_big_buffer) {
        Source src;
        Sink snk;
        chunk_source_init(&src, drv_src_chunk, &D);
        src.ext.getbuffer = big_getbuffer;
        chunk_sink_init(&snk, drv_sink_chunk, &D);
        regp_use_channel(&D.p, tcp ? RP_EP_TCP : RP_EP_SERIAL, src, snk);
    }
    if (mode & 2)
        lp_use_pool(&D, 0);
    lp_decoy(&g_mf, m16);
    if (mode & 1) {
        unsigned char w[64];
        struct lp_result r;
        drv_feed(&D, w, good_request(tcp, m16, w));
        lp_round(&D, &g_mf, &r);
        mc_trans(3);
        if (mc.verbose && mc.active)
            mc_log("prelude: good write request: recv rc=%d error.id=%d process rc=%d calls=%d reply=%zu octets", r.rrc, r.errid, r.prc, r.calls, D.outlen);
        D.outlen = 0;
        D.ncalls = 0;
    }
}

static void
session_start(bool tcp, bool m16, int mode)
{
    session_start_ex(tcp, m16, mode, BLOCKSIZE);
}

static const char *SMODE[4] = { "RPMaybeFrame indeterminate, heap allocator", "after a served request, heap allocator", "RPMaybeFrame indeterminate, pool allocator",
                                "after a served request, pool allocator" };

/* the damaged stream w is all the line delivers; the loop runs until it is used up */
static bool
run_wire(bool m16, int mode, const unsigned char *w, size_t n, const char *fault)
{
    if (lp_slip_may_be_valid(w, n)) {
        n_wire_undetectable++;
        if (mc.verbose && mc.active)
            mc_log("%s: not judged, a reading of the damaged stream holds a valid frame", fault);
        return true; /* some reading of the damaged stream holds a valid frame: undetectable in principle */
    }
    session_start(false, m16, mode);
    drv_feed(&D, w, n);
    int rounds = 0, calls = 0;
    struct lp_result r;
    do {
        lp_round(&D, &g_mf, &r);
        mc_trans(3);
        calls += r.calls;
        rounds++;
        if (mc.verbose && mc.active)
            mc_log("%s: round %d: recv rc=%d error.id=%d process rc=%d calls=%d, %zu of %zu line octets used, %zu reply octets so far", fault, rounds, r.rrc, r.errid, r.prc,
                   r.calls, D.inpos, n, D.outlen);
    } while (D.inpos < D.inlen && rounds < 16 && D.ncalls < DRV_MAXCALLS);
    n_wire_judged++;
    bool ok = true;
    if (calls != 0) {
        mc_fail("C07/never-executed", "%s: no reading of the damaged stream holds a valid frame, but %d memory accesses happened (%s addr=%08x size=%zu)", fault, calls,
                D.call[0].write ? "write" : "read", D.call[0].addr, D.call[0].bsize);
        ok = false;
    } else {
        unsigned char scratch[DRV_WIRE];
        struct rframe reply[8];
        bool acked;
        const int nfr = decode_replies(false, 0, D.outlen, false, reply, scratch, &acked);
        if (nfr < 0) {
            mc_fail("C07/reply-well-formed", "%s: the reply octets are not a sequence of valid frames", fault);
            ok = false;
        } else if (acked) {
            mc_fail("C07/never-acknowledged", "%s: no reading of the damaged stream holds a valid frame, but an acknowledgement was sent", fault);
            ok = false;
        } else if (lp_bad_releases(&D)) {
            mc_fail("C07/ledger", "%s: %d releases of something that is no live block (double or foreign release; allocs=%d frees=%d)", fault, lp_bad_releases(&D), D.allocs,
                    D.frees);
            ok = false;
        }
    }
    if (mc.verbose && mc.active)
        mc_log_hex("line", w, n);
    lp_release(&D);
    return ok;
}

static void
part3(void)
{
    char fd[160];
    for (int ci = 0; ci < ncorpus; ++ci) {
        const struct cframe *c = &corpus[ci];
        unsigned char wire[160], x[164];
        const size_t wn = rr_slip(wire, c->raw, c->n);
        const size_t nbits = wn * 8;
        const bool m16 = (c->raw[0] & RO_W16) != 0;
        for (int sm = 0; sm < (g_th ? 3 : 1); ++sm)
        for (int mode = 0; mode < 4; ++mode) {
            g_srcmode = sm == 0 ? DRV_SRC_OCTET : sm == 1 ? DRV_SRC_CHUNK : DRV_SRC_CHUNK_GETBUFFER;
            if (mc_case("line corpus#%d %s: every single-bit flip of the SLIP stream (%zu); %s, %s", ci, c->name, nbits, SMODE[mode], SRCNAME[g_srcmode])) {
                n_wire_judged = n_wire_undetectable = 0;
                bool ok = true;
                for (size_t t = 0; t < nbits && ok; ++t) {
                    memcpy(x, wire, wn);
                    x[t >> 3] ^= (unsigned char)(1u << (t & 7));
                    snprintf(fd, sizeof fd, "line bit %zu flipped", t);
                    ok = run_wire(m16, mode, x, wn, fd);
                }
                mc_end(n_wire_judged > 0, !ok ? "failed" : n_wire_undetectable ? "line-faults-partly-undetectable" : "line-faults-rejected");
            }
            if (mc_case("line corpus#%d %s: every cut of the SLIP stream, every lost and every duplicated octet; %s, %s", ci, c->name, SMODE[mode], SRCNAME[g_srcmode])) {
                n_wire_judged = n_wire_undetectable = 0;
                bool ok = true;
                for (size_t len = 0; len < wn && ok; ++len) {
                    snprintf(fd, sizeof fd, "line goes dead after %zu octets", len);
                    ok = run_wire(m16, mode, wire, len, fd);
                }
                for (size_t i = 0; i < wn && ok; ++i) {
                    memcpy(x, wire, i);
                    memcpy(x + i, wire + i + 1, wn - i - 1);
                    snprintf(fd, sizeof fd, "line octet %zu lost", i);
                    ok = run_wire(m16, mode, x, wn - 1, fd);
                }
                for (size_t i = 0; i < wn && ok; ++i) {
                    memcpy(x, wire, i + 1);
                    memcpy(x + i + 1, wire + i, wn - i);
                    snprintf(fd, sizeof fd, "line octet %zu duplicated", i);
                    ok = run_wire(m16, mode, x, wn + 1, fd);
                }
                mc_end(n_wire_judged > 0, !ok ? "failed" : n_wire_undetectable ? "line-faults-partly-undetectable" : "line-faults-rejected");
            }
            if (!g_th || !(mode & 1) || sm != 0)
                continue;
            /* thorough: every two-bit flip of the stream, after a served request */
            for (size_t t1 = 0; t1 + 1 < nbits; ++t1) {
                if (!mc_case("line corpus#%d %s: two-bit flips of the SLIP stream, first bit %zu; %s", ci, c->name, t1, SMODE[mode]))
                    continue;
                n_wire_judged = n_wire_undetectable = 0;
                bool ok = true;
                for (size_t t2 = t1 + 1; t2 < nbits && ok; ++t2) {
                    memcpy(x, wire, wn);
                    x[t1 >> 3] ^= (unsigned char)(1u << (t1 & 7));
                    x[t2 >> 3] ^= (unsigned char)(1u << (t2 & 7));
                    snprintf(fd, sizeof fd, "line bits %zu and %zu flipped", t1, t2);
                    ok = run_wire(m16, mode, x, wn, fd);
                }
                mc_end(n_wire_judged > 0, !ok ? "failed" : n_wire_undetectable ? "line-faults-partly-undetectable" : "line-faults-rejected");
            }
        }
    }
    g_srcmode = DRV_SRC_OCTET;
}

/* ---- faulted requests for parts 4 and 5 ----------------------------------------------------- */
enum { FK_HDCRC, FK_VERSION, FK_RESERVED, FK_TYPE, FK_META, FK_PLCRC, FK_LONG, FK_SHORT, FK_N };
static const char *FKNAME[FK_N] = { "header checksum wrong", "version 1", "reserved option bit set", "unknown frame type", "meta field set", "payload checksum wrong",
                                    "one stray payload octet", "one payload octet missing" };

/* raw request (write of 2 words / read of 2 words) with one fault; 0 if the
 * fault does not exist for this frame on this transport */
static size_t
faulted_request(bool tcp, bool write, bool m16, int fk, unsigned char *raw)
{
    static unsigned char pl[8] = { 0x11, 0xc0, 0x33, 0xdb, 0x55 };
    struct rframe f, chk;
    memset(&f, 0, sizeof f);
    const size_t ws = m16 ? 2 : 1;
    f.type = write ? RT_WRITE_REQ : RT_READ_REQ;
    f.options = (m16 ? RO_W16 : 0) | (tcp ? 0 : RO_HDCRC | (write ? RO_PLCRC : 0));
    f.seq = 0x4321;
    f.addr = 0x00000a00;
    f.bsize = 2;
    f.payload = pl;
    f.plen = write ? 2 * ws : 0;
    bool bh = false, bp = false;
    switch (fk) {
    case FK_HDCRC: if (tcp) return 0; bh = true; break;
    case FK_VERSION: f.version = 1; break;
    case FK_RESERVED: f.options |= 8u; break;
    case FK_TYPE: f.type = write ? 7 : 9; break;
    case FK_META: f.meta = 3; break;
    case FK_PLCRC: if (tcp || !write) return 0; bp = true; break;
    case FK_LONG: f.plen += 1; break;
    case FK_SHORT: if (!write) return 0; f.plen -= 1; break;
    }
    const size_t rn = rr_build(raw, &f, bh, bp);
    if (frame_vset(tcp, raw, rn, &chk) & RV_OK)
        mc_broken("faulted request (%s) is valid by the reference", FKNAME[fk]);
    return rn;
}

/* ---- part 4: the reply to a faulted request cannot be sent ---------------------------------- */
static void
part4(void)
{
    static const int ERRS[] = { -EIO, -ENOMEM, -EPIPE }; /* not -EAGAIN/-EINTR: the endpoint layer retries those by contract */
    char fd[200];
    for (int tcp = 0; tcp < 2; ++tcp)
        for (int write = 0; write < 2; ++write)
            for (int m16 = 0; m16 < 2; ++m16)
                for (int fk = 0; fk < FK_N; ++fk)
                    for (int mode = 0; mode < 4; ++mode) {
                        unsigned char raw[64], wire[160];
                        const size_t rn = faulted_request(tcp, write, m16, fk, raw);
                        if (rn == 0)
                            continue;
                        if (!mc_case("unsendable reply: %s %s%d request, %s; sink fails at reply octet 0..23 x errors {EIO, ENOMEM, EPIPE}; %s", tcp ? "tcp" : "serial",
                                     write ? "write" : "read", m16 ? 16 : 8, FKNAME[fk], SMODE[mode]))
                            continue;
                        memset(n_detected, 0, sizeof n_detected);
                        n_valid = 0;
                        struct rframe rf;
                        const unsigned vset = frame_vset(tcp, raw, rn, &rf);
                        const size_t wn = tcp ? rr_lenprefix(wire, raw, rn) : rr_slip(wire, raw, rn);
                        bool ok = true;
                        long hits = 0;
                        for (int at = 0; at < 24 && ok; ++at)
                            for (int ei = 0; ei < 3 && ok; ++ei) {
                                session_start(tcp, m16, mode);
                                D.sink_err_at = at;
                                D.sink_err = ERRS[ei];
                                drv_feed(&D, wire, wn);
                                struct lp_result r;
                                lp_round(&D, &g_mf, &r);
                                mc_trans(3);
                                snprintf(fd, sizeof fd, "sink fails with %d at reply octet %d", ERRS[ei], at);
                                if (mc.verbose && mc.active) {
                                    mc_log("%s (%s): recv rc=%d error.id=%d process rc=%d calls=%d sent=%zu octets", fd, D.sink_err_hit ? "hit" : "not reached", r.rrc,
                                           r.errid, r.prc, r.calls, D.outlen);
                                    mc_log_hex("frame", raw, rn);
                                }
                                hits += D.sink_err_hit;
                                ok = judge(tcp, &rf, vset, &r, D.sink_err_hit, fd);
                                lp_release(&D);
                            }
                        mc_end(hits > 0, !ok ? "failed" : hits ? "reply-unsendable" : "sink-failure-not-reached");
                    }
}

/* ---- part 5: sessions ----------------------------------------------------------------------- */
enum { SK_GOOD, SK_BAD, SK_CHAN };
struct sitem {
    int kind;
    char name[48];
    unsigned char raw[64];
    size_t rn;
    unsigned char wire[760];
    size_t wn;
    long src_err_at;
    int src_err;
    bool alloc_fails; /* every allocation of the round is refused */
    bool valid_req;   /* the line delivers a request that is valid by the reference, whole */
};
#define MAXSITEMS 24
static struct sitem sitems[2][MAXSITEMS];
static int nsitems[2];

static void
build_sitems(bool tcp)
{
    struct sitem *it = sitems[tcp];
    int n = 0;
    const bool m16 = true;
    /* good requests */
    it[n].kind = SK_GOOD;
    snprintf(it[n].name, sizeof it[n].name, "good-write");
    it[n].wn = good_request(tcp, m16, it[n].wire);
    n++;
    {
        struct rframe f;
        memset(&f, 0, sizeof f);
        f.type = RT_READ_REQ;
        f.options = RO_W16 | (tcp ? 0 : RO_HDCRC);
        f.seq = 0x7002;
        f.addr = 0x00000910;
        f.bsize = 2;
        it[n].kind = SK_GOOD;
        snprintf(it[n].name, sizeof it[n].name, "good-read");
        it[n].rn = rr_build(it[n].raw, &f, false, false);
        it[n].wn = tcp ? rr_lenprefix(it[n].wire, it[n].raw, it[n].rn) : rr_slip(it[n].wire, it[n].raw, it[n].rn);
        n++;
    }
    /* corrupted write requests, one per fault class; a corrupted read request */
    static const int FK[] = { FK_HDCRC, FK_RESERVED, FK_PLCRC, FK_LONG, FK_VERSION };
    for (unsigned k = 0; k < sizeof FK / sizeof *FK; ++k) {
        const size_t rn = faulted_request(tcp, true, m16, FK[k], it[n].raw);
        if (rn == 0)
            continue;
        it[n].kind = SK_BAD;
        snprintf(it[n].name, sizeof it[n].name, "write: %s", FKNAME[FK[k]]);
        it[n].rn = rn;
        it[n].wn = tcp ? rr_lenprefix(it[n].wire, it[n].raw, rn) : rr_slip(it[n].wire, it[n].raw, rn);
        n++;
    }
    {
        const size_t rn = faulted_request(tcp, false, m16, tcp ? FK_TYPE : FK_HDCRC, it[n].raw);
        it[n].kind = SK_BAD;
        snprintf(it[n].name, sizeof it[n].name, "read: %s", FKNAME[tcp ? FK_TYPE : FK_HDCRC]);
        it[n].rn = rn;
        it[n].wn = tcp ? rr_lenprefix(it[n].wire, it[n].raw, rn) : rr_slip(it[n].wire, it[n].raw, rn);
        n++;
    }
    /* channel-level failures while a good write request arrives */
    static const int SERR[] = { -EIO, -EILSEQ, -EPROTO };
    for (unsigned k = 0; k < 3; ++k) {
        it[n].kind = SK_CHAN;
        snprintf(it[n].name, sizeof it[n].name, "source fails with %d inside a good write", SERR[k]);
        it[n].wn = good_request(tcp, m16, it[n].wire);
        it[n].src_err_at = k == 0 ? 3 : k == 1 ? 13 : (long)it[n].wn - 1;
        it[n].src_err = SERR[k];
        n++;
    }
    it[n].kind = SK_CHAN;
    snprintf(it[n].name, sizeof it[n].name, tcp ? "stream ends inside a good write" : "escape violation inside a good write");
    it[n].wn = good_request(tcp, m16, it[n].wire);
    if (tcp)
        it[n].wn -= 2;
    else {
        it[n].wire[9] = 0xdb;
        it[n].wire[10] = 0x00;
        MC_ANCHOR(!lp_slip_may_be_valid(it[n].wire, it[n].wn), "session item: no reading of the escape violation yields a valid frame");
    }
    n++;
    it[n].kind = SK_CHAN;
    snprintf(it[n].name, sizeof it[n].name, "nothing arrives");
    it[n].wn = 0;
    n++;
    /* receptions that fail for want of memory in a receiver that takes a frame into one allocator
     * block (no block / frame larger than the block): if the library reports that reception failed
     * they are judged like a channel failure (their replies are C09's subject); a receiver that
     * reports the request as received (reserve block, growing block) has received a valid frame,
     * and executing valid frames is C06's subject */
    it[n].kind = SK_CHAN;
    snprintf(it[n].name, sizeof it[n].name, "good write while allocation fails");
    it[n].wn = good_request(tcp, m16, it[n].wire);
    it[n].alloc_fails = true;
    it[n].valid_req = true;
    n++;
    {
        static unsigned char big[BLOCKSIZE + 40], raw[BLOCKSIZE + 60];
        struct rframe f;
        memset(&f, 0, sizeof f);
        for (size_t i = 0; i < sizeof big; ++i)
            big[i] = (unsigned char)(i * 5 + 1);
        f.type = RT_WRITE_REQ;
        f.options = RO_W16 | (tcp ? 0 : RO_HDCRC | RO_PLCRC);
        f.seq = 0x7003;
        f.addr = 0x00000920;
        f.bsize = sizeof big / 2;
        f.payload = big;
        f.plen = sizeof big;
        const size_t rn = rr_build(raw, &f, false, false);
        struct rframe chk;
        MC_ANCHOR(rr_verdict(raw, rn, &chk) == RV_OK, "session item: the write larger than the block is valid by the reference");
        it[n].kind = SK_CHAN;
        snprintf(it[n].name, sizeof it[n].name, "good write larger than the block");
        it[n].wn = tcp ? rr_lenprefix(it[n].wire, raw, rn) : rr_slip(it[n].wire, raw, rn);
        it[n].valid_req = true;
        n++;
    }
    if (!tcp) {
        /* an empty frame is a truncation to zero octets: bad header encoding */
        it[n].kind = SK_BAD;
        snprintf(it[n].name, sizeof it[n].name, "empty frame");
        it[n].rn = 0;
        it[n].wire[0] = 0xc0;
        it[n].wn = 1;
        n++;
    }
    for (int i = 0; i < n; ++i)
        if (it[i].src_err == 0)
            it[i].src_err_at = -1; /* the source delivers what it has */
    nsitems[tcp] = n;
}

static void
part5(void)
{
    build_sitems(false);
    build_sitems(true);
    for (int sm = 0; sm < (g_th ? 3 : 1); ++sm)
    for (int tcp = 0; tcp < 2; ++tcp)
        for (int mode = 0; mode < 4; mode += 2) { /* the sequence is its own history: no served request in front */
            for (int len = 2; len <= (g_th && sm == 0 ? 4 : 3); ++len) {
                g_srcmode = sm == 0 ? DRV_SRC_OCTET : sm == 1 ? DRV_SRC_CHUNK : DRV_SRC_CHUNK_GETBUFFER;
                int seq[4] = { 0, 0, 0, 0 };
                const int na = nsitems[tcp];
                for (;;) {
                    char sd[300];
                    size_t o = 0;
                    for (int k = 0; k < len; ++k)
                        o += (size_t)snprintf(sd + o, sizeof sd - o, "%s[%s]", k ? " " : "", sitems[tcp][seq[k]].name);
                    if (mc_case("session %s, %s, %s: %s", tcp ? "tcp" : "serial", SMODE[mode], SRCNAME[g_srcmode], sd)) {
                        memset(n_detected, 0, sizeof n_detected);
                        n_valid = 0;
                        session_start(tcp, true, mode);
                        bool ok = true, hasfail = false;
                        bool chan_failed = false; /* an earlier regp_recv of the session reported a failure (negative return) */
                        for (int k = 0; k < len && ok; ++k) {
                            const struct sitem *x = &sitems[tcp][seq[k]];
                            char fd[96];
                            snprintf(fd, sizeof fd, "round %d [%s]", k, x->name);
                            D.outlen = 0;
                            D.ncalls = 0;
                            drv_feed(&D, x->wire, x->wn);
                            D.src_err_at = x->src_err_at;
                            D.src_err = x->src_err ? x->src_err : -EIO;
                            D.fail_mask = x->alloc_fails ? ~0u << (D.allocs > 31 ? 31 : D.allocs) : 0;
                            struct lp_result r;
                            lp_round(&D, &g_mf, &r);
                            mc_trans(3);
                            if (mc.verbose && mc.active)
                                mc_log("%s: recv rc=%d error.id=%d process rc=%d calls=%d reply=%zu octets", fd, r.rrc, r.errid, r.prc, r.calls, D.outlen);
                            /* After a channel failure that regp_recv reported (hard source error,
                             * framing violation: negative return) an instance may latch the failure
                             * and refuse reception until the caller installs a channel again, and a
                             * framing layer may resynchronise at the next frame boundary and so lose
                             * the frame that follows: a round in which regp_recv < 0 again reports a
                             * channel failure handed no frame over, so there is nothing to classify.
                             * Judged like a channel failure: not executed, not acknowledged, ledger. */
                            const bool unread = chan_failed && x->wn > 0 && r.rrc < 0;
                            if (r.rrc < 0)
                                chan_failed = true;
                            if (unread && mc.verbose && mc.active)
                                mc_log("%s: regp_recv reports a channel failure again (after an earlier reported channel failure): judged like a channel failure", fd);
                            if (x->kind == SK_BAD && !unread) {
                                struct rframe rf;
                                const unsigned vset = frame_vset(tcp, x->raw, x->rn, &rf);
                                ok = judge(tcp, &rf, vset, &r, false, fd);
                                hasfail = true;
                            } else if (x->valid_req && !unread && r.rrc >= 0 && r.errid == 0 && r.hadframe) {
                                /* a valid request that the library reports as received: nothing of C07's applies */
                                n_valid++;
                            } else if (x->kind == SK_CHAN || unread) {
                                unsigned char scratch[DRV_WIRE];
                                struct rframe reply[8];
                                bool acked;
                                hasfail = true;
                                (void)decode_replies(tcp, 0, D.outlen, true, reply, scratch, &acked);
                                if (r.calls != 0) {
                                    mc_fail("C07/never-executed", "%s: no frame was received (recv rc=%d error.id=%d) but %d memory accesses happened (%s addr=%08x)", fd, r.rrc,
                                            r.errid, r.calls, D.call[0].write ? "write" : "read", D.call[0].addr);
                                    ok = false;
                                } else if (acked) {
                                    mc_fail("C07/never-acknowledged", "%s: no frame was received but an acknowledgement was sent", fd);
                                    ok = false;
                                } else if (lp_bad_releases(&D)) {
                                    mc_fail("C07/ledger", "%s: %d releases of something that is no live block (double or foreign release; allocs=%d frees=%d)", fd,
                                            lp_bad_releases(&D), D.allocs, D.frees);
                                    ok = false;
                                }
                            }
                        }
                        lp_release(&D);
                        mc_end(true, !ok ? "failed" : hasfail ? "session-with-failed-reception" : "session-all-received");
                    }
                    int k = len - 1;
                    while (k >= 0 && ++seq[k] == na)
                        seq[k--] = 0;
                    if (k < 0)
                        break;
                }
            }
        }
    g_srcmode = DRV_SRC_OCTET;
}

/* ---- part 7: frames that fill the block, truncated and extended ------------------------------ */
/* A valid write request whose frame ends at (or a few octets before / behind)
 * the end of what the receiver takes into a block, as built, cut short by 1..3
 * octets and extended by 1..300 octets (the extension is covered by the length
 * prefix / lies in front of the END octet).  Up to the capacity the library
 * shows (learned, regp_ref.h) the receiver's verdict is judged like everywhere
 * else; a frame longer than that cannot have been received whole: what the
 * receiver calls it and what it answers is C09's subject, but it is no valid
 * frame by the document, so it is never executed and never acknowledged.  The
 * block sizes put the capacity on a multiple of the 64 octets in which a source
 * with a buffer of its own hands the frame on, between two multiples, and below
 * the first one. */
static void
part7(void)
{
    static const char *SRC7[] = { "octet source", "chunk source", "chunk source with a 64-octet buffer of its own", "chunk source with a 1024-octet buffer of its own" };
    static const size_t BSZ[] = { BLOCKSIZE, sizeof(RPFrame) + 100, sizeof(RPFrame) + 33 };
    static const int EXT[] = { -3, -2, -1, 0, 1, 2, 3, 4, 30, 63, 64, 65, 130, 300 };
    static const unsigned char EO[3] = { 0x00, 0xff, 0xc0 };
    static bool capped, capped_serial;
    char fd[160];
    for (unsigned bi = 0; bi < sizeof BSZ / sizeof *BSZ; ++bi)
        for (int tcp = 0; tcp < 2; ++tcp)
            for (int sm = 0; sm < 4; ++sm)
                for (int w16 = 0; w16 < 2; ++w16)
                    for (int mode = 0; mode < 4; ++mode)
                        for (int dl = g_th ? -18 : -4; dl <= 2; ++dl) {
                            const size_t bsz = BSZ[bi], guess = bsz - sizeof(RPFrame), hdr = tcp ? 12 : 16;
                            if ((long)guess + dl < (long)hdr + 1)
                                continue;
                            const size_t L = (size_t)((long)guess + dl), plen = L - hdr;
                            if (w16 && (plen & 1))
                                continue;
                            if (!mc_case("capacity: blocksize=%zu (descriptor + %zu) %s write%d request of %zu octets as built, cut short by 1..3, extended by 1..300 octets of 00/ff/c0, 2 payload contents; %s, %s",
                                         bsz, guess, tcp ? "tcp" : "serial", w16 ? 16 : 8, L, SRC7[sm], SMODE[mode]))
                                continue;
                            memset(n_detected, 0, sizeof n_detected);
                            n_valid = 0;
                            g_srcmode = sm == 0 ? DRV_SRC_OCTET : sm == 2 ? DRV_SRC_CHUNK_GETBUFFER : DRV_SRC_CHUNK;
                            g_big_buffer = sm == 3;
                            /* the capacity the library shows for this block size (probes run inside the case) */
                            size_t cap = drv_learn_capacity(bsz);
                            bool fits_judged = true;
                            if (cap == DRV_CAP_UNKNOWN) {
                                if (!capped)
                                    mc_cap("the library's answers define no receive capacity for some block sizes: block - sizeof(RPFrame) assumed there");
                                capped = true;
                                cap = guess;
                            } else if (!tcp && !drv_capacity_serial_agrees(bsz)) {
                                if (!capped_serial)
                                    mc_cap("serial frames do not meet the capacity learned on the length-prefix transport: only 'never executed, never acknowledged' judged for serial frames at the capacity");
                                capped_serial = true;
                                fits_judged = false;
                            }
                            g_drv = &D;
                            bool ok = true;
                            long n_over = 0;
                            for (int content = 0; content < 2 && ok; ++content)
                                for (unsigned ei = 0; ei < sizeof EXT / sizeof *EXT && ok; ++ei)
                                    for (int eo = 0; eo < (EXT[ei] > 0 ? 3 : 1) && ok; ++eo) {
                                        unsigned char pl[BLOCKSIZE], X[BLOCKSIZE + 320], wire[2 * (BLOCKSIZE + 320) + 16];
                                        struct rframe f, rf;
                                        memset(&f, 0, sizeof f);
                                        for (size_t i = 0; i < plen; ++i)
                                            pl[i] = content ? 0 : (unsigned char)(0xb9 + 7 * i);
                                        f.type = RT_WRITE_REQ;
                                        f.options = (w16 ? RO_W16 : 0) | (tcp ? 0 : RO_HDCRC | RO_PLCRC);
                                        f.seq = 0x7c07;
                                        f.addr = 0x00000b00;
                                        f.bsize = (uint32_t)(plen / (w16 ? 2 : 1));
                                        f.payload = pl;
                                        f.plen = plen;
                                        size_t n = rr_build(X, &f, false, false);
                                        if (n != L)
                                            mc_broken("part 7: frame of %zu octets built, %zu wanted", n, L);
                                        if (EXT[ei] < 0)
                                            n -= (size_t)-EXT[ei];
                                        for (int i = 0; i < EXT[ei]; ++i)
                                            X[n++] = EO[eo];
                                        if (EXT[ei] < 0)
                                            snprintf(fd, sizeof fd, "content %d, cut short by %d octets (%zu octets)", content, -EXT[ei], n);
                                        else if (EXT[ei] > 0)
                                            snprintf(fd, sizeof fd, "content %d, extended by %d octets %02x (%zu octets)", content, EXT[ei], EO[eo], n);
                                        else
                                            snprintf(fd, sizeof fd, "content %d, as built (%zu octets)", content, n);
                                        const unsigned vset = frame_vset(tcp, X, n, &rf);
                                        const size_t wn = tcp ? rr_lenprefix(wire, X, n) : rr_slip(wire, X, n);
                                        session_start_ex(tcp, w16, mode, bsz);
                                        drv_feed(&D, wire, wn);
                                        struct lp_result r;
                                        lp_round(&D, &g_mf, &r);
                                        mc_trans(3);
                                        if (mc.verbose && mc.active)
                                            mc_log("%s: recv rc=%d error.id=%d process rc=%d calls=%d reply=%zu octets; reference verdict set=%02x; learned capacity %zu", fd, r.rrc,
                                                   r.errid, r.prc, r.calls, D.outlen, vset, cap);
                                        if (n <= cap && fits_judged)
                                            ok = judge(tcp, &rf, vset, &r, false, fd);
                                        else if (!(vset & RV_OK)) {
                                            unsigned char scratch[DRV_WIRE];
                                            struct rframe reply[8];
                                            bool acked;
                                            n_over++;
                                            (void)decode_replies(tcp, r.out0, r.out1, true, reply, scratch, &acked);
                                            if (r.calls != 0) {
                                                mc_fail("C07/never-executed", "%s: the frame is longer than the block takes (capacity %zu) and no valid frame by the document, but caused %d memory accesses (%s addr=%08x size=%zu; recv rc=%d error.id=%d)",
                                                        fd, cap, r.calls, D.call[0].write ? "write" : "read", D.call[0].addr, D.call[0].bsize, r.rrc, r.errid);
                                                ok = false;
                                            } else if (acked) {
                                                mc_fail("C07/never-acknowledged", "%s: the frame is longer than the block takes (capacity %zu) and no valid frame by the document, but was acknowledged", fd, cap);
                                                ok = false;
                                            } else if (r.errid == 0 && r.rrc >= 0) {
                                                mc_fail("C07/payload-size-verified", "%s: receiver says valid (rc=%d error.id=0); an independent reading of the document says %s", fd, r.rrc,
                                                        vname(vset & -vset));
                                                ok = false;
                                            } else if (lp_bad_releases(&D)) {
                                                mc_fail("C07/ledger", "%s: %d releases of something that is no live block (double or foreign release)", fd, lp_bad_releases(&D));
                                                ok = false;
                                            }
                                        }
                                        lp_release(&D);
                                    }
                            g_srcmode = DRV_SRC_OCTET;
                            g_big_buffer = false;
                            mc_end(true, !ok ? "failed" : n_over ? "capacity-extension-refused" : "capacity-frames-judged");
                        }
}

/* ---- part 6: frames the library itself puts on a serial line -------------------------------- */
static struct drv E;
#define NEMIT (12 + 2 * 2 * 12 + 4)

/* emitted frame #k as raw octets; 0 if the library did not emit exactly one frame */
static size_t
emit_frame(int k, unsigned char *raw, char *name, size_t nn)
{
    static const unsigned char data[8] = { 0x01, 0xc0, 0x02, 0xdb, 0x03, 0x04, 0x05, 0x06 };
    unsigned char scratch[DRV_WIRE];
    struct rr_frames fr;
    if (k < 12) {
        const int kind = k / 3;
        const size_t n = (size_t)(k % 3) + 1;
        drv_init(&E, false, kind & 1, BLOCKSIZE, true);
        uint16_t w[4];
        memcpy(w, data, sizeof w);
        int rc;
        switch (kind) {
        case 0: rc = regp_req_read8(&E.p, 0x00c00064, n); break;
        case 1: rc = regp_req_read16(&E.p, 0x00c00064, n); break;
        case 2: rc = regp_req_write8(&E.p, 0x00c00064, n, data); break;
        default: rc = regp_req_write16(&E.p, 0x00c00064, n, w); break;
        }
        (void)rc;
        snprintf(name, nn, "%s request of %zu words", kind == 0 ? "read8" : kind == 1 ? "read16" : kind == 2 ? "write8" : "write16", n);
    } else if (k >= 12 + 48) {
        /* what reception itself sends: the two meta messages, the busy and the receive-overflow response */
        const int j = k - 60;
        static unsigned char big[BLOCKSIZE + 40], rq[BLOCKSIZE + 60], w[2 * BLOCKSIZE + 130];
        drv_init(&E, false, true, BLOCKSIZE, true);
        struct rframe f;
        memset(&f, 0, sizeof f);
        f.version = j == 0;
        f.type = RT_WRITE_REQ;
        f.options = RO_W16 | RO_HDCRC | RO_PLCRC;
        f.seq = 0x1357;
        f.addr = 0x00c00064;
        f.bsize = j == 3 ? sizeof big / 2 : 2;
        f.payload = j == 3 ? big : data;
        f.plen = j == 3 ? sizeof big : 4;
        const size_t rn = rr_build(rq, &f, j == 1, false);
        drv_feed(&E, w, rr_slip(w, rq, rn));
        if (j == 2)
            E.fail_mask = ~0u;
        RPMaybeFrame mf;
        memset(&mf, 0, sizeof mf);
        struct lp_result r;
        lp_round(&E, &mf, &r);
        snprintf(name, nn, "%s", j == 0 ? "meta message: bad header encoding" : j == 1 ? "meta message: bad header checksum" : j == 2 ? "busy response" : "receive-overflow response");
    } else {
        const int j = k - 12;
        const unsigned code = (unsigned)(j % 12);
        const bool write = (j / 12) & 1, m16 = (j / 24) & 1;
        drv_init(&E, false, m16, BLOCKSIZE, true);
        E.verdict = (RPResponse)code;
        E.verdict_addr = 0x00c0db65;
        unsigned char rq[32], w[64];
        struct rframe f;
        memset(&f, 0, sizeof f);
        f.type = write ? RT_WRITE_REQ : RT_READ_REQ;
        f.options = (m16 ? RO_W16 : 0) | RO_HDCRC | (write ? RO_PLCRC : 0);
        f.seq = 0x2468;
        f.addr = 0x00c00064;
        f.bsize = 2;
        f.payload = data;
        f.plen = write ? (m16 ? 4 : 2) : 0;
        const size_t rn = rr_build(rq, &f, false, false);
        drv_feed(&E, w, rr_slip(w, rq, rn));
        RPMaybeFrame mf;
        memset(&mf, 0, sizeof mf);
        struct lp_result r;
        lp_round(&E, &mf, &r);
        snprintf(name, nn, "response to a %s%d request, backend verdict %u", write ? "write" : "read", m16 ? 16 : 8, code);
    }
    size_t rn = 0;
    if (rr_unframe(false, E.out, E.outlen, scratch, &fr) == 1 && fr.len[0] <= 64) {
        rn = fr.len[0];
        memcpy(raw, scratch + fr.off[0], rn);
    }
    drv_release(&E);
    g_drv = &D;
    return rn;
}

static void
part6(void)
{
    char fd[160], name[96];
    unsigned char raw[64], x[80];
    for (int k = 0; k < NEMIT; ++k) {
        size_t n = 0;
        bool have = false;
        for (int fam = 0; fam < 4; ++fam) {
            static const char *FN[] = { "unmodified", "every single-bit flip", "every two-bit flip inside octets >= 2", "every truncation" };
            if (!mc_would_run()) {
                mc_skip_case();
                continue;
            }
            if (!have) {
                n = emit_frame(k, raw, name, sizeof name);
                have = true;
                drv_init(&D, false, true, BLOCKSIZE, true);
                g_chan_tcp = 0;
            }
            if (!mc_case("emitted#%d (%s), as the library put it on a serial line: %s", k, name, FN[fam]))
                continue;
            reset_counts();
            if (n == 0) {
                mc_end(false, "nothing-emitted"); /* emission is C08's subject */
                continue;
            }
            const size_t nbits = n * 8;
            bool ok = true;
            g_escape_mode = 3;
            if (fam == 0) {
                ok = run_frame(false, raw, n, false, "unmodified");
            } else if (fam == 1) {
                for (size_t t = 0; t < nbits && ok; ++t) {
                    memcpy(x, raw, n);
                    flipbit(x, t);
                    snprintf(fd, sizeof fd, "bit %zu flipped", t);
                    ok = run_frame(false, x, n, true, fd);
                }
            } else if (fam == 2) {
                for (size_t t1 = 16; t1 < nbits && ok; ++t1)
                    for (size_t t2 = t1 + 1; t2 < nbits && ok; ++t2) {
                        memcpy(x, raw, n);
                        flipbit(x, t1);
                        flipbit(x, t2);
                        snprintf(fd, sizeof fd, "bits %zu and %zu flipped", t1, t2);
                        ok = run_frame(false, x, n, true, fd);
                    }
            } else {
                for (size_t len = 0; len < n && ok; ++len) {
                    snprintf(fd, sizeof fd, "truncated to %zu octets", len);
                    ok = run_frame(false, raw, len, true, fd);
                }
            }
            g_escape_mode = 0;
            mc_end(true, !ok ? "failed" : fam == 0 ? (n_valid ? "emitted-accepted" : "emitted-classified") : outcome_of(true));
        }
    }
}

int
main(int argc, char **argv)
{
    mc_init(argc, argv);
    g_th = mc_thorough();
    MC_ANCHOR(rr_crc(0, (const unsigned char *)"123456789", 9) == 0xbb3d, "CRC check value");
    {
        /* anchors: wire images of t-register-protocol.c are valid by the reference */
        static const unsigned char a[] = { 0x03, 0x00, 0x00, 0x00, 0x00, 0x00, 0x00, 0x64, 0x00, 0x00, 0x00, 0x01, 0x0c, 0xb4 };
        static const unsigned char b[] = { 0x07, 0x10, 0x00, 0x00, 0x00, 0x00, 0x00, 0x64, 0x00, 0x00, 0x00, 0x01, 0x8e, 0x9d, 0xc0, 0x2a, 0x64, 0x00 };
        static const unsigned char c[] = { 0x01, 0x10, 0x00, 0x00, 0x00, 0x00, 0x00, 0x64, 0x00, 0x00, 0x00, 0x01, 0x64, 0x00 };
        struct rframe f;
        MC_ANCHOR(rr_verdict(a, sizeof a, &f) == RV_OK, "serial read request");
        MC_ANCHOR(rr_verdict(b, sizeof b, &f) == RV_OK && f.plen == 2, "serial read response");
        MC_ANCHOR(rr_verdict(c, sizeof c, &f) == RV_OK && f.plen == 2, "tcp read response");
    }
    make_corpus();
    drv_init(&D, false, true, BLOCKSIZE, true);
    g_chan_tcp = 0;
    part1();
    part2();
    drv_release(&D);
    part3();
    part4();
    part5();
    part6();
    part7();
    if (mc.only < 0 && n_skipped_valid > 0)
        mc_cap("%ld corrupted frames were valid by the reference itself (undetectable, skipped)", n_skipped_valid);
    char bound[2200];
    snprintf(bound, sizeof bound, "%d corpus frames x (all 1-bit flips, all 2-bit flips in octets>=2, all bursts of span 2..%s at every bit offset >= 16 in transmission order, all truncations, 9 extensions); generated: 2 transports x 3 versions x 16 types x 16 option patterns x 16 meta x block size {0,1,2 with payload n-1,n,n+1; 23 sizes straddling 2^7,2^8,2^15,2^16,2^31,2^32 with payload 0..7 octets} x checksums right/wrong x header cuts; line faults: corpus x (every 1-bit flip of the SLIP stream%s, every cut, every lost/duplicated octet) x {indeterminate RPMaybeFrame, after a served request} x {heap, pool allocator}, documented loop until the stream is used up%s; unsendable replies: 8 fault kinds x read/write x 8/16 x transports x sink failure at reply octet 0..23 x 3 error codes x 4 session modes; sessions: every sequence of 2..%d receptions out of %d (serial) / %d (tcp) items (good requests, corrupted frames of every class, channel failures) x heap/pool%s; emitted: %d frame kinds the library emits on a serial line x (1-bit flips, 2-bit flips in octets>=2, truncations); capacity: 3 block sizes (256, descriptor+100, descriptor+33) x transports x 4 source kinds (octet, chunk, chunk with own buffer of 64 / 1024 octets) x write8/16 requests ending %d octets before .. 2 behind block - sizeof(RPFrame) x 4 session modes x {as built, cut short by 1..3, extended by 1,2,3,4,30,63,64,65,130,300 octets of 00/ff/c0} x 2 payload contents, judged against the capacity learned from the library",
             ncorpus, g_th ? "16 (every pattern)" : "9 (every pattern) and solid runs up to 16", g_th ? ", every 2-bit flip after a served request" : "", g_th ? ", 1-bit flips/cuts with octet, chunk and getbuffer sources" : "", g_th ? 4 : 3,
             nsitems[0], nsitems[1], g_th ? ", sequences of 2..3 also with chunk and getbuffer sources" : "", NEMIT, g_th ? 18 : 4);
    mc_finish(true, bound);
    return 0;
}
