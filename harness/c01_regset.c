/*
 * C01 -- typed register set/get: bounded-exhaustive enumeration over
 * type x byte order x backing x constraint configuration x value sets, on a
 * three-register table (guard u16, register under test, guard u16) in one
 * exact-size area.  Reference: regtab.h (octet image, IEEE class by bit
 * pattern, typed constraint comparison).
 *
 * Further dimensions (strengthening round):
 *   S  histories of the caller's value object: the RegisterValue handed to
 *      set/set_unsafe (and the one handed to get as destination) held
 *      something else before -- a fill pattern, or a value of a wider type
 *      (assigned, or fetched with register_get from another table) -- so that
 *      the octets of the union outside the active member and the padding are
 *      not zero.  Crossed with bound/default objects of the register entry
 *      that carry the same stale octets.
 *   G  area geometries: 1..4 areas, the register under test in every area
 *      position, every subset of the other areas empty (no register), so
 *      that empty areas occur leading, in the middle, trailing and combined.
 *   H  table histories: sequences of successful and failing register_init
 *      calls (eight ways to fail, one in the other byte order) ending in a successful one, followed by one
 *      other call of the register API (sanitise, block access, bit
 *      operations, iteration ..., also with failing area callbacks; sanitise
 *      that repairs -- or, its write refused, fails to repair -- the register
 *      under test or a range-constrained neighbour whose words were changed
 *      out of band) before the sets under test: nothing may leak from an earlier call into the
 *      decision of a later set.
 *
 * A table that register_init refuses ends its case as a trivial one
 * (init-refused): whether a description is accepted is C04's sentence.  So does
 * a case whose intervening call reached an injected callback fault and left a
 * table that is wholly or partly out of service (any non-success answer to a
 * zero-length block read or to a full-extent block read of one of its areas,
 * faults disarmed: latched-after-fault): no statement mentions driver I/O
 * errors.  Handles that are not registers are built from
 * the library's handle type (entries.., MAX/2, MAX/2+1, MAX), not literals.
 */
#include "mc.h"
#include "regtab.h"

#include <float.h>

#define MAXV 700

#define BOUND_QUICK                                                                                                              \
    "8 types x LE/BE x mem/cb x constraint configurations x (handles entries..entries+2, MAX/2, MAX/2+1, MAX of the handle type, type mismatches, all 16-bit values, ordered pairs over the " \
    "closed value set; value objects with 4 fill patterns / 24 previous wider values assigned / 12 fetched with register_get, x "   \
    "entry bounds clean/with the same past) + 49 area geometries (1..4 areas, register in every area, every subset of the others "  \
    "empty) x register area mem/cb x load/skip defaults x 6 styles of the other areas x register between two guards / alone in its area x 6 constraint kinds x init histories {ok; ok,ok} + 6 geometries x all init histories of <= 2 "   \
    "steps over 10 step kinds x 29 intervening API calls (incl. sanitise repairing / failing to repair a range-constrained neighbour of the register)"
#define BOUND_THOROUGH                                                                                                           \
    BOUND_QUICK " + all 16-bit values in 3 stale objects + geometries x (all constraint configurations | all gap patterns) "     \
                "+ init histories of <= 3 steps + all 2^32 patterns of u32/s32/f32 under a range constraint x LE/BE"

struct cfg {
    int ckind;
    RegisterValueU lo, hi, def;
};

static uint64_t V[MAXV];
static int nV;

static void
addv(uint64_t bits)
{
    for (int i = 0; i < nV; ++i)
        if (V[i] == bits)
            return;
    if (nV < MAXV)
        V[nV++] = bits;
}

static uint64_t
mask_of(RegisterType t)
{
    const unsigned w = ref_words(t) * 16;
    return w == 64 ? ~0ull : ((1ull << w) - 1);
}

static uint64_t
f32bits(float f)
{
    uint32_t x;
    memcpy(&x, &f, 4);
    return x;
}

static uint64_t
f64bits(double d)
{
    uint64_t x;
    memcpy(&x, &d, 8);
    return x;
}

/* the closed value set of DESIGN C01, as raw patterns of the type */
static void
make_values(RegisterType t, const struct cfg *c)
{
    /* the set depends on the type and the two bounds only: keep the last one */
    static int have_t = -1;
    static uint64_t have_lo, have_hi;
    if (have_t == (int)t && have_lo == ref_bits(t, c->lo) && have_hi == ref_bits(t, c->hi))
        return;
    have_t = (int)t;
    have_lo = ref_bits(t, c->lo);
    have_hi = ref_bits(t, c->hi);
    nV = 0;
    const uint64_t m = mask_of(t);
    const unsigned w = ref_words(t) * 16;
    if (!type_is_float(t)) {
        addv(0);
        addv(1);
        addv(m);               /* -1 / max unsigned */
        addv(m >> 1);          /* max signed */
        addv((m >> 1) + 1);    /* min signed */
        addv((m >> 1) + 2);
        addv((m >> 1) - 1);
        addv(m - 1);
        for (unsigned k = 0; k < w; ++k) {
            addv((1ull << k) & m);
            addv(((1ull << k) + 1) & m);
            addv(((1ull << k) - 1) & m);
        }
        static const unsigned lanev[] = { 0x00, 0x01, 0x7f, 0x80, 0xff };
        for (unsigned lane = 0; lane < w / 8; ++lane)
            for (unsigned i = 0; i < 5; ++i) {
                addv(((uint64_t)lanev[i] << (8 * lane)) & m);
                addv((m & ~(0xffull << (8 * lane))) | ((uint64_t)lanev[i] << (8 * lane)));
            }
        const uint64_t b[2] = { ref_bits(t, c->lo), ref_bits(t, c->hi) };
        for (int i = 0; i < 2; ++i) {
            addv(b[i]);
            addv((b[i] + 1) & m);
            addv((b[i] - 1) & m);
        }
    } else if (t == REG_TYPE_FLOAT32) {
        static const uint32_t cls[] = {
            0x00000000, 0x80000000, 0x00000001, 0x80000001, 0x007fffff, 0x807fffff,
            0x00800000, 0x80800000, 0x7f7fffff, 0xff7fffff, 0x3f800000, 0xbf800000,
            0x3fc00000, 0xbfc00000, 0x7f800000, 0xff800000, 0x7fc00000, 0xffc00000,
            0x7fc00001, 0x7fffffff, 0x7f800001, 0xff800001, 0x7fa00000, 0x42f60000,
        };
        for (unsigned i = 0; i < sizeof cls / sizeof *cls; ++i)
            addv(cls[i]);
        const float b[2] = { c->lo.f32, c->hi.f32 };
        for (int i = 0; i < 2; ++i) {
            addv(f32bits(b[i]));
            addv(f32bits(nextafterf(b[i], INFINITY)));
            addv(f32bits(nextafterf(b[i], -INFINITY)));
        }
    } else {
        static const uint64_t cls[] = {
            0x0000000000000000ull, 0x8000000000000000ull, 0x0000000000000001ull,
            0x8000000000000001ull, 0x000fffffffffffffull, 0x800fffffffffffffull,
            0x0010000000000000ull, 0x8010000000000000ull, 0x7fefffffffffffffull,
            0xffefffffffffffffull, 0x3ff0000000000000ull, 0xbff0000000000000ull,
            0x3ff8000000000000ull, 0xbff8000000000000ull, 0x7ff0000000000000ull,
            0xfff0000000000000ull, 0x7ff8000000000000ull, 0xfff8000000000000ull,
            0x7ff8000000000001ull, 0x7fffffffffffffffull, 0x7ff0000000000001ull,
            0xfff0000000000001ull, 0x7ff4000000000000ull, 0x405ec00000000000ull,
            /* patterns whose halves look harmless / harmful as f32 */
            0x7ff0000000000000ull >> 32, 0x000000007f800000ull, 0x3ff000007fc00000ull,
        };
        for (unsigned i = 0; i < sizeof cls / sizeof *cls; ++i)
            addv(cls[i]);
        const double b[2] = { c->lo.f64, c->hi.f64 };
        for (int i = 0; i < 2; ++i) {
            addv(f64bits(b[i]));
            addv(f64bits(nextafter(b[i], INFINITY)));
            addv(f64bits(nextafter(b[i], -INFINITY)));
        }
    }
}

/* constraint configurations per type; the ascending bound menu of the last
 * call stays available in cfgB[0..cfgnb) */
static RegisterValueU cfgB[8];
static int cfgnb;

static int
make_cfgs(RegisterType t, struct cfg *out)
{
    int n = 0;
    RegisterValueU *const B = cfgB;
    int nb = 0;
    if (type_is_float(t)) {
        const double fb[] = { -1.0e30, -1.5, 0.0, 1.5, 123.0, 1.0e30 };
        for (unsigned i = 0; i < 6; ++i) {
            B[nb] = vu_zero();
            if (t == REG_TYPE_FLOAT32)
                B[nb].f32 = (float)fb[i];
            else
                B[nb].f64 = fb[i];
            nb++;
        }
    } else if (type_is_unsigned(t)) {
        const uint64_t m = mask_of(t);
        const uint64_t ub[] = { 0, 1, 100, (m >> 1), (m >> 1) + 1, m - 1, m };
        for (unsigned i = 0; i < 7; ++i)
            B[nb++] = ref_from_bits(t, ub[i]);
    } else {
        const uint64_t m = mask_of(t);
        const uint64_t sb[] = { (m >> 1) + 1, (m >> 1) + 2, m /* -1 */, 0, 1, 100, (m >> 1) - 1, (m >> 1) };
        for (unsigned i = 0; i < 8; ++i)
            B[nb++] = ref_from_bits(t, sb[i]);
    }
    /* B is ascending in the type's order */
    out[n++] = (struct cfg){ K_NONE, vu_zero(), vu_zero(), B[nb / 2] };
    out[n++] = (struct cfg){ K_FAIL, vu_zero(), vu_zero(), B[nb / 2] };
    for (int i = 0; i < nb; ++i)
        out[n++] = (struct cfg){ K_MIN, B[i], vu_zero(), B[nb - 1] };
    for (int i = 0; i < nb; ++i)
        out[n++] = (struct cfg){ K_MAX, vu_zero(), B[i], B[0] };
    for (int i = 0; i < nb; i += 2)
        for (int j = i; j < nb; j += 3)
            out[n++] = (struct cfg){ K_RANGE, B[i], B[j], B[i] };
    out[n++] = (struct cfg){ K_CB, vu_zero(), vu_zero(), vu_zero() };
    cfgnb = nb;
    return n;
}

/* one representative configuration per constraint kind (blocks G and H) */
static int
pick_cfgs(RegisterType t, struct cfg *out)
{
    static struct cfg all[64];
    (void)make_cfgs(t, all);
    const RegisterValueU *B = cfgB;
    const int nb = cfgnb;
    int n = 0;
    out[n++] = (struct cfg){ K_NONE, vu_zero(), vu_zero(), B[nb / 2] };
    out[n++] = (struct cfg){ K_FAIL, vu_zero(), vu_zero(), B[nb / 2] };
    out[n++] = (struct cfg){ K_MIN, B[2], vu_zero(), B[nb - 1] };
    out[n++] = (struct cfg){ K_MAX, vu_zero(), B[3], B[0] };
    out[n++] = (struct cfg){ K_RANGE, B[2], B[5], B[2] };
    out[n++] = (struct cfg){ K_CB, vu_zero(), vu_zero(), vu_zero() };
    return n;
}

/* ---- the table in use and the register under test inside it ------------------ */

static struct tab tb;
static unsigned sz;            /* words of the register under test */
static RegisterHandle rut_h;   /* its handle */
static int rut_a;              /* the area it lives in */
static unsigned rut_off;       /* its word offset inside that area */
static bool area_pop[RT_MAXA]; /* the area holds registers (every word of a populated area belongs to one) */
static RegisterAtom before_w[RT_MAXW];

/* snapshot of all area storage into before_w (plain loops: for a handful of
 * words the sanitizer's memcpy/memcmp interceptors cost more than the copy) */
static inline void
snap(void)
{
    size_t k = 0;
    for (int i = 0; i < tb.s.na; ++i) {
        const RegisterAtom *w = tb.store[i];
        const uint32_t n = tb.s.a[i].size;
        for (uint32_t j = 0; j < n; ++j)
            before_w[k++] = w[j];
    }
}

static void
rut_simple(void)
{
    rut_h = 1;
    rut_a = 0;
    rut_off = 1;
    memset(area_pop, 0, sizeof area_pop);
    area_pop[0] = true;
}

static const char *
acc(RegisterAccessCode c)
{
    static const char *n[] = { "SUCCESS", "FAILURE", "UNINITIALISED", "NOENTRY", "RANGE", "INVALID", "READONLY", "IO_ERROR" };
    return (unsigned)c < 8 ? n[c] : "?";
}

/* storage against the snapshot in before_w.  regimg == NULL: every word of
 * every area as before ("leaving storage unchanged").  Otherwise: the words
 * of the register under test hold regimg and the words of every other
 * register are as before (words of areas without registers are nobody's
 * value; the statement does not speak about them after an accepted set). */
static bool
storage_is(const unsigned char *regimg, const char *clause, const char *what)
{
    size_t k = 0;
    for (int i = 0; i < tb.s.na; ++i)
        for (uint32_t j = 0; j < tb.s.a[i].size; ++j, ++k) {
            const RegisterAtom w = tb.store[i][j];
            if (regimg != NULL && i == rut_a && j >= rut_off && j < rut_off + sz) {
                RegisterAtom x;
                memcpy(&x, regimg + 2 * (j - rut_off), 2);
                if (w != x) {
                    mc_fail(clause, "%s: register words differ from the expected octet image (word %u holds %04x)", what,
                            (unsigned)(j - rut_off), w);
                    return false;
                }
            } else if ((regimg == NULL || area_pop[i]) && w != before_w[k]) {
                mc_fail(clause, "%s: word %u of area %d changed (%04x -> %04x)", what, (unsigned)j, i, before_w[k], w);
                return false;
            }
        }
    if (tb.cb_oob) {
        mc_fail("C01/area-bounds", "%s: area callback asked for words outside the area", what);
        tb.cb_oob = 0;
        return false;
    }
    return true;
}

/* ---- value objects with a past --------------------------------------------- */

struct stale {
    RegisterValue img;  /* what the object held before it is reused */
    int width;          /* words of the type it held (0: a fill pattern, applies to every register type) */
    char name[48];
};

#define MAXST 96
static struct stale ST[MAXST];
static int nST;

static void
vu_assign(RegisterValueU *u, RegisterType t, uint64_t bits)
{
    switch (t) {
    case REG_TYPE_UINT16: u->u16 = (uint16_t)bits; break;
    case REG_TYPE_SINT16: u->s16 = (int16_t)(uint16_t)bits; break;
    case REG_TYPE_UINT32: u->u32 = (uint32_t)bits; break;
    case REG_TYPE_SINT32: u->s32 = (int32_t)(uint32_t)bits; break;
    case REG_TYPE_UINT64: u->u64 = bits; break;
    case REG_TYPE_SINT64: u->s64 = (int64_t)bits; break;
    case REG_TYPE_FLOAT32: { uint32_t x = (uint32_t)bits; memcpy(&u->f32, &x, 4); break; }
    case REG_TYPE_FLOAT64: memcpy(&u->f64, &bits, 8); break;
    default: u->u64 = bits; break; /* the tag "invalid" names no member */
    }
}

/* the caller's object: what it held before (st; NULL = all octets zero), then
 * the type tag and the member of that type are assigned */
static RegisterValue
mkval(const RegisterValue *st, RegisterType vt, uint64_t bits)
{
    RegisterValue v;
    if (st != NULL)
        memcpy(&v, st, sizeof v);
    else
        memset(&v, 0, sizeof v);
    v.type = vt;
    vu_assign(&v.value, vt, bits);
    return v;
}

/* a bound / default object of a register entry with the same past */
static RegisterValueU
vu_over(const RegisterValue *st, RegisterType t, RegisterValueU clean)
{
    RegisterValueU u = st->value;
    vu_assign(&u, t, ref_bits(t, clean));
    return u;
}

static void
add_stale(const RegisterValue *img, int width, const char *fmt, ...) __attribute__((format(printf, 3, 4)));
static void
add_stale(const RegisterValue *img, int width, const char *fmt, ...)
{
    if (nST >= MAXST)
        mc_broken("stale table too small");
    struct stale *s = &ST[nST];
    memcpy(&s->img, img, sizeof s->img);
    s->width = width;
    va_list ap;
    va_start(ap, fmt);
    vsnprintf(s->name, sizeof s->name, fmt, ap);
    va_end(ap);
    nST++;
}

static void
make_stales(void)
{
    RegisterValue v;
    nST = 0;
    static const unsigned char fills[] = { 0xff, 0xa5, 0x80, 0x01 };
    for (unsigned i = 0; i < sizeof fills; ++i) {
        memset(&v, fills[i], sizeof v);
        add_stale(&v, 0, "fill-%02x", fills[i]);
    }
    /* a value of a wider type was assigned to the object (starting from an
     * all-zero object).  u32/u64 stand for s32/s64 as well: the octets are the
     * same and the type tag is overwritten on reuse. */
    static const uint32_t p32[] = { 0xffffffffu, 0x80000000u, 0x7fffffffu, 0x00010000u, 0x01234567u };
    static const uint32_t pf32[] = { 0x7fc00000u, 0x7f800000u, 0xbf800000u, 0x00000001u, 0x7149f2cau /* 1e30 */ };
    static const uint64_t p64[] = { ~0ull, 1ull << 63, ~0ull >> 1, 0x0123456789abcdefull, 1ull << 32, 1ull << 16, 0x00000000ffff0000ull, 0xffffffff00000000ull };
    static const uint64_t pf64[] = { 0x7ff8000000000000ull, 0x7ff0000000000000ull, 0xbff0000000000000ull, 1ull, 0x7e37e43c8800759cull /* 1e300 */, 0x3ff0000000000001ull };
    for (unsigned i = 0; i < sizeof p32 / sizeof *p32; ++i) {
        v = mkval(NULL, REG_TYPE_UINT32, p32[i]);
        add_stale(&v, 2, "was-u32=%08x", p32[i]);
    }
    for (unsigned i = 0; i < sizeof pf32 / sizeof *pf32; ++i) {
        v = mkval(NULL, REG_TYPE_FLOAT32, pf32[i]);
        add_stale(&v, 2, "was-f32=%08x", pf32[i]);
    }
    for (unsigned i = 0; i < sizeof p64 / sizeof *p64; ++i) {
        v = mkval(NULL, REG_TYPE_UINT64, p64[i]);
        add_stale(&v, 4, "was-u64=%016llx", (unsigned long long)p64[i]);
    }
    for (unsigned i = 0; i < sizeof pf64 / sizeof *pf64; ++i) {
        v = mkval(NULL, REG_TYPE_FLOAT64, pf64[i]);
        add_stale(&v, 4, "was-f64=%016llx", (unsigned long long)pf64[i]);
    }
    /* the object was the destination of register_get on a register of a wider
     * type in another table (the way such objects come about in applications).
     * What register_get leaves in the object is taken as it is. */
    static const RegisterType WT[] = { REG_TYPE_UINT32, REG_TYPE_SINT32, REG_TYPE_FLOAT32, REG_TYPE_UINT64, REG_TYPE_SINT64, REG_TYPE_FLOAT64 };
    static const uint64_t WP[6][2] = {
        { 0xffffffffu, 0x01234567u }, { 0x80000000u, 0xfedcba98u }, { 0xbf800000u, 0x7149f2cau },
        { ~0ull, 0x0123456789abcdefull }, { 1ull << 63, 0xfedcba9876543210ull }, { 0xbff0000000000000ull, 0x7e37e43c8800759cull },
    };
    struct tspec s;
    memset(&s, 0, sizeof s);
    s.na = 1;
    s.a[0] = (struct aspec){ 0, 18, REG_AF_RW, false, false };
    s.nr = 6;
    uint32_t a = 0;
    for (int i = 0; i < 6; ++i) {
        s.r[i] = (struct rspec){ WT[i], a, K_NONE, vu_zero(), vu_zero(), vu_zero() };
        a += ref_words(WT[i]);
    }
    static struct tab src;
    tab_build(&src, &s);
    (void)register_init(&src.t);
    for (int i = 0; i < 6; ++i)
        for (int k = 0; k < 2; ++k) {
            (void)register_set_unsafe(&src.t, (RegisterHandle)i, mkval(NULL, WT[i], WP[i][k]));
            memset(&v, 0, sizeof v);
            (void)register_get(&src.t, (RegisterHandle)i, &v);
            add_stale(&v, (int)ref_words(WT[i]), "got-%s=%0*llx", TYPE_NAME[WT[i]], (int)ref_words(WT[i]) * 4, (unsigned long long)WP[i][k]);
        }
    tab_free(&src);
}

/* does the past of the object leave anything behind when it is reused for a
 * register of type rt?  (a narrower or equally wide previous value assigned
 * to a zeroed object is overwritten completely: that object is the all-zero
 * one of the other blocks) */
static bool
stale_applies(const struct stale *s, RegisterType rt)
{
    return s->width == 0 || (unsigned)s->width > ref_words(rt);
}

/* ---- one set ------------------------------------------------------------------ */

/* one set (checked or not) of pattern `bits` typed vt, in an object with past
 * st, from the current storage; returns true when everything agreed */
static bool
one_set(RegisterType rt, const struct rspec *rs, RegisterType vt, uint64_t bits, bool checked, const RegisterValue *st,
        bool *accepted_out)
{
    unsigned char want[8];
    snap();
    const RegisterValue v = mkval(st, vt, bits);
    const bool typed = (vt == rt);
    const bool storable = typed && ref_storable(rt, bits);
    const bool accept = storable && (!checked || ref_constraint(rs, v.value));
    RegisterAccess a = checked ? register_set(&tb.t, rut_h, v) : register_set_unsafe(&tb.t, rut_h, v);
    mc_trans(1);
    mc_log("%s(%s %016llx) -> %s", checked ? "set" : "set_unsafe", TYPE_NAME[vt], (unsigned long long)bits, acc(a.code));
    mc_log_hex("words", tb.store[rut_a], tb.s.a[rut_a].size * 2);
    if (accepted_out)
        *accepted_out = accept;
    if (accept) {
        if (a.code != REG_ACCESS_SUCCESS) {
            mc_fail(checked ? "C01/set-accepts" : "C01/unchecked-accepts",
                    "%s of admissible %s pattern %016llx refused with %s", checked ? "set" : "set_unsafe",
                    TYPE_NAME[vt], (unsigned long long)bits, acc(a.code));
            return false;
        }
        ref_image(rt, bits, tb.s.be, want);
        if (!storage_is(want, checked ? "C01/words-hold-value" : "C01/unchecked-stores-same", "after accepted set"))
            return false;
        RegisterValue g;
        if (st != NULL)
            memcpy(&g, st, sizeof g); /* the destination object has the same past */
        else
            memset(&g, 0, sizeof g);
        RegisterAccess ga = register_get(&tb.t, rut_h, &g);
        mc_trans(1);
        if (ga.code != REG_ACCESS_SUCCESS || g.type != rt || ref_bits(rt, g.value) != bits) {
            mc_fail("C01/get-returns-set", "get after set of %016llx: %s type=%s bits=%016llx",
                    (unsigned long long)bits, acc(ga.code), TYPE_NAME[(unsigned)g.type <= REG_TYPE_INVALID ? g.type : REG_TYPE_INVALID],
                    (unsigned long long)ref_bits(rt, g.value));
            return false;
        }
    } else {
        if (a.code == REG_ACCESS_SUCCESS) {
            const char *cl = !typed ? "C01/refuses-type-mismatch"
                : !ref_storable(rt, bits) ? (checked ? "C01/refuses-nonfinite" : "C01/unchecked-refuses-nonfinite")
                : "C01/refuses-constraint";
            mc_fail(cl, "%s of %s pattern %016llx succeeded", checked ? "set" : "set_unsafe", TYPE_NAME[vt], (unsigned long long)bits);
            return false;
        }
        if (!storage_is(NULL, "C01/refused-leaves-storage", "after refused set"))
            return false;
    }
    return true;
}

/* the largest value of the library's handle type: its own macro, else the
 * maximum of the type */
#ifdef REGISTER_HANDLE_MAX
#define HANDLE_TYPE_MAX ((uint64_t)(REGISTER_HANDLE_MAX))
#else
#define HANDLE_TYPE_MAX                                                                              \
    ((RegisterHandle)-1 > 0 ? (uint64_t)(RegisterHandle)-1 : (((uint64_t)1 << (sizeof(RegisterHandle) * 8 - 1)) - 1))
#endif

/* handles that are not registers of a table with nr registers, built from the
 * handle TYPE: the first three past the end and MAX/2, MAX/2+1, MAX.  A value
 * that the type cannot hold, or that converts to a register of the table, is
 * left out (a literal like 2^31 is register 0 in a 16-bit handle type). */
static int
bad_handle_set(int nr, RegisterHandle out[6])
{
    const uint64_t want[6] = { (uint64_t)nr, (uint64_t)nr + 1, (uint64_t)nr + 2, HANDLE_TYPE_MAX / 2, HANDLE_TYPE_MAX / 2 + 1, HANDLE_TYPE_MAX };
    int n = 0;
    for (int i = 0; i < 6; ++i) {
        const RegisterHandle h = (RegisterHandle)want[i];
        if (want[i] > HANDLE_TYPE_MAX || (uint64_t)h != want[i] || (uint64_t)h < (uint64_t)nr)
            continue;
        out[n++] = h;
    }
    return n;
}

/* handles that are not registers of the table: first one past the end, ... */
static bool
bad_handles(RegisterType rt, RegisterValueU val, const RegisterValue *st)
{
    RegisterHandle H[6];
    const int nh = bad_handle_set(tb.s.nr, H);
    for (int hi = 0; hi < nh; ++hi)
        for (int checked = 0; checked < 2; ++checked) {
            snap();
            const RegisterValue v = mkval(st, rt, ref_bits(rt, val));
            RegisterAccess a = checked ? register_set(&tb.t, H[hi], v) : register_set_unsafe(&tb.t, H[hi], v);
            mc_trans(1);
            mc_log("handle %llu checked=%d -> %s", (unsigned long long)H[hi], checked, acc(a.code));
            if (a.code != REG_ACCESS_NOENTRY) {
                mc_fail("C01/bad-handle-noentry", "%s with handle %llu (table has %d registers) returned %s",
                        checked ? "set" : "set_unsafe", (unsigned long long)H[hi], tb.s.nr, acc(a.code));
                return false;
            }
            if (!storage_is(NULL, "C01/refused-leaves-storage", "after bad-handle set"))
                return false;
        }
    return true;
}

/* checked sets with a value of every other type (the tag "invalid" included):
 * a pattern that would be fine in its own type and, seen through the
 * register's own member, would also satisfy the constraint */
static bool
type_mismatches(RegisterType rt, const struct rspec *rs, const RegisterValue *st)
{
    for (int vt = 0; vt <= (int)REG_TYPE_INVALID; ++vt) {
        if (vt == (int)rt)
            continue;
        const uint64_t two = vt == (int)REG_TYPE_INVALID ? 2 : ref_bits((RegisterType)vt, vu_int((RegisterType)vt, 2));
        if (!one_set(rt, rs, (RegisterType)vt, two, true, st, NULL))
            return false;
    }
    return true;
}

/* the closed value set: every value checked, then every value unchecked */
static bool
sweep_values(RegisterType rt, const struct rspec *rs, const RegisterValue *st, long *nacc, long *nref)
{
    for (int checked = 1; checked >= 0; --checked)
        for (int ib = 0; ib < nV; ++ib) {
            bool accd;
            if (!one_set(rt, rs, rt, V[ib], checked, st, &accd))
                return false;
            *nacc += accd;
            *nref += !accd;
        }
    return true;
}

/* ---- the single-area table of the value blocks ------------------------------- */

static void
cfg_spec(struct tspec *s, RegisterType rt, bool be, bool cb, const struct cfg *c, int ci, char *cdesc, size_t cdescn)
{
    memset(s, 0, sizeof *s);
    sz = ref_words(rt);
    s->be = be;
    s->na = 1;
    /* the area's base address differs from zero for two configurations out of
     * three, so that register address and offset inside the area differ */
    const uint32_t base = (ci % 3 == 0) ? 0 : (ci % 3 == 1) ? 0x100 : 0xfffe;
    s->a[0] = (struct aspec){ base, sz + 2, REG_AF_RW, cb, false };
    s->nr = 3;
    s->r[0] = (struct rspec){ REG_TYPE_UINT16, base, K_NONE, vu_zero(), vu_zero(), vu_int(REG_TYPE_UINT16, 0x1111) };
    s->r[1] = (struct rspec){ rt, base + 1, c->ckind, c->lo, c->hi, c->def };
    s->r[2] = (struct rspec){ REG_TYPE_UINT16, base + 1 + sz, K_NONE, vu_zero(), vu_zero(), vu_int(REG_TYPE_UINT16, 0x2222) };
    if (c->ckind == K_CB && !ref_cb_pred(rt, c->def))
        mc_broken("default does not satisfy callback predicate");
    snprintf(cdesc, cdescn, "%s %s %s base=%x %s lo=%016llx hi=%016llx", TYPE_NAME[rt], be ? "BE" : "LE", cb ? "cb" : "mem", base,
             CKIND_NAME[c->ckind], (unsigned long long)ref_bits(rt, c->lo), (unsigned long long)ref_bits(rt, c->hi));
    rut_simple();
}

static void
run_config(RegisterType rt, bool be, bool cb, const struct cfg *c, int ci)
{
    struct tspec s;
    char cdesc[160];
    cfg_spec(&s, rt, be, cb, c, ci, cdesc, sizeof cdesc);
    make_values(rt, c);
    const struct rspec *rs = &s.r[1];

    bool built = false, refused = false;
#define ENSURE_TABLE()                                                                   \
    do {                                                                                 \
        if (!built) {                                                                    \
            tab_build(&tb, &s);                                                          \
            if (ci % 4 == 1) {                                                           \
                /* history: the first initialisation of this table object fails (a     \
                 * register outside every area), the description is repaired and the   \
                 * table is initialised again -- it must behave like a fresh one */    \
                const RegisterAddress good = tb.entries[2].address;                      \
                tb.entries[2].address = 0x7fff0000u;                                     \
                (void)register_init(&tb.t);                                              \
                tb.entries[2].address = good;                                            \
            }                                                                            \
            RegisterInit ri = register_init(&tb.t);                                      \
            built = true;                                                                \
            /* whether initialisation accepts the table is C04's sentence: the       \
             * cases of this configuration then end as trivial ones */                \
            refused = ri.code != REG_INIT_SUCCESS;                                       \
        }                                                                                \
    } while (0)

    /* (1) handles and type mismatch */
    if (mc_case("cfg#%d %s handles+types", ci, cdesc)) {
        ENSURE_TABLE();
        if (refused)
            mc_end(false, "init-refused");
        else {
            bool ok = bad_handles(rt, c->def, NULL);
            ok = ok && type_mismatches(rt, rs, NULL);
            mc_end(true, ok ? "handles-ok" : "handles-fail");
        }
    }

    /* (2) 16-bit types: every value, from the default state */
    if (sz == 1) {
        if (mc_case("cfg#%d %s all 65536 values", ci, cdesc)) {
            ENSURE_TABLE();
            bool ok = !refused;
            long nacc = 0;
            for (uint32_t b = 0; b < 65536 && ok; ++b)
                for (int checked = 1; checked >= 0 && ok; --checked) {
                    bool accd;
                    ok = one_set(rt, rs, rt, b, checked, NULL, &accd);
                    nacc += accd;
                }
            if (refused)
                mc_end(false, "init-refused");
            else
            mc_end(true, nacc == 0 ? "sweep-none-accepted" : nacc == 131072 ? "sweep-all-accepted" : "sweep-mixed");
        }
    }

    /* (3) ordered pairs over the value set: every value written over every
     * other (pre-state established with the unchecked variant) */
    for (int ia = 0; ia < nV; ++ia) {
        if (!ref_storable(rt, V[ia]))
            continue;
        if (!mc_case("cfg#%d %s pairs pre=%016llx x %d values", ci, cdesc, (unsigned long long)V[ia], nV))
            continue;
        ENSURE_TABLE();
        if (refused) {
            mc_end(false, "init-refused");
            continue;
        }
        bool ok = true;
        long nacc = 0, nref = 0;
        for (int ib = 0; ib < nV && ok; ++ib)
            for (int checked = 1; checked >= 0 && ok; --checked) {
                bool accd;
                ok = one_set(rt, rs, rt, V[ia], false, NULL, NULL); /* pre-state */
                if (!ok)
                    break;
                ok = one_set(rt, rs, rt, V[ib], checked, NULL, &accd);
                nacc += accd;
                nref += !accd;
            }
        mc_end(nacc > 0 || nref > 0, !ok ? "pairs-fail" : nref == 0 ? "pairs-all-accepted" : nacc == 0 ? "pairs-all-refused" : "pairs-mixed");
    }
    if (built)
        tab_free(&tb);
#undef ENSURE_TABLE
}

/* ---- block S: value objects (and bound objects) with a past ------------------ */

/* the entry of the register under test gets bound and default objects whose
 * octets outside the member of the register's type are those of st */
static void
dirty_bounds(RegisterType rt, const struct cfg *c, const RegisterValue *st)
{
    RegisterEntry *e = &tb.entries[rut_h];
    e->default_value = vu_over(st, rt, c->def);
    switch (c->ckind) {
    case K_MIN: e->check.arg.min = vu_over(st, rt, c->lo); break;
    case K_MAX: e->check.arg.max = vu_over(st, rt, c->hi); break;
    case K_RANGE:
        e->check.arg.range.min = vu_over(st, rt, c->lo);
        e->check.arg.range.max = vu_over(st, rt, c->hi);
        break;
    case K_NONE: case K_FAIL: /* the argument is not used by these kinds */
        e->check.arg.range.min = st->value;
        e->check.arg.range.max = st->value;
        break;
    default: break;
    }
}

static void
run_stale(RegisterType rt, bool be, bool cb, const struct cfg *c, int ci)
{
    struct tspec s;
    char cdesc[160];
    cfg_spec(&s, rt, be, cb, c, ci, cdesc, sizeof cdesc);
    make_values(rt, c);
    const struct rspec *rs = &s.r[1];
    for (int si = 0; si < nST; ++si) {
        if (!stale_applies(&ST[si], rt))
            continue;
        for (int dirty = 0; dirty < 2; ++dirty) {
            if (!mc_case("cfg#%d %s value object %s, entry bounds %s x %d values + other types + bad handles", ci, cdesc, ST[si].name,
                         dirty ? "with the same past" : "clean", nV))
                continue;
            tab_build(&tb, &s);
            if (dirty)
                dirty_bounds(rt, c, &ST[si].img);
            RegisterInit ri = register_init(&tb.t);
            if (ri.code != REG_INIT_SUCCESS) {
                mc_log("register_init refused the table with %d (C04 judges that)", ri.code);
                mc_end(false, "init-refused");
                tab_free(&tb);
                continue;
            }
            long nacc = 0, nref = 0;
            bool ok = sweep_values(rt, rs, &ST[si].img, &nacc, &nref);
            ok = ok && type_mismatches(rt, rs, &ST[si].img);
            ok = ok && bad_handles(rt, c->def, &ST[si].img);
            mc_end(nacc > 0 || nref > 0, !ok ? "stale-fail" : nref == 0 ? "stale-all-accepted" : nacc == 0 ? "stale-all-refused" : "stale-mixed");
            tab_free(&tb);
        }
    }
}

/* thorough: every 16-bit value in objects with three different pasts */
static void
run_stale16(RegisterType rt, bool be, bool cb, const struct cfg *c, int ci)
{
    struct tspec s;
    char cdesc[160];
    cfg_spec(&s, rt, be, cb, c, ci, cdesc, sizeof cdesc);
    const struct rspec *rs = &s.r[1];
    static const int PICK[] = { 0 /* fill-ff */, 4 /* was-u32=ffffffff */, 17 /* was-u64=0123456789abcdef */ };
    for (unsigned k = 0; k < 3; ++k) {
        const struct stale *st = &ST[PICK[k]];
        if (!mc_case("cfg#%d %s value object %s all 65536 values", ci, cdesc, st->name))
            continue;
        tab_build(&tb, &s);
        RegisterInit ri = register_init(&tb.t);
        if (ri.code != REG_INIT_SUCCESS) {
            mc_log("register_init refused the table with %d (C04 judges that)", ri.code);
            mc_end(false, "init-refused");
            tab_free(&tb);
            continue;
        }
        bool ok = true;
        long nacc = 0;
        for (uint32_t b = 0; b < 65536 && ok; ++b)
            for (int checked = 1; checked >= 0 && ok; --checked) {
                bool accd;
                ok = one_set(rt, rs, rt, b, checked, &st->img, &accd);
                nacc += accd;
            }
        mc_end(true, !ok ? "stale-fail" : nacc == 0 ? "stale-all-refused" : nacc == 131072 ? "stale-all-accepted" : "stale-mixed");
        tab_free(&tb);
    }
}

/* ---- blocks G and H: geometries, initialisation histories, other calls ------- */

struct geo {
    int na, rut;
    unsigned pop; /* bit i: area i holds registers (bit rut is set) */
};

static int
make_geos(struct geo *out)
{
    int n = 0;
    for (int na = 1; na <= RT_MAXA; ++na)
        for (int rut = 0; rut < na; ++rut)
            for (unsigned pop = 0; pop < (1u << na); ++pop)
                if (pop & (1u << rut))
                    out[n++] = (struct geo){ na, rut, pop };
    return n;
}

/* where the areas without registers are */
static const char *
geo_class(const struct geo *g)
{
    const unsigned all = (1u << g->na) - 1, empty = all & ~g->pop;
    if (empty == 0)
        return "geo-full";
    /* leading: the empty areas are exactly areas 0..k-1; trailing: exactly na-k..na-1 */
    for (int k = 1; k < g->na; ++k) {
        if (empty == (1u << k) - 1)
            return "geo-leading-empty";
        if (empty == (all & ~((1u << (g->na - k)) - 1)))
            return "geo-trailing-empty";
    }
    if (!(empty & 1u) && !(empty & (1u << (g->na - 1))))
        return "geo-middle-empty";
    return "geo-several-empty";
}

/* areas in ascending address order from base0; bit i of gaps: one unmapped
 * word behind area i.  The area of the register under test holds guard u16,
 * the register, guard u16 (or, with alone, just the register) and is read-write, memory-backed (rb 0, 2) or
 * callback-backed (rb 1, 3), with skip-defaults for rb 2 and 3 (the registers
 * then start from whatever the backing holds); every other populated area holds one u16; empty
 * areas are two words wide.  The other areas have style (ostyle + i) % 6 when
 * rotate is set, else ostyle: 0 memory RW, 1 callbacks RW, 2 memory
 * read-only, 3 callbacks read-only without write callback, 4 memory RW with
 * skip-defaults, 5 callbacks write-only. */
#define NOSTYLE 6
static bool g_guards_ranged; /* the guards next to the register under test carry a range constraint (around their defaults) */
static const char *RB_NAME[] = { "mem", "cb", "mem-skipdef", "cb-skipdef" };
static void
geo_spec(struct tspec *s, const struct geo *g, unsigned gaps, uint32_t base0, RegisterType rt, bool be, int rb, int ostyle, bool rotate,
         bool alone, const struct cfg *c)
{
    memset(s, 0, sizeof *s);
    sz = ref_words(rt);
    s->be = be;
    s->na = g->na;
    uint32_t a = base0;
    memset(area_pop, 0, sizeof area_pop);
    for (int i = 0; i < g->na; ++i) {
        const bool pop = (g->pop >> i) & 1u;
        const uint32_t size = (i == g->rut) ? (alone ? sz : sz + 2) : pop ? 1 : 2;
        area_pop[i] = pop;
        if (i == g->rut) {
            s->a[i] = (struct aspec){ a, size, (uint16_t)(REG_AF_RW | ((rb & 2) ? REG_AF_SKIP_DEFAULTS : 0)), (rb & 1) != 0, false };
            rut_a = i;
            rut_off = alone ? 0 : 1;
            if (!alone && g_guards_ranged)
                s->r[s->nr++] = (struct rspec){ REG_TYPE_UINT16, a, K_RANGE, vu_int(REG_TYPE_UINT16, 0x1000), vu_int(REG_TYPE_UINT16, 0x1fff), vu_int(REG_TYPE_UINT16, 0x1111) };
            else if (!alone)
                s->r[s->nr++] = (struct rspec){ REG_TYPE_UINT16, a, K_NONE, vu_zero(), vu_zero(), vu_int(REG_TYPE_UINT16, 0x1111) };
            rut_h = (RegisterHandle)s->nr;
            s->r[s->nr++] = (struct rspec){ rt, a + rut_off, c->ckind, c->lo, c->hi, c->def };
            if (!alone && g_guards_ranged)
                s->r[s->nr++] = (struct rspec){ REG_TYPE_UINT16, a + 1 + sz, K_RANGE, vu_int(REG_TYPE_UINT16, 0x2000), vu_int(REG_TYPE_UINT16, 0x2fff), vu_int(REG_TYPE_UINT16, 0x2222) };
            else if (!alone)
                s->r[s->nr++] = (struct rspec){ REG_TYPE_UINT16, a + 1 + sz, K_NONE, vu_zero(), vu_zero(), vu_int(REG_TYPE_UINT16, 0x2222) };
        } else {
            const int st = rotate ? (ostyle + i) % NOSTYLE : ostyle;
            static const uint16_t FL[NOSTYLE] = { REG_AF_RW, REG_AF_RW, REG_AF_READABLE, REG_AF_READABLE, REG_AF_RW | REG_AF_SKIP_DEFAULTS, REG_AF_WRITEABLE };
            s->a[i] = (struct aspec){ a, size, FL[st], (st & 1) != 0, st == 3 };
            if (pop)
                s->r[s->nr++] = (struct rspec){ REG_TYPE_UINT16, a, K_NONE, vu_zero(), vu_zero(), vu_int(REG_TYPE_UINT16, 0x3300 + i) };
        }
        a += size + ((gaps >> i) & 1u);
    }
}

/* initialisation steps: 'G' the description as it is (succeeds); the others
 * damage the description in one way, call register_init (which refuses, as far
 * as this check is concerned: whatever it does) and repair the description */
enum { IH_G, IH_HOLE, IH_DEFAULT, IH_EORDER, IH_EOVERLAP, IH_AORDER, IH_AOVERLAP, IH_NOAREAS, IH_NOENTRIES, IH_OTHER_ORDER, IH_N };
static const char *IH_NAME[] = { "ok", "hole", "bad-default", "entry-order", "entry-overlap", "area-order", "area-overlap", "no-areas", "null-entries", "ok-in-other-byte-order" };

static bool
ih_applies(int op, int na)
{
    return (op != IH_AORDER && op != IH_AOVERLAP) || na >= 2;
}

static RegisterInit
init_step(int op)
{
    RegisterInit ri;
    const int nr = tb.s.nr, na = tb.s.na;
    switch (op) {
    case IH_HOLE: {
        const RegisterAddress good = tb.entries[nr - 1].address;
        tb.entries[nr - 1].address = 0x7fff0000u;
        ri = register_init(&tb.t);
        tb.entries[nr - 1].address = good;
        break;
    }
    case IH_DEFAULT: {
        /* entry 0 is a u16 without constraint in every table of these blocks */
        RegisterEntry *e = &tb.entries[0];
        const RegisterValidator good = e->check;
        e->check.type = REGV_TYPE_MIN;
        e->check.arg.min = vu_int(REG_TYPE_UINT16, 0xffff);
        ri = register_init(&tb.t);
        e->check = good;
        break;
    }
    case IH_EORDER: {
        const RegisterAddress good = tb.entries[0].address;
        tb.entries[0].address = tb.entries[nr - 1].address + 0x10;
        ri = register_init(&tb.t);
        tb.entries[0].address = good;
        break;
    }
    case IH_EOVERLAP: {
        const RegisterAddress good = tb.entries[1].address;
        tb.entries[1].address = tb.entries[0].address;
        ri = register_init(&tb.t);
        tb.entries[1].address = good;
        break;
    }
    case IH_AORDER: {
        const RegisterAddress good = tb.areas[0].base;
        tb.areas[0].base = tb.areas[na - 1].base + 0x1000;
        ri = register_init(&tb.t);
        tb.areas[0].base = good;
        break;
    }
    case IH_AOVERLAP: {
        const RegisterAddress good = tb.areas[1].base;
        tb.areas[1].base = tb.areas[0].base;
        ri = register_init(&tb.t);
        tb.areas[1].base = good;
        break;
    }
    case IH_NOAREAS:
        tb.t.area = tb.areas + na; /* the end marker: a table without areas */
        ri = register_init(&tb.t);
        tb.t.area = tb.areas;
        break;
    case IH_NOENTRIES:
        tb.t.entry = NULL;
        ri = register_init(&tb.t);
        tb.t.entry = tb.entries;
        break;
    case IH_OTHER_ORDER:
        /* the table is brought up in the other byte order first, then switched
         * back (the next step initialises it again) */
        register_make_bigendian(&tb.t, !tb.s.be);
        ri = register_init(&tb.t);
        register_make_bigendian(&tb.t, tb.s.be);
        break;
    default:
        ri = register_init(&tb.t);
        break;
    }
    mc_log("init step %s -> %d", IH_NAME[op], (int)ri.code);
    return ri;
}

/* other calls of the register API, one of which runs between the last
 * initialisation and the sets under test.  Their results are logged, not
 * judged (other properties do that); faults are disarmed afterwards. */
enum {
    OP_NONE, OP_SANITISE, OP_SANITISE_RF0, OP_SANITISE_RF1, OP_SANITISE_RF2, OP_SANITISE_RF3, OP_SANITISE_RF4, OP_SANITISE_RF5,
    OP_POKE_SANITISE, OP_POKE_SANITISE_WF, OP_BW_OK, OP_BW_REFUSED, OP_BW_HOLE, OP_BW_RF, OP_BW_WF, OP_BR, OP_BR_RF,
    OP_DEFAULT, OP_BITS, OP_HEXSTR, OP_FOREACH, OP_COMPARE, OP_GET_RF, OP_SET_WF, OP_MCOPY,
    /* sanitise that has to repair a NEIGHBOUR of the register under test (the
     * guard in front of / behind it, which for these calls is a range-
     * constrained u16 whose words were changed behind the table's back), and
     * the same with the write callback refusing the repair */
    OP_NBR_LEAD_SANITISE, OP_NBR_LEAD_SANITISE_WF, OP_NBR_TRAIL_SANITISE, OP_NBR_TRAIL_SANITISE_WF, OP_N
};
static const char *OP_NAME[] = {
    "nothing", "sanitise", "sanitise/read-fault@0", "sanitise/read-fault@1", "sanitise/read-fault@2", "sanitise/read-fault@3",
    "sanitise/read-fault@4", "sanitise/read-fault@5", "poke+sanitise", "poke+sanitise/write-fault", "block-write", "block-write-refused",
    "block-write-hole", "block-write/read-fault", "block-write/write-fault", "block-read", "block-read/read-fault", "default",
    "bit-set+clear", "hexstr", "foreach+user-init-stopped", "compare", "get/read-fault", "set/write-fault", "mcopy",
    "poke-leading-neighbour+sanitise", "poke-leading-neighbour+sanitise/write-fault", "poke-trailing-neighbour+sanitise", "poke-trailing-neighbour+sanitise/write-fault"
};
static const char *OP_OUTCOME[] = {
    "after-nothing", "after-sanitise", "after-sanitise-fault", "after-sanitise-fault", "after-sanitise-fault", "after-sanitise-fault",
    "after-sanitise-fault", "after-sanitise-fault", "after-sanitise-reload", "after-sanitise-reload-fault", "after-block-write", "after-block-write",
    "after-block-write", "after-block-fault", "after-block-fault", "after-block-read", "after-block-fault", "after-default",
    "after-bits", "after-hexstr", "after-iteration", "after-compare", "after-access-fault", "after-access-fault", "after-mcopy",
    "after-sanitise-nbr-reload", "after-sanitise-nbr-fault", "after-sanitise-nbr-reload", "after-sanitise-nbr-fault"
};

static bool
op_needs_cb(int op)
{
    return (op >= OP_SANITISE_RF0 && op <= OP_SANITISE_RF5) || op == OP_POKE_SANITISE_WF || op == OP_BW_RF || op == OP_BW_WF
        || op == OP_BR_RF || op == OP_GET_RF || op == OP_SET_WF || op == OP_NBR_LEAD_SANITISE_WF || op == OP_NBR_TRAIL_SANITISE_WF;
}

static bool
op_applies(int op, int na, bool any_cb)
{
    if (op_needs_cb(op) && !any_cb)
        return false;
    if (op == OP_MCOPY && na < 2)
        return false;
    return true;
}

static int
stop_iteration(RegisterTable *t, RegisterHandle h, void *arg)
{
    (void)t;
    (void)h;
    (void)arg;
    return -1;
}

/* a pattern of the closed value set that decodes but that the register's
 * constraint refuses, or (floats) one that does not decode; false if none */
static bool
unwelcome_pattern(RegisterType rt, const struct rspec *rs, uint64_t *out)
{
    for (int i = 0; i < nV; ++i)
        if (ref_storable(rt, V[i]) && !ref_constraint(rs, ref_from_bits(rt, V[i])) && V[i] != ref_bits(rt, rs->def)) {
            *out = V[i];
            return true;
        }
    for (int i = 0; i < nV; ++i)
        if (!ref_storable(rt, V[i])) {
            *out = V[i];
            return true;
        }
    return false;
}

static bool g_fault_hit; /* an armed callback fault was reached during the intervening call */

static void
arm(long rd, long wr)
{
    g_fault_hit |= tab_fault_reached(&tb); /* a call that arms twice: keep what the first arming saw */
    tb.cb_reads = tb.cb_writes = 0;
    tb.cb_fail_read_at = rd;
    tb.cb_fail_write_at = wr;
}

/* returns false when the table went out of service after a callback fault
 * that the call reached (fail-safe latch; no statement mentions driver I/O
 * errors): the sets of such a case are not judged */
static bool
other_call(int op, RegisterType rt, const struct rspec *rs)
{
    RegisterAccess a = REG_ACCESS_RESULT_INIT;
    g_fault_hit = false;
    const uint32_t raddr = rs->addr;
    unsigned char img[8];
    RegisterAtom *buf = mc_exact(8 * sizeof(RegisterAtom));
    memset(buf, 0, 8 * sizeof(RegisterAtom));
    uint64_t bad = 0;
    const bool have_bad = unwelcome_pattern(rt, rs, &bad);
    switch (op) {
    case OP_NONE:
        break;
    case OP_SANITISE:
        a = register_sanitise(&tb.t);
        break;
    case OP_SANITISE_RF0: case OP_SANITISE_RF1: case OP_SANITISE_RF2: case OP_SANITISE_RF3: case OP_SANITISE_RF4: case OP_SANITISE_RF5:
        arm(op - OP_SANITISE_RF0, -1);
        a = register_sanitise(&tb.t);
        break;
    case OP_POKE_SANITISE: case OP_POKE_SANITISE_WF:
        /* the backing words are changed behind the table's back to content the
         * register must not hold; sanitise puts the default back */
        ref_image(rt, have_bad ? bad : ~ref_bits(rt, rs->def), tb.s.be, img);
        memcpy(tb.store[rut_a] + rut_off, img, sz * 2);
        if (op == OP_POKE_SANITISE_WF)
            arm(-1, 0);
        a = register_sanitise(&tb.t);
        break;
    case OP_BW_OK: case OP_BW_RF: case OP_BW_WF:
        ref_image(rt, ref_bits(rt, rs->def), tb.s.be, img);
        memcpy(buf, img, sz * 2);
        if (op == OP_BW_RF)
            arm(0, -1);
        if (op == OP_BW_WF)
            arm(-1, 0);
        a = register_block_write(&tb.t, raddr, sz, buf);
        break;
    case OP_BW_REFUSED:
        ref_image(rt, have_bad ? bad : ref_bits(rt, rs->def), tb.s.be, img);
        memcpy(buf, img, sz * 2);
        a = register_block_write(&tb.t, raddr, sz, buf);
        break;
    case OP_BW_HOLE:
        a = register_block_write(&tb.t, tb.s.a[tb.s.na - 1].base + tb.s.a[tb.s.na - 1].size + 3, 1, buf);
        break;
    case OP_BR: case OP_BR_RF:
        if (op == OP_BR_RF)
            arm(0, -1);
        a = register_block_read(&tb.t, raddr - 1, sz + 2, buf);
        break;
    case OP_DEFAULT: {
        RegisterValue v;
        memset(&v, 0, sizeof v);
        a = register_default(&tb.t, rut_h, &v);
        (void)register_default(&tb.t, (RegisterHandle)tb.s.nr, &v);
        break;
    }
    case OP_BITS:
        a = register_bit_set(&tb.t, rut_h, mkval(NULL, rt, ref_bits(rt, rs->def)));
        (void)register_bit_clear(&tb.t, rut_h, mkval(NULL, rt, 0));
        (void)register_bit_set(&tb.t, (RegisterHandle)tb.s.nr, mkval(NULL, rt, 1));
        break;
    case OP_HEXSTR:
        a = register_set_from_hexstr(&tb.t, raddr, "00a5", 4);
        (void)register_set_from_hexstr(&tb.t, raddr, "zz", 2);
        break;
    case OP_FOREACH:
        a = register_foreach_in(&tb.t, tb.s.a[0].base, tb.s.a[tb.s.na - 1].base + tb.s.a[tb.s.na - 1].size - tb.s.a[0].base, stop_iteration, NULL);
        (void)register_user_init(&tb.t, stop_iteration);
        break;
    case OP_COMPARE:
        a = register_compare(&tb.t, rut_h, rut_h - 1);
        (void)register_compare(&tb.t, rut_h, (RegisterHandle)tb.s.nr);
        break;
    case OP_GET_RF: {
        RegisterValue v;
        memset(&v, 0, sizeof v);
        arm(0, -1);
        a = register_get(&tb.t, rut_h, &v);
        break;
    }
    case OP_SET_WF:
        arm(-1, 0);
        a = register_set_unsafe(&tb.t, rut_h, mkval(NULL, rt, ref_bits(rt, rs->def)));
        arm(-1, 0);
        (void)register_set(&tb.t, rut_h - 1, mkval(NULL, REG_TYPE_UINT16, 0x1111));
        break;
    case OP_NBR_LEAD_SANITISE: case OP_NBR_LEAD_SANITISE_WF: case OP_NBR_TRAIL_SANITISE: case OP_NBR_TRAIL_SANITISE_WF: {
        /* the neighbour's words are changed behind the table's back to a value
         * outside its range (0); sanitise has to put its default back, and in
         * the fault variants the area's write callback refuses that */
        const bool lead = op == OP_NBR_LEAD_SANITISE || op == OP_NBR_LEAD_SANITISE_WF;
        ref_image(REG_TYPE_UINT16, 0, tb.s.be, img);
        memcpy(tb.store[rut_a] + (lead ? 0 : rut_off + sz), img, 2);
        if (op == OP_NBR_LEAD_SANITISE_WF || op == OP_NBR_TRAIL_SANITISE_WF)
            arm(-1, 0);
        a = register_sanitise(&tb.t);
        break;
    }
    case OP_MCOPY: {
        const AreaHandle other = (AreaHandle)(rut_a == 0 ? 1 : rut_a - 1);
        a = register_mcopy(&tb.t, other, (AreaHandle)rut_a);
        (void)register_mcopy(&tb.t, (AreaHandle)rut_a, other);
        break;
    }
    default:
        break;
    }
    mc_trans(1);
    g_fault_hit |= tab_fault_reached(&tb);
    mc_log("other call %s -> %s (callback reads %ld writes %ld%s)", OP_NAME[op], acc(a.code), tb.cb_reads, tb.cb_writes,
           g_fault_hit ? ", fault reached" : "");
    tb.cb_fail_read_at = tb.cb_fail_write_at = -1;
    tb.cb_oob = 0;
    free(buf);
    if (g_fault_hit && tab_out_of_service(&tb)) {
        mc_log("the table refuses a zero-length or a full-extent block read of its areas after the injected I/O error: out of service, sets not judged");
        return false;
    }
    return true;
}

/* one table: geometry, initialisation history hist[0..nh) (the last step is
 * IH_G), one other call, then the value set, other types and bad handles */
static void
geo_case(const char *block, const struct geo *g, unsigned gaps, uint32_t base0, RegisterType rt, bool be, int rb, int ostyle, bool rotate,
         bool alone, const struct cfg *c, int ck, const int *hist, int nh, int op, const char *outcome)
{
    struct tspec s;
    for (int i = 0; i < nh; ++i)
        if (!ih_applies(hist[i], g->na))
            return;
    /* (the intervening calls other than 'nothing' are used with uniformly backed tables only) */
    if (!op_applies(op, g->na, (rb & 1) != 0))
        return;
    if (!mc_would_run()) {
        mc_skip_case();
        return;
    }
    g_guards_ranged = op >= OP_NBR_LEAD_SANITISE && op <= OP_NBR_TRAIL_SANITISE_WF;
    geo_spec(&s, g, gaps, base0, rt, be, rb, ostyle, rotate, alone, c);
    g_guards_ranged = false;
    char hd[96];
    size_t l = 0;
    hd[0] = 0;
    for (int i = 0; i < nh && l < sizeof hd - 16; ++i)
        l += (size_t)snprintf(hd + l, sizeof hd - l, "%s%s", i ? "," : "", IH_NAME[hist[i]]);
    if (!mc_case("%s areas=%d reg-in=%d%s populated=%x gaps=%x base=%x %s %s reg-area=%s others=%d%s k#%d %s lo=%016llx hi=%016llx init=[%s] then %s", block,
                 g->na, g->rut, alone ? "(alone)" : "", g->pop, gaps, base0, TYPE_NAME[rt], be ? "BE" : "LE", RB_NAME[rb], ostyle, rotate ? "+i" : "", ck, CKIND_NAME[c->ckind],
                 (unsigned long long)ref_bits(rt, c->lo), (unsigned long long)ref_bits(rt, c->hi), hd, OP_NAME[op]))
        return;
    make_values(rt, c);
    const struct rspec *rs = &s.r[rut_h];
    tab_build(&tb, &s);
    if (mc.verbose)
        mc_log("%s", tspec_str(&s));
    RegisterInit ri = REG_INIT_RESULT_INIT;
    for (int i = 0; i < nh; ++i)
        ri = init_step(hist[i]);
    if (ri.code != REG_INIT_SUCCESS) {
        mc_log("register_init refused the table with %d (C04 judges that)", ri.code);
        mc_end(false, "init-refused");
        tab_free(&tb);
        return;
    }
    if (!other_call(op, rt, rs)) {
        mc_end(false, "latched-after-fault");
        tab_free(&tb);
        return;
    }
    long nacc = 0, nref = 0;
    bool ok = sweep_values(rt, rs, NULL, &nacc, &nref);
    ok = ok && type_mismatches(rt, rs, NULL);
    ok = ok && bad_handles(rt, c->def, NULL);
    mc_end(nacc > 0 || nref > 0, ok ? outcome : "geo-fail");
    tab_free(&tb);
}

static void
run_geometries(void)
{
    static struct geo G[64];
    const int ng = make_geos(G);
    static struct cfg cfgs[64];
    static const uint32_t BASE[] = { 0, 0x100, 0xfff8 };
    static const int HIST[2] = { IH_G, IH_G };
    /* pass 0 (both tiers): one configuration per constraint kind, one gap
     * pattern per geometry and style (rotating);  pass 1 (thorough): every
     * constraint configuration (numbered from 100), the same gap pattern;
     * pass 2 (thorough): one configuration per kind, every other gap
     * pattern.  The base address rotates in all passes. */
    for (int pass = 0; pass < (mc_thorough() ? 3 : 1); ++pass)
        for (int t = 0; t < 8; ++t) {
            const RegisterType rt = (RegisterType)t;
            const int nc = pass == 1 ? make_cfgs(rt, cfgs) : pick_cfgs(rt, cfgs);
            for (int be = 0; be < 2; ++be)
                for (int rb = 0; rb < 4; ++rb)
                    for (int ck = 0; ck < nc; ++ck)
                        for (int gi = 0; gi < ng; ++gi) {
                            const struct geo *g = &G[gi];
                            const unsigned ngap = 1u << (g->na - 1);
                            for (int ostyle = 0; ostyle < (g->na > 1 ? NOSTYLE : 1); ++ostyle)
                                for (unsigned gaps = 0; gaps < ngap; ++gaps) {
                                    const bool rot = gaps == ((unsigned)gi * 5u + 1u + (unsigned)ostyle) % ngap;
                                    if (pass == 2 ? rot : !rot)
                                        continue;
                                    const uint32_t base0 = BASE[(gi + ck + ostyle) % 3];
                                    for (int alone = 0; alone < 2; ++alone)
                                        for (int nh = 1; nh <= 2; ++nh)
                                            geo_case("geometry", g, gaps, base0, rt, be, rb, ostyle, true, alone != 0, &cfgs[ck],
                                                     pass == 1 ? 100 + ck : ck, HIST, nh, OP_NONE, geo_class(g));
                                }
                        }
        }
}

static void
run_histories(void)
{
    /* one area; trailing empty; leading empty; middle empty; three populated; empty on both sides */
    static const struct geo HG[] = { { 1, 0, 0x1 }, { 2, 0, 0x1 }, { 2, 1, 0x2 }, { 3, 0, 0x5 }, { 3, 1, 0x7 }, { 4, 1, 0x6 } };
    static const unsigned HGAPS[] = { 0, 1, 0, 2, 1, 5 };
    static struct cfg cfgs[8];
    const int maxlen = mc_thorough() ? 3 : 2;
    for (int t = 0; t < 8; ++t) {
        const RegisterType rt = (RegisterType)t;
        const int nc = pick_cfgs(rt, cfgs);
        for (int be = 0; be < 2; ++be)
            for (int backing = 0; backing < 2; ++backing)
                for (int ck = 0; ck < nc; ++ck)
                    for (unsigned gi = 0; gi < sizeof HG / sizeof *HG; ++gi)
                        for (int len = 1; len <= maxlen; ++len) {
                            /* every sequence of len-1 steps over the ten-step alphabet, then 'ok' */
                            int n = 1;
                            for (int i = 1; i < len; ++i)
                                n *= IH_N;
                            for (int code = 0; code < n; ++code) {
                                int hist[3], x = code;
                                for (int i = 0; i < len - 1; ++i) {
                                    hist[i] = x % IH_N;
                                    x /= IH_N;
                                }
                                hist[len - 1] = IH_G;
                                for (int op = 0; op < OP_N; ++op)
                                    geo_case("history", &HG[gi], HGAPS[gi], (gi & 1) ? 0x100 : 0, rt, be, backing, backing, false, false, &cfgs[ck], ck,
                                             hist, len, op, OP_OUTCOME[op]);
                            }
                        }
    }
}

/* tables with zero or one register (in one to three areas): every handle
 * from 0 upward is "one past the end" much earlier than in the other tables */
static void
small_tables(void)
{
    for (int nreg = 0; nreg <= 1; ++nreg)
        for (int na = 1; na <= 3; ++na)
            for (int ra = 0; ra < (nreg ? na : 1); ++ra)
                for (int be = 0; be < 2; ++be)
                    for (int cb = 0; cb < 2; ++cb) {
                        if (!mc_case("small table with %d registers (in area %d of %d) %s %s: handles 0..3, MAX/2+1, MAX of the handle type x set/set_unsafe", nreg,
                                     ra, na, be ? "BE" : "LE", cb ? "cb" : "mem"))
                            continue;
                        struct tspec s;
                        memset(&s, 0, sizeof s);
                        s.be = be;
                        s.na = na;
                        for (int i = 0; i < na; ++i)
                            s.a[i] = (struct aspec){ 4u * (uint32_t)i, 2, REG_AF_RW, cb, false };
                        s.nr = nreg;
                        if (nreg)
                            s.r[0] = (struct rspec){ REG_TYPE_UINT16, 4u * (uint32_t)ra, K_NONE, vu_zero(), vu_zero(), vu_int(REG_TYPE_UINT16, 0x1111) };
                        tab_build(&tb, &s);
                        RegisterInit ri = register_init(&tb.t);
                        bool ok = true;
                        if (ri.code != REG_INIT_SUCCESS) {
                            /* whether initialisation accepts a table is C04's sentence, not C01's */
                            mc_log("register_init refused the table with %d", ri.code);
                            tab_free(&tb);
                            mc_end(false, "init-refused");
                            continue;
                        }
                        /* 0..3 and MAX/2+1, MAX of the handle type */
                        const uint64_t HW[6] = { 0, 1, 2, 3, HANDLE_TYPE_MAX / 2 + 1, HANDLE_TYPE_MAX };
                        RegisterHandle H[6];
                        for (unsigned hi = 0; hi < 6; ++hi)
                            H[hi] = (RegisterHandle)HW[hi];
                        for (unsigned hi = 0; hi < 6 && ok; ++hi)
                            for (int variant = 0; variant < 2 && ok; ++variant) {
                                if (HW[hi] < (uint64_t)nreg || (uint64_t)H[hi] != HW[hi])
                                    continue; /* a register of the table, or not a value of the type */
                                snap();
                                RegisterValue v;
                                memset(&v, 0, sizeof v);
                                v.type = REG_TYPE_UINT16;
                                v.value.u16 = 0x2222;
                                RegisterAccess a = variant ? register_set(&tb.t, H[hi], v) : register_set_unsafe(&tb.t, H[hi], v);
                                mc_trans(1);
                                mc_log("handle %llu %s -> %s", (unsigned long long)H[hi], variant ? "set" : "set_unsafe", acc(a.code));
                                if (a.code != REG_ACCESS_NOENTRY) {
                                    mc_fail("C01/bad-handle-noentry", "%s with handle %llu (table has %d registers) returned %s", variant ? "set" : "set_unsafe", (unsigned long long)H[hi], nreg, acc(a.code));
                                    ok = false;
                                } else
                                    ok = storage_is(NULL, "C01/refused-leaves-storage", "after bad-handle set");
                            }
                        tab_free(&tb);
                        mc_end(true, ok ? "handles-ok" : "handles-fail");
                    }
}

/* thorough: all 2^32 patterns of the 32-bit types under a range constraint */
static void
sweep32(RegisterType rt, bool be)
{
    struct cfg c;
    memset(&c, 0, sizeof c);
    c.ckind = K_RANGE;
    if (rt == REG_TYPE_UINT32) {
        c.lo = vu_int(rt, 0x00010000);
        c.hi = ref_from_bits(rt, 0xfffeffffu);
    } else if (rt == REG_TYPE_SINT32) {
        c.lo = vu_int(rt, -0x7fff0000);
        c.hi = vu_int(rt, 0x7ffeffff);
    } else {
        c.lo.f32 = -1.0e30f;
        c.hi.f32 = 1.0e30f;
    }
    c.def = c.lo;
    struct tspec s;
    memset(&s, 0, sizeof s);
    sz = 2;
    s.be = be;
    s.na = 1;
    s.a[0] = (struct aspec){ 0, sz + 2, REG_AF_RW, false, false };
    s.nr = 3;
    s.r[0] = (struct rspec){ REG_TYPE_UINT16, 0, K_NONE, vu_zero(), vu_zero(), vu_int(REG_TYPE_UINT16, 0x1111) };
    s.r[1] = (struct rspec){ rt, 1, c.ckind, c.lo, c.hi, c.def };
    s.r[2] = (struct rspec){ REG_TYPE_UINT16, 1 + sz, K_NONE, vu_zero(), vu_zero(), vu_int(REG_TYPE_UINT16, 0x2222) };
    rut_simple();
    bool built = false, refused = false;
    for (uint32_t chunk = 0; chunk < 4096; ++chunk) {
        if (!mc_case("sweep32 %s %s range patterns %05x000..%05xfff", TYPE_NAME[rt], be ? "BE" : "LE", chunk, chunk))
            continue;
        if (!built) {
            tab_build(&tb, &s);
            refused = register_init(&tb.t).code != REG_INIT_SUCCESS;
            built = true;
        }
        if (refused) {
            mc_log("register_init refused the table (C04 judges that)");
            mc_end(false, "init-refused");
            continue;
        }
        bool ok = true;
        long nacc = 0;
        const RegisterValue *st = NULL;
        for (uint32_t lo = 0; lo < (1u << 20) && ok; ++lo) {
            bool accd;
            ok = one_set(rt, &s.r[1], rt, ((uint64_t)chunk << 20) | lo, true, st, &accd);
            nacc += accd;
        }
        mc_end(true, nacc == 0 ? "sweep-none-accepted" : nacc == (1 << 20) ? "sweep-all-accepted" : "sweep-mixed");
    }
    if (built)
        tab_free(&tb);
}

int
main(int argc, char **argv)
{
    mc_init(argc, argv);
    /* anchors for the reference codec: literal images */
    {
        unsigned char img[8];
        ref_image(REG_TYPE_UINT32, 0x12345678u, true, img);
        MC_ANCHOR(img[0] == 0x12 && img[3] == 0x78, "BE u32 image");
        ref_image(REG_TYPE_UINT32, 0x12345678u, false, img);
        MC_ANCHOR(img[0] == 0x78 && img[3] == 0x12, "LE u32 image");
        MC_ANCHOR(!ref_storable(REG_TYPE_FLOAT32, 0x7f800000) && !ref_storable(REG_TYPE_FLOAT32, 1)
                      && ref_storable(REG_TYPE_FLOAT32, 0x80000000) && ref_storable(REG_TYPE_FLOAT32, 0x00800000),
                  "f32 classes");
    }
    make_stales();
    MC_ANCHOR(!strcmp(ST[0].name, "fill-ff") && !strcmp(ST[4].name, "was-u32=ffffffff") && !strcmp(ST[17].name, "was-u64=0123456789abcdef"),
              "stale object table order");
    small_tables();
    static struct cfg cfgs[64];
    int ci = 0;
    for (int t = 0; t < 8; ++t)
        for (int be = 0; be < 2; ++be)
            for (int cb = 0; cb < 2; ++cb) {
                const int n = make_cfgs((RegisterType)t, cfgs);
                for (int i = 0; i < n; ++i)
                    run_config((RegisterType)t, be, cb, &cfgs[i], ci++);
            }
    ci = 0;
    for (int t = 0; t < 8; ++t)
        for (int be = 0; be < 2; ++be)
            for (int cb = 0; cb < 2; ++cb) {
                const int n = make_cfgs((RegisterType)t, cfgs);
                for (int i = 0; i < n; ++i) {
                    run_stale((RegisterType)t, be, cb, &cfgs[i], ci);
                    if (mc_thorough() && ref_words((RegisterType)t) == 1)
                        run_stale16((RegisterType)t, be, cb, &cfgs[i], ci);
                    ci++;
                }
            }
    run_geometries();
    run_histories();
    if (mc_thorough()) {
        static const RegisterType T32[] = { REG_TYPE_UINT32, REG_TYPE_SINT32, REG_TYPE_FLOAT32 };
        for (int i = 0; i < 3; ++i)
            for (int be = 0; be < 2; ++be)
                sweep32(T32[i], be);
    }
    mc_finish(true, mc_thorough() ? BOUND_THOROUGH : BOUND_QUICK);
    return 0;
}
