/*
 * C01 -- typed register set/get: bounded-exhaustive enumeration over
 * type x byte order x backing x constraint configuration x value sets, on a
 * three-register table (guard u16, register under test, guard u16) in one
 * exact-size area.  Reference: regtab.h (octet image, IEEE class by bit
 * pattern, typed constraint comparison).
 */
#include "mc.h"
#include "regtab.h"

#include <float.h>

#define MAXV 700

struct cfg {
    int ckind;
    RegisterValueU lo, hi, def;
};

static uint64_t V[MAXV];
static int nV;

static void
addv(uint64_t bits)
{
    for (int i = 0; i < nV; ++i)
        if (V[i] == bits)
            return;
    if (nV < MAXV)
        V[nV++] = bits;
}

static uint64_t
mask_of(RegisterType t)
{
    const unsigned w = ref_words(t) * 16;
    return w == 64 ? ~0ull : ((1ull << w) - 1);
}

static uint64_t
f32bits(float f)
{
    uint32_t x;
    memcpy(&x, &f, 4);
    return x;
}

static uint64_t
f64bits(double d)
{
    uint64_t x;
    memcpy(&x, &d, 8);
    return x;
}

/* the closed value set of DESIGN C01, as raw patterns of the type */
static void
make_values(RegisterType t, const struct cfg *c)
{
    nV = 0;
    const uint64_t m = mask_of(t);
    const unsigned w = ref_words(t) * 16;
    if (!type_is_float(t)) {
        addv(0);
        addv(1);
        addv(m);               /* -1 / max unsigned */
        addv(m >> 1);          /* max signed */
        addv((m >> 1) + 1);    /* min signed */
        addv((m >> 1) + 2);
        addv((m >> 1) - 1);
        addv(m - 1);
        for (unsigned k = 0; k < w; ++k) {
            addv((1ull << k) & m);
            addv(((1ull << k) + 1) & m);
            addv(((1ull << k) - 1) & m);
        }
        static const unsigned lanev[] = { 0x00, 0x01, 0x7f, 0x80, 0xff };
        for (unsigned lane = 0; lane < w / 8; ++lane)
            for (unsigned i = 0; i < 5; ++i) {
                addv(((uint64_t)lanev[i] << (8 * lane)) & m);
                addv((m & ~(0xffull << (8 * lane))) | ((uint64_t)lanev[i] << (8 * lane)));
            }
        const uint64_t b[2] = { ref_bits(t, c->lo), ref_bits(t, c->hi) };
        for (int i = 0; i < 2; ++i) {
            addv(b[i]);
            addv((b[i] + 1) & m);
            addv((b[i] - 1) & m);
        }
    } else if (t == REG_TYPE_FLOAT32) {
        static const uint32_t cls[] = {
            0x00000000, 0x80000000, 0x00000001, 0x80000001, 0x007fffff, 0x807fffff,
            0x00800000, 0x80800000, 0x7f7fffff, 0xff7fffff, 0x3f800000, 0xbf800000,
            0x3fc00000, 0xbfc00000, 0x7f800000, 0xff800000, 0x7fc00000, 0xffc00000,
            0x7fc00001, 0x7fffffff, 0x7f800001, 0xff800001, 0x7fa00000, 0x42f60000,
        };
        for (unsigned i = 0; i < sizeof cls / sizeof *cls; ++i)
            addv(cls[i]);
        const float b[2] = { c->lo.f32, c->hi.f32 };
        for (int i = 0; i < 2; ++i) {
            addv(f32bits(b[i]));
            addv(f32bits(nextafterf(b[i], INFINITY)));
            addv(f32bits(nextafterf(b[i], -INFINITY)));
        }
    } else {
        static const uint64_t cls[] = {
            0x0000000000000000ull, 0x8000000000000000ull, 0x0000000000000001ull,
            0x8000000000000001ull, 0x000fffffffffffffull, 0x800fffffffffffffull,
            0x0010000000000000ull, 0x8010000000000000ull, 0x7fefffffffffffffull,
            0xffefffffffffffffull, 0x3ff0000000000000ull, 0xbff0000000000000ull,
            0x3ff8000000000000ull, 0xbff8000000000000ull, 0x7ff0000000000000ull,
            0xfff0000000000000ull, 0x7ff8000000000000ull, 0xfff8000000000000ull,
            0x7ff8000000000001ull, 0x7fffffffffffffffull, 0x7ff0000000000001ull,
            0xfff0000000000001ull, 0x7ff4000000000000ull, 0x405ec00000000000ull,
            /* patterns whose halves look harmless / harmful as f32 */
            0x7ff0000000000000ull >> 32, 0x000000007f800000ull, 0x3ff000007fc00000ull,
        };
        for (unsigned i = 0; i < sizeof cls / sizeof *cls; ++i)
            addv(cls[i]);
        const double b[2] = { c->lo.f64, c->hi.f64 };
        for (int i = 0; i < 2; ++i) {
            addv(f64bits(b[i]));
            addv(f64bits(nextafter(b[i], INFINITY)));
            addv(f64bits(nextafter(b[i], -INFINITY)));
        }
    }
}

/* constraint configurations per type */
static int
make_cfgs(RegisterType t, struct cfg *out)
{
    int n = 0;
    RegisterValueU B[8];
    int nb = 0;
    if (type_is_float(t)) {
        const double fb[] = { -1.0e30, -1.5, 0.0, 1.5, 123.0, 1.0e30 };
        for (unsigned i = 0; i < 6; ++i) {
            B[nb] = vu_zero();
            if (t == REG_TYPE_FLOAT32)
                B[nb].f32 = (float)fb[i];
            else
                B[nb].f64 = fb[i];
            nb++;
        }
    } else if (type_is_unsigned(t)) {
        const uint64_t m = mask_of(t);
        const uint64_t ub[] = { 0, 1, 100, (m >> 1), (m >> 1) + 1, m - 1, m };
        for (unsigned i = 0; i < 7; ++i)
            B[nb++] = ref_from_bits(t, ub[i]);
    } else {
        const uint64_t m = mask_of(t);
        const uint64_t sb[] = { (m >> 1) + 1, (m >> 1) + 2, m /* -1 */, 0, 1, 100, (m >> 1) - 1, (m >> 1) };
        for (unsigned i = 0; i < 8; ++i)
            B[nb++] = ref_from_bits(t, sb[i]);
    }
    /* B is ascending in the type's order */
    out[n++] = (struct cfg){ K_NONE, vu_zero(), vu_zero(), B[nb / 2] };
    out[n++] = (struct cfg){ K_FAIL, vu_zero(), vu_zero(), B[nb / 2] };
    for (int i = 0; i < nb; ++i)
        out[n++] = (struct cfg){ K_MIN, B[i], vu_zero(), B[nb - 1] };
    for (int i = 0; i < nb; ++i)
        out[n++] = (struct cfg){ K_MAX, vu_zero(), B[i], B[0] };
    for (int i = 0; i < nb; i += 2)
        for (int j = i; j < nb; j += 3)
            out[n++] = (struct cfg){ K_RANGE, B[i], B[j], B[i] };
    out[n++] = (struct cfg){ K_CB, vu_zero(), vu_zero(), vu_zero() };
    return n;
}

static struct tab tb;
static unsigned sz;          /* words of the register under test */
static RegisterAtom snap[8];

static const char *
acc(RegisterAccessCode c)
{
    static const char *n[] = { "SUCCESS", "FAILURE", "UNINITIALISED", "NOENTRY", "RANGE", "INVALID", "READONLY", "IO_ERROR" };
    return (unsigned)c < 8 ? n[c] : "?";
}

static bool
image_is(const unsigned char *regimg, const char *clause, const char *what)
{
    /* guards */
    RegisterAtom g0 = tb.store[0][0], g1 = tb.store[0][1 + sz];
    if (g0 != 0x1111 || g1 != 0x2222) {
        mc_fail(clause, "%s: neighbouring words changed (%04x, %04x)", what, g0, g1);
        return false;
    }
    if (memcmp(tb.store[0] + 1, regimg, sz * 2) != 0) {
        mc_fail(clause, "%s: register words differ from the expected octet image", what);
        return false;
    }
    if (tb.cb_oob) {
        mc_fail("C01/area-bounds", "%s: area callback asked for words outside the area", what);
        tb.cb_oob = 0;
        return false;
    }
    return true;
}

/* one set (checked or not) of pattern `bits` typed vt, from the current
 * storage; returns true when everything agreed */
static bool
one_set(RegisterType rt, const struct rspec *rs, RegisterType vt, uint64_t bits, bool checked, bool *accepted_out)
{
    unsigned char before[8], want[8];
    memcpy(before, tb.store[0] + 1, sz * 2);
    RegisterValue v;
    memset(&v, 0, sizeof v);
    v.type = vt;
    v.value = ref_from_bits(vt, bits);
    const bool typed = (vt == rt);
    const bool storable = typed && ref_storable(rt, bits);
    const bool accept = storable && (!checked || ref_constraint(rs, v.value));
    RegisterAccess a = checked ? register_set(&tb.t, 1, v) : register_set_unsafe(&tb.t, 1, v);
    mc_trans(1);
    mc_log("%s(%s %016llx) -> %s", checked ? "set" : "set_unsafe", TYPE_NAME[vt], (unsigned long long)bits, acc(a.code));
    mc_log_hex("words", tb.store[0], (sz + 2) * 2);
    if (accepted_out)
        *accepted_out = accept;
    if (accept) {
        if (a.code != REG_ACCESS_SUCCESS) {
            mc_fail(checked ? "C01/set-accepts" : "C01/unchecked-accepts",
                    "%s of admissible %s pattern %016llx refused with %s", checked ? "set" : "set_unsafe",
                    TYPE_NAME[vt], (unsigned long long)bits, acc(a.code));
            return false;
        }
        ref_image(rt, bits, tb.s.be, want);
        if (!image_is(want, checked ? "C01/words-hold-value" : "C01/unchecked-stores-same", "after accepted set"))
            return false;
        RegisterValue g;
        memset(&g, 0, sizeof g);
        RegisterAccess ga = register_get(&tb.t, 1, &g);
        mc_trans(1);
        if (ga.code != REG_ACCESS_SUCCESS || g.type != rt || ref_bits(rt, g.value) != bits) {
            mc_fail("C01/get-returns-set", "get after set of %016llx: %s type=%s bits=%016llx",
                    (unsigned long long)bits, acc(ga.code), TYPE_NAME[g.type <= REG_TYPE_INVALID ? g.type : REG_TYPE_INVALID],
                    (unsigned long long)ref_bits(rt, g.value));
            return false;
        }
    } else {
        if (a.code == REG_ACCESS_SUCCESS) {
            const char *cl = !typed ? "C01/refuses-type-mismatch"
                : !ref_storable(rt, bits) ? (checked ? "C01/refuses-nonfinite" : "C01/unchecked-refuses-nonfinite")
                : "C01/refuses-constraint";
            mc_fail(cl, "%s of %s pattern %016llx succeeded", checked ? "set" : "set_unsafe", TYPE_NAME[vt], (unsigned long long)bits);
            return false;
        }
        if (!image_is(before, "C01/refused-leaves-storage", "after refused set"))
            return false;
    }
    return true;
}

static void
run_config(RegisterType rt, bool be, bool cb, const struct cfg *c, int ci)
{
    struct tspec s;
    memset(&s, 0, sizeof s);
    sz = ref_words(rt);
    s.be = be;
    s.na = 1;
    /* the area's base address differs from zero for two configurations out of
     * three, so that register address and offset inside the area differ */
    const uint32_t base = (ci % 3 == 0) ? 0 : (ci % 3 == 1) ? 0x100 : 0xfffe;
    s.a[0] = (struct aspec){ base, sz + 2, REG_AF_RW, cb, false };
    s.nr = 3;
    s.r[0] = (struct rspec){ REG_TYPE_UINT16, base, K_NONE, vu_zero(), vu_zero(), vu_int(REG_TYPE_UINT16, 0x1111) };
    s.r[1] = (struct rspec){ rt, base + 1, c->ckind, c->lo, c->hi, c->def };
    s.r[2] = (struct rspec){ REG_TYPE_UINT16, base + 1 + sz, K_NONE, vu_zero(), vu_zero(), vu_int(REG_TYPE_UINT16, 0x2222) };
    if (c->ckind == K_CB && !ref_cb_pred(rt, c->def))
        mc_broken("default does not satisfy callback predicate");
    make_values(rt, c);
    const struct rspec *rs = &s.r[1];
    char cdesc[160];
    snprintf(cdesc, sizeof cdesc, "%s %s %s base=%x %s lo=%016llx hi=%016llx", TYPE_NAME[rt], be ? "BE" : "LE", cb ? "cb" : "mem", base,
             CKIND_NAME[c->ckind], (unsigned long long)ref_bits(rt, c->lo), (unsigned long long)ref_bits(rt, c->hi));

    bool built = false;
#define ENSURE_TABLE()                                                                   \
    do {                                                                                 \
        if (!built) {                                                                    \
            tab_build(&tb, &s);                                                          \
            if (ci % 4 == 1) {                                                           \
                /* history: the first initialisation of this table object fails (a     \
                 * register outside every area), the description is repaired and the   \
                 * table is initialised again -- it must behave like a fresh one */    \
                const RegisterAddress good = tb.entries[2].address;                      \
                tb.entries[2].address = 0x7fff0000u;                                     \
                (void)register_init(&tb.t);                                              \
                tb.entries[2].address = good;                                            \
            }                                                                            \
            RegisterInit ri = register_init(&tb.t);                                      \
            built = true;                                                                \
            if (ri.code != REG_INIT_SUCCESS) {                                           \
                mc_fail("C01/setup-init", "register_init of a well-formed table failed with %d", ri.code); \
                mc_end(false, "init-failed");                                            \
                tab_free(&tb);                                                           \
                return;                                                                  \
            }                                                                            \
        }                                                                                \
    } while (0)

    /* (1) handles and type mismatch */
    if (mc_case("cfg#%d %s handles+types", ci, cdesc)) {
        ENSURE_TABLE();
        bool ok = true;
        static const RegisterHandle H[] = { 3, 4, 5, 0x7fffffffu, 0xffffffffu };
        unsigned char before[8];
        for (unsigned hi = 0; hi < 5 && ok; ++hi)
            for (int checked = 0; checked < 2 && ok; ++checked) {
                memcpy(before, tb.store[0] + 1, sz * 2);
                RegisterValue v;
                memset(&v, 0, sizeof v);
                v.type = rt;
                v.value = c->def;
                RegisterAccess a = checked ? register_set(&tb.t, H[hi], v) : register_set_unsafe(&tb.t, H[hi], v);
                mc_trans(1);
                mc_log("handle %u checked=%d -> %s", H[hi], checked, acc(a.code));
                if (a.code != REG_ACCESS_NOENTRY) {
                    mc_fail("C01/bad-handle-noentry", "%s with handle %u (table has 3 registers) returned %s",
                            checked ? "set" : "set_unsafe", H[hi], acc(a.code));
                    ok = false;
                } else
                    ok = image_is(before, "C01/refused-leaves-storage", "after bad-handle set");
            }
        for (int vt = 0; vt < 8 && ok; ++vt) {
            if (vt == (int)rt)
                continue;
            /* a pattern that would be fine in its own type and, seen through
             * the register's own member, would also satisfy the constraint */
            ok = one_set(rt, rs, (RegisterType)vt, ref_bits((RegisterType)vt, vu_int((RegisterType)vt, 2)), true, NULL);
        }
        mc_end(true, ok ? "handles-ok" : "handles-fail");
    }

    /* (2) 16-bit types: every value, from the default state */
    if (sz == 1) {
        if (mc_case("cfg#%d %s all 65536 values", ci, cdesc)) {
            ENSURE_TABLE();
            bool ok = true;
            long nacc = 0;
            for (uint32_t b = 0; b < 65536 && ok; ++b)
                for (int checked = 1; checked >= 0 && ok; --checked) {
                    bool accd;
                    ok = one_set(rt, rs, rt, b, checked, &accd);
                    nacc += accd;
                }
            mc_end(true, nacc == 0 ? "sweep-none-accepted" : nacc == 131072 ? "sweep-all-accepted" : "sweep-mixed");
        }
    }

    /* (3) ordered pairs over the value set: every value written over every
     * other (pre-state established with the unchecked variant) */
    for (int ia = 0; ia < nV; ++ia) {
        if (!ref_storable(rt, V[ia]))
            continue;
        if (!mc_case("cfg#%d %s pairs pre=%016llx x %d values", ci, cdesc, (unsigned long long)V[ia], nV))
            continue;
        ENSURE_TABLE();
        bool ok = true;
        long nacc = 0, nref = 0;
        for (int ib = 0; ib < nV && ok; ++ib)
            for (int checked = 1; checked >= 0 && ok; --checked) {
                bool accd;
                ok = one_set(rt, rs, rt, V[ia], false, NULL); /* pre-state */
                if (!ok)
                    break;
                ok = one_set(rt, rs, rt, V[ib], checked, &accd);
                nacc += accd;
                nref += !accd;
            }
        mc_end(nacc > 0 || nref > 0, !ok ? "pairs-fail" : nref == 0 ? "pairs-all-accepted" : nacc == 0 ? "pairs-all-refused" : "pairs-mixed");
    }
    if (built)
        tab_free(&tb);
#undef ENSURE_TABLE
}

/* tables with zero or one register: every handle from 0 upward is "one past
 * the end" much earlier than in the three-register table */
static void
small_tables(void)
{
    for (int nreg = 0; nreg <= 1; ++nreg)
        for (int be = 0; be < 2; ++be)
            for (int cb = 0; cb < 2; ++cb) {
                if (!mc_case("small table with %d registers %s %s: handles 0..3, 2^31, 2^32-1 x set/set_unsafe/get", nreg, be ? "BE" : "LE", cb ? "cb" : "mem"))
                    continue;
                struct tspec s;
                memset(&s, 0, sizeof s);
                s.be = be;
                s.na = 1;
                s.a[0] = (struct aspec){ 0, 2, REG_AF_RW, cb, false };
                s.nr = nreg;
                if (nreg)
                    s.r[0] = (struct rspec){ REG_TYPE_UINT16, 0, K_NONE, vu_zero(), vu_zero(), vu_int(REG_TYPE_UINT16, 0x1111) };
                tab_build(&tb, &s);
                RegisterInit ri = register_init(&tb.t);
                bool ok = true;
                if (ri.code != REG_INIT_SUCCESS) {
                    mc_fail("C01/setup-init", "register_init of a well-formed table failed with %d", ri.code);
                    ok = false;
                }
                static const RegisterHandle H[] = { 0, 1, 2, 3, 0x80000000u, 0xffffffffu };
                for (unsigned hi = 0; hi < 6 && ok; ++hi)
                    for (int variant = 0; variant < 2 && ok; ++variant) {
                        if (H[hi] < (RegisterHandle)nreg)
                            continue;
                        RegisterAtom before[2] = { tb.store[0][0], tb.store[0][1] };
                        RegisterValue v;
                        memset(&v, 0, sizeof v);
                        v.type = REG_TYPE_UINT16;
                        v.value.u16 = 0x2222;
                        RegisterAccess a = variant ? register_set(&tb.t, H[hi], v) : register_set_unsafe(&tb.t, H[hi], v);
                        mc_trans(1);
                        mc_log("handle %u %s -> %s", H[hi], variant ? "set" : "set_unsafe", acc(a.code));
                        if (a.code != REG_ACCESS_NOENTRY) {
                            mc_fail("C01/bad-handle-noentry", "%s with handle %u (table has %d registers) returned %s", variant ? "set" : "set_unsafe", H[hi], nreg, acc(a.code));
                            ok = false;
                        } else if (tb.store[0][0] != before[0] || tb.store[0][1] != before[1]) {
                            mc_fail("C01/refused-leaves-storage", "storage changed by a set with a bad handle");
                            ok = false;
                        }
                    }
                tab_free(&tb);
                mc_end(true, ok ? "handles-ok" : "handles-fail");
            }
}

/* thorough: all 2^32 patterns of the 32-bit types under a range constraint */
static void
sweep32(RegisterType rt, bool be)
{
    struct cfg c;
    memset(&c, 0, sizeof c);
    c.ckind = K_RANGE;
    if (rt == REG_TYPE_UINT32) {
        c.lo = vu_int(rt, 0x00010000);
        c.hi = ref_from_bits(rt, 0xfffeffffu);
    } else if (rt == REG_TYPE_SINT32) {
        c.lo = vu_int(rt, -0x7fff0000);
        c.hi = vu_int(rt, 0x7ffeffff);
    } else {
        c.lo.f32 = -1.0e30f;
        c.hi.f32 = 1.0e30f;
    }
    c.def = c.lo;
    struct tspec s;
    memset(&s, 0, sizeof s);
    sz = 2;
    s.be = be;
    s.na = 1;
    s.a[0] = (struct aspec){ 0, sz + 2, REG_AF_RW, false, false };
    s.nr = 3;
    s.r[0] = (struct rspec){ REG_TYPE_UINT16, 0, K_NONE, vu_zero(), vu_zero(), vu_int(REG_TYPE_UINT16, 0x1111) };
    s.r[1] = (struct rspec){ rt, 1, c.ckind, c.lo, c.hi, c.def };
    s.r[2] = (struct rspec){ REG_TYPE_UINT16, 1 + sz, K_NONE, vu_zero(), vu_zero(), vu_int(REG_TYPE_UINT16, 0x2222) };
    bool built = false;
    for (uint32_t chunk = 0; chunk < 4096; ++chunk) {
        if (!mc_case("sweep32 %s %s range patterns %05x000..%05xfff", TYPE_NAME[rt], be ? "BE" : "LE", chunk, chunk))
            continue;
        if (!built) {
            tab_build(&tb, &s);
            if (register_init(&tb.t).code != REG_INIT_SUCCESS) {
                mc_fail("C01/setup-init", "register_init failed");
                mc_end(false, "init-failed");
                tab_free(&tb);
                return;
            }
            built = true;
        }
        bool ok = true;
        long nacc = 0;
        for (uint32_t lo = 0; lo < (1u << 20) && ok; ++lo) {
            bool accd;
            ok = one_set(rt, &s.r[1], rt, ((uint64_t)chunk << 20) | lo, true, &accd);
            nacc += accd;
        }
        mc_end(true, nacc == 0 ? "sweep-none-accepted" : nacc == (1 << 20) ? "sweep-all-accepted" : "sweep-mixed");
    }
    if (built)
        tab_free(&tb);
}

int
main(int argc, char **argv)
{
    mc_init(argc, argv);
    /* anchors for the reference codec: literal images */
    {
        unsigned char img[8];
        ref_image(REG_TYPE_UINT32, 0x12345678u, true, img);
        MC_ANCHOR(img[0] == 0x12 && img[3] == 0x78, "BE u32 image");
        ref_image(REG_TYPE_UINT32, 0x12345678u, false, img);
        MC_ANCHOR(img[0] == 0x78 && img[3] == 0x12, "LE u32 image");
        MC_ANCHOR(!ref_storable(REG_TYPE_FLOAT32, 0x7f800000) && !ref_storable(REG_TYPE_FLOAT32, 1)
                      && ref_storable(REG_TYPE_FLOAT32, 0x80000000) && ref_storable(REG_TYPE_FLOAT32, 0x00800000),
                  "f32 classes");
    }
    small_tables();
    static struct cfg cfgs[64];
    int ci = 0;
    for (int t = 0; t < 8; ++t)
        for (int be = 0; be < 2; ++be)
            for (int cb = 0; cb < 2; ++cb) {
                const int n = make_cfgs((RegisterType)t, cfgs);
                for (int i = 0; i < n; ++i)
                    run_config((RegisterType)t, be, cb, &cfgs[i], ci++);
            }
    if (mc_thorough()) {
        static const RegisterType T32[] = { REG_TYPE_UINT32, REG_TYPE_SINT32, REG_TYPE_FLOAT32 };
        for (int i = 0; i < 3; ++i)
            for (int be = 0; be < 2; ++be)
                sweep32(T32[i], be);
    }
    mc_finish(true, mc_thorough()
                        ? "8 types x LE/BE x mem/cb x constraint configurations x (handles, type mismatches, all 16-bit values, ordered pairs over the closed value set) + all 2^32 patterns of u32/s32/f32 under a range constraint x LE/BE"
                        : "8 types x LE/BE x mem/cb x constraint configurations x (handles, type mismatches, all 16-bit values, ordered pairs over the closed value set)");
    return 0;
}
