/*
 * C20 -- s-expression reader (src/sx.c): bounded-exhaustive enumeration of
 * closed executions against an independent recursive-descent reference reader.
 *
 * Input families (DESIGN.md section 3, C20); (g) is enumerated first, then (a)
 * to (f) and (h):
 *   (a) every tree of <= N nodes / depth <= D over a small vocabulary, rendered
 *       in seven whitespace / radix styles; the expected tree is the generator
 *       tree, the expected position is the renderer's "just past the
 *       expression" offset (both cross-checked against the reference reader:
 *       disagreement there is a harness defect, exit 2);
 *   (b) every string of length 0..L over the ten characters
 *       ( ) space newline a 1 # x F -  ; expected verdict/tree/position from
 *       the reference reader.
 *   (c) every octet 0..255 at the marked position(s) of small templates (in
 *       front of, behind and between atoms and parentheses); (d) every string
 *       up to a length over two further alphabets (VT FF CR HT; NUL, 0x80,
 *       0xff, '+');
 *   (e) flat lists of every length up to a bound and of 2^p-1..2^p+1 elements
 *       up to 65537, (f) nests of every depth up to a bound and 2^p-1..2^p+1
 *       levels, both complete and broken in several ways -- the sizes straddle
 *       every threshold at which a reader could grow an array, switch a counter
 *       type or run into a fixed limit;
 *   (g) call histories: all ordered pairs and triples (thorough: quadruples of a
 *       core) of a family of accepted, refused and deep inputs, and refused
 *       inputs repeated 1..129 times before a probe, all inside one case (the
 *       runner starts one process per shard, a replay runs one case alone).
 *       The statement gives the result as a function of the input alone, so
 *       every call of a history is held against the reference reader;
 *   (h) symbols of every length up to a bound and 2^p-1..2^p+1 octets up to
 *       65537, and the integers 0, 2^k-1, 2^k, 2^k+1 (k = 1..64), 10^k-1, 10^k
 *       in decimal and both hex cases, each in several surroundings.
 * Every input is presented twice, each presentation being one case:
 *   via=string   NUL-terminated (block of exactly n+1 octets) -> sx_parse_string
 *   via=stringn  heap block of exactly n octets, no terminator -> sx_parse_stringn
 * so that ASan's red zones observe any read outside the given octets.
 *
 * The allocator seam of sx.c is owned at link time (-Wl,--wrap=malloc,...): the
 * ledger below records every allocation made between entering the parser and
 * leaving sx_destroy and must be empty after an error return and after
 * sx_destroy of a returned tree.
 *
 * Reference grammar (file comment of src/sx.c; delimiters and token rules as
 * pinned by test/t-sx-parser.c: "(1)", "1234a", "#x12g", "foo{}"):
 *   expr   := ws* ( atom | '(' (ws* expr)* ws* ')' )
 *   atom   := maximal run of non-delimiter octets; delimiters are ( ) and
 *             whitespace and the end of the input
 *   atom is  decimal integer  : one or more decimal digits
 *            hex integer      : "#x" followed by one or more hex digits, either case
 *            symbol           : a letter followed by letters, digits and '-'
 *            anything else    : not an expression (error)
 *   A token that starts with '-' is not decided by the documentation (scheme
 *   has "-" and "-a" as symbols, sx.c documents only "foobar" style symbols):
 *   the verdict is OPEN, either answer is accepted, only the unconditional
 *   clauses (memory safety, termination, ledger, no tree with an error status)
 *   are demanded.
 *   The same holds for a token that starts with a letter and goes on with a
 *   character that neither the statement nor the documentation nor a unit test
 *   classifies (here: '#', as in a# or x#F -- scheme reads these as symbols):
 *   OPEN.  '{' and '}' inside such a token are pinned as "not a symbol" by
 *   t_sx_parse_token_error_symbol ("foo{}") and stay an error.
 *
 *   Whitespace is space, tab, newline, carriage return; vertical tab and form
 *   feed are whitespace iff the reader under test reads "(" c ")" as the empty
 *   list (asked inside each case that contains them; see ws_extra below) --
 *   what is demanded is that the reader treats them the same way in every
 *   position.  A token that contains an octet without a role (controls, NUL in
 *   length-delimited input, >= 0x7f, other punctuation) is OPEN.
 *
 * "No allocation leaked": leak means growth.  A block that is still live when
 * the parser returns an error (or after sx_destroy of the returned tree) is a
 * leak only if presenting the same input again and again makes the number of
 * live blocks grow; a block the parser allocates once and keeps for later
 * calls (reachable scratch memory), or one that it replaces on every call (a
 * most-recent-diagnostic buffer), is not.  So a non-empty ledger triggers two
 * further presentations under one fresh ledger, and the clause is reported
 * only if more is live after the third presentation than after the second.
 */
#include "mc.h"

#include <ctype.h>
#include <inttypes.h>
#include <errno.h>
#include <pthread.h>
#include <sys/wait.h>
#include <time.h>

#include <ufw/sx.h>

/* ------------------------------------------------------------------------
 * allocation ledger (link-time wrappers)
 * ---------------------------------------------------------------------- */
/* Open-addressing pointer set (linear probing, backward-shift deletion, so the
 * table is clean whenever nothing is live) plus the list of everything added
 * since ledger_start(), which is what a later ledger_start() removes if blocks
 * are still live.  Sized for the longest lists of the len family (65537
 * elements, a handful of allocations each). */
#define LEDGER_SLOTS (1u << 21)
#define LEDGER_MAX (1 << 20)
static struct {
    bool on;
    int live;
    int made;
    bool overflow;
    void **slot;  /* LEDGER_SLOTS entries */
    void **order; /* LEDGER_MAX entries: blocks added in this session */
    int norder;
} ledger;

void *__real_malloc(size_t);
void *__real_calloc(size_t, size_t);
void *__real_realloc(void *, size_t);
void __real_free(void *);
char *__real_strdup(const char *);
char *__real_strndup(const char *, size_t);
void *__real_reallocarray(void *, size_t, size_t);
void *__real_aligned_alloc(size_t, size_t);
int __real_posix_memalign(void **, size_t, size_t);

static inline uint32_t
ledger_hash(const void *p)
{
    uint64_t x = (uint64_t)(uintptr_t)p >> 3;
    x *= 0x9E3779B97F4A7C15ull;
    return (uint32_t)(x >> 40) & (LEDGER_SLOTS - 1u);
}

static void
ledger_add(void *p)
{
    if (!ledger.on || p == NULL)
        return;
    ledger.made++;
    if (ledger.norder >= LEDGER_MAX && ledger.live < LEDGER_MAX / 4 * 3) {
        /* the session list also holds blocks that were released long ago (a
         * reader that takes and releases a scratch block per token): rebuild
         * it from the set of live blocks.  Only live blocks count. */
        int k = 0;
        for (uint32_t i = 0; i < LEDGER_SLOTS; ++i)
            if (ledger.slot[i] != NULL)
                ledger.order[k++] = ledger.slot[i];
        ledger.norder = k;
    }
    if (ledger.live >= LEDGER_MAX || ledger.norder >= LEDGER_MAX) {
        ledger.overflow = true;
        return;
    }
    uint32_t i = ledger_hash(p);
    while (ledger.slot[i] != NULL) {
        if (ledger.slot[i] == p)
            return; /* cannot happen for a live block; keep the set a set */
        i = (i + 1u) & (LEDGER_SLOTS - 1u);
    }
    ledger.slot[i] = p;
    ledger.order[ledger.norder++] = p;
    ledger.live++;
}

static void
ledger_remove(void *p)
{
    uint32_t i = ledger_hash(p);
    while (ledger.slot[i] != p) {
        if (ledger.slot[i] == NULL)
            return; /* a block the parser did not allocate: not the ledger's
                     * business (an invalid or double free is reported by ASan) */
        i = (i + 1u) & (LEDGER_SLOTS - 1u);
    }
    ledger.slot[i] = NULL;
    ledger.live--;
    uint32_t j = i;
    for (;;) {
        j = (j + 1u) & (LEDGER_SLOTS - 1u);
        if (ledger.slot[j] == NULL)
            break;
        const uint32_t k = ledger_hash(ledger.slot[j]);
        /* leave the entry where it is if its home k lies cyclically in (i, j] */
        if ((i <= j) ? (i < k && k <= j) : (i < k || k <= j))
            continue;
        ledger.slot[i] = ledger.slot[j];
        ledger.slot[j] = NULL;
        i = j;
    }
}

static void
ledger_del(void *p)
{
    if (!ledger.on || p == NULL)
        return;
    ledger_remove(p);
}

void *
__wrap_malloc(size_t n)
{
    void *p = __real_malloc(n);
    ledger_add(p);
    return p;
}

void *
__wrap_calloc(size_t a, size_t b)
{
    void *p = __real_calloc(a, b);
    ledger_add(p);
    return p;
}

void *
__wrap_realloc(void *old, size_t n)
{
    void *p = __real_realloc(old, n);
    if (p != NULL || n == 0)
        ledger_del(old);
    ledger_add(p);
    return p;
}

void
__wrap_free(void *p)
{
    ledger_del(p);
    __real_free(p);
}

char *
__wrap_strdup(const char *s)
{
    char *p = __real_strdup(s);
    ledger_add(p);
    return p;
}

char *
__wrap_strndup(const char *s, size_t n)
{
    char *p = __real_strndup(s, n);
    ledger_add(p);
    return p;
}

/* the other ways the C library hands out or resizes a block: a block that
 * comes from calloc and is grown with reallocarray must not stay "live" under
 * its old address for ever */
void *
__wrap_reallocarray(void *old, size_t n, size_t size)
{
    void *p = __real_reallocarray(old, n, size);
    if (p != NULL || n == 0 || size == 0)
        ledger_del(old);
    ledger_add(p);
    return p;
}

void *
__wrap_aligned_alloc(size_t alignment, size_t n)
{
    void *p = __real_aligned_alloc(alignment, n);
    ledger_add(p);
    return p;
}

int
__wrap_posix_memalign(void **out, size_t alignment, size_t n)
{
    const int rc = __real_posix_memalign(out, alignment, n);
    if (rc == 0)
        ledger_add(*out);
    return rc;
}

static int
ledger_live_now(void)
{
    return *(volatile int *)&ledger.live;
}

static int
ledger_made_now(void)
{
    return *(volatile int *)&ledger.made;
}

static void
ledger_start(void)
{
    ledger.on = false;
    if (ledger.slot == NULL) {
        ledger.slot = __real_calloc(LEDGER_SLOTS, sizeof *ledger.slot);
        ledger.order = __real_calloc(LEDGER_MAX, sizeof *ledger.order);
        if (ledger.slot == NULL || ledger.order == NULL)
            mc_broken("no memory for the allocation ledger");
    }
    if (ledger.live > 0)
        for (int k = 0; k < ledger.norder; ++k)
            ledger_remove(ledger.order[k]);
    if (ledger.live != 0)
        mc_broken("allocation ledger out of step with itself");
    ledger.norder = 0;
    ledger.made = 0;
    ledger.overflow = false;
    ledger.on = true;
}

/* ------------------------------------------------------------------------
 * reference trees and the reference reader
 * ---------------------------------------------------------------------- */
enum rkind { R_SYM, R_INT, R_LIST };
struct rnode {
    enum rkind kind;
    uint64_t val;
    const char *sym; /* symlen octets, in the input text or in the vocabulary: not terminated */
    size_t symlen;
    int first, last, next; /* children of a list: first-child / next-sibling */
};
static struct rnode *R; /* grows on demand; nodes are referred to by index only */
static int nR, capR;

static int
r_new(enum rkind k)
{
    if (nR == capR) {
        capR = capR ? 2 * capR : 512;
        R = realloc(R, (size_t)capR * sizeof *R); /* the ledger is off while the reference reader runs */
        if (R == NULL)
            mc_broken("reference arena exhausted");
    }
    struct rnode *x = &R[nR];
    memset(x, 0, sizeof *x);
    x->kind = k;
    x->first = x->last = x->next = -1;
    return nR++;
}

static void
r_append(int list, int child)
{
    if (R[list].first < 0)
        R[list].first = child;
    else
        R[R[list].last].next = child;
    R[list].last = child;
}

static bool
r_equal(int a, int b)
{
    if (R[a].kind != R[b].kind)
        return false;
    switch (R[a].kind) {
    case R_SYM: return R[a].symlen == R[b].symlen && memcmp(R[a].sym, R[b].sym, R[a].symlen) == 0;
    case R_INT: return R[a].val == R[b].val;
    case R_LIST: {
        int x = R[a].first, y = R[b].first;
        while (x >= 0 && y >= 0) {
            if (!r_equal(x, y))
                return false;
            x = R[x].next;
            y = R[y].next;
        }
        return x < 0 && y < 0;
    }
    }
    return false;
}

enum verdict { V_OK, V_ERR, V_OPEN };
enum errclass { E_NONE, E_BLANK, E_EOF, E_EOF_WS, E_CLOSE, E_TOKEN, E_TOKEN_IN_LIST };

struct reader {
    const char *s;
    size_t n, i;
    enum verdict verdict;
    enum errclass err;
    /* what the accepted part contained (classification only) */
    bool saw_list, saw_nested_list, saw_nested_empty, saw_hex, saw_hex_upper;
    bool open_unclassified; /* V_OPEN because of an octet nobody classifies */
    bool open_wide_integer; /* V_OPEN because of an integer literal beyond 64 bits */
    int deepest;            /* deepest list nesting entered */
    long longest;           /* most direct elements of one completed list */
};

/* Inter-token whitespace.  Space, tab, newline and carriage return are
 * whitespace under every definition in use (C, scheme, JSON, XML).  Vertical
 * tab and form feed are whitespace for C's isspace() and not for other
 * definitions; the statement says "whitespace" without a list, so for these two
 * the reader under test decides -- but it has to decide once: a case whose input
 * contains VT or FF first asks the reader whether it reads "(" c ")" as the
 * empty list ending at 3 (ws_extra[c]), and the input is then judged with c as
 * whitespace everywhere, or as an unclassified octet everywhere. */
static bool ws_extra[256];
static bool ref_ws(char c) { return c == ' ' || c == '\n' || c == '\t' || c == '\r' || ws_extra[(unsigned char)c]; }
static bool ref_delim(char c) { return c == '(' || c == ')' || ref_ws(c); }
static bool ref_letter(char c) { return (c >= 'a' && c <= 'z') || (c >= 'A' && c <= 'Z'); }
static bool ref_dec(char c) { return c >= '0' && c <= '9'; }

static int
ref_hexval(char c)
{
    if (c >= '0' && c <= '9')
        return c - '0';
    if (c >= 'a' && c <= 'f')
        return 10 + (c - 'a');
    if (c >= 'A' && c <= 'F')
        return 10 + (c - 'A');
    return -1;
}

static void
rd_skip(struct reader *r)
{
    while (r->i < r->n && ref_ws(r->s[r->i]))
        r->i++;
}

static int
rd_fail(struct reader *r, enum verdict v, enum errclass e)
{
    r->verdict = v;
    r->err = e;
    return -1;
}

/* reads one expression starting at r->i; -1 with r->verdict/err set otherwise */
static int
rd_expr(struct reader *r, int depth)
{
    rd_skip(r);
    if (r->i == r->n)
        return rd_fail(r, V_ERR, E_BLANK); /* only reachable at depth 0 */
    const char c = r->s[r->i];
    if (c == ')')
        return rd_fail(r, V_ERR, E_CLOSE); /* only reachable at depth 0 */
    if (c == '(') {
        const int list = r_new(R_LIST);
        r->i++;
        r->saw_list = true;
        if (depth > 0)
            r->saw_nested_list = true;
        if (depth + 1 > r->deepest)
            r->deepest = depth + 1;
        long count = 0;
        for (;;) {
            const size_t before = r->i;
            rd_skip(r);
            if (r->i == r->n)
                return rd_fail(r, V_ERR, r->i > before ? E_EOF_WS : E_EOF);
            if (r->s[r->i] == ')') {
                r->i++;
                if (depth > 0 && R[list].first < 0)
                    r->saw_nested_empty = true;
                if (count > r->longest)
                    r->longest = count;
                return list;
            }
            const int child = rd_expr(r, depth + 1);
            if (child < 0)
                return -1;
            r_append(list, child);
            count++;
        }
    }
    /* an atom: the maximal run of non-delimiters */
    size_t j = r->i;
    while (j < r->n && !ref_delim(r->s[j]))
        j++;
    const char *t = r->s + r->i;
    const size_t len = j - r->i;
    const enum errclass tokerr = depth ? E_TOKEN_IN_LIST : E_TOKEN;
    /* Octets that neither the statement nor the documentation nor a unit test
     * gives a role to (controls, NUL inside length-delimited input, octets
     * >= 0x7f, punctuation other than ( ) # -, VT/FF when the reader does not
     * take them as whitespace; '{' and '}' except behind a symbol start, where
     * "foo{}" pins them): a token that contains one is OPEN. */
    for (size_t k = 0; k < len; ++k) {
        const char u = t[k];
        if (ref_letter(u) || ref_dec(u) || u == '-' || u == '#')
            continue;
        if ((u == '{' || u == '}') && ref_letter(t[0]))
            continue;
        r->open_unclassified = true;
        return rd_fail(r, V_OPEN, E_NONE);
    }
    if (t[0] == '-')
        return rd_fail(r, V_OPEN, E_NONE);
    if (ref_dec(t[0])) {
        uint64_t v = 0;
        for (size_t k = 0; k < len; ++k) {
            if (!ref_dec(t[k]))
                return rd_fail(r, V_ERR, tokerr);
            if (v > UINT64_MAX / 10u || (v == UINT64_MAX / 10u && (uint64_t)(t[k] - '0') > UINT64_MAX % 10u)) {
                /* the statement's "unsigned integers" are the values a node can
                 * hold; what a literal beyond 64 bits reads as is not said: OPEN
                 * (only the history and environment families generate these) */
                for (size_t q = k; q < len; ++q)
                    if (!ref_dec(t[q]))
                        return rd_fail(r, V_ERR, tokerr);
                r->open_wide_integer = true;
                return rd_fail(r, V_OPEN, E_NONE);
            }
            v = v * 10u + (uint64_t)(t[k] - '0');
        }
        const int x = r_new(R_INT);
        R[x].val = v;
        r->i = j;
        return x;
    }
    if (t[0] == '#') {
        if (len < 3 || t[1] != 'x')
            return rd_fail(r, V_ERR, tokerr);
        uint64_t v = 0;
        bool upper = false;
        for (size_t k = 2; k < len; ++k) {
            const int d = ref_hexval(t[k]);
            if (d < 0)
                return rd_fail(r, V_ERR, tokerr);
            if (v >> 60) { /* a seventeenth significant digit: beyond 64 bits, OPEN as above */
                for (size_t q = k; q < len; ++q)
                    if (ref_hexval(t[q]) < 0)
                        return rd_fail(r, V_ERR, tokerr);
                r->open_wide_integer = true;
                return rd_fail(r, V_OPEN, E_NONE);
            }
            if (t[k] >= 'A' && t[k] <= 'F')
                upper = true;
            v = (v << 4) | (uint64_t)d;
        }
        const int x = r_new(R_INT);
        R[x].val = v;
        r->saw_hex = true;
        if (upper)
            r->saw_hex_upper = true;
        r->i = j;
        return x;
    }
    if (ref_letter(t[0])) {
        bool unclassified = false;
        for (size_t k = 1; k < len; ++k) {
            if (ref_letter(t[k]) || ref_dec(t[k]) || t[k] == '-')
                continue;
            if (t[k] == '{' || t[k] == '}')
                return rd_fail(r, V_ERR, tokerr); /* pinned by the unit test */
            unclassified = true;
        }
        if (unclassified)
            return rd_fail(r, V_OPEN, E_NONE);
        const int x = r_new(R_SYM);
        R[x].sym = t; /* lives as long as the input of the case */
        R[x].symlen = len;
        r->i = j;
        return x;
    }
    return rd_fail(r, V_ERR, tokerr);
}

struct expect {
    enum verdict verdict;
    enum errclass err;
    int root;   /* V_OK: reference tree */
    size_t pos; /* V_OK: just past the expression */
    bool nontrivial;
    const char *outcome;
    int deepest;  /* as far as the reference reader got */
    long longest;
};

static void
ref_read(const char *s, size_t n, struct expect *e)
{
    struct reader r;
    memset(&r, 0, sizeof r);
    r.s = s;
    r.n = n;
    r.verdict = V_OK;
    const int root = rd_expr(&r, 0);
    memset(e, 0, sizeof *e);
    e->verdict = (root >= 0) ? V_OK : r.verdict;
    e->err = r.err;
    e->root = root;
    e->pos = r.i;
    e->nontrivial = r.saw_list || r.saw_hex;
    e->deepest = r.deepest;
    e->longest = r.longest;
    if (root >= 0) {
        if (r.saw_hex_upper) e->outcome = "ok-hex-upper";
        else if (r.saw_nested_empty) e->outcome = "ok-nested-empty";
        else if (r.i < n) e->outcome = "ok-trailing-input";
        else if (r.saw_hex) e->outcome = "ok-hex-lower";
        else if (r.saw_nested_list) e->outcome = "ok-list-nested";
        else if (R[root].kind == R_LIST && R[root].first >= 0) e->outcome = "ok-list-flat";
        else if (R[root].kind == R_LIST) e->outcome = "ok-empty-list";
        else if (R[root].kind == R_SYM) e->outcome = "ok-symbol";
        else e->outcome = "ok-decimal";
    } else if (r.verdict == V_OPEN) {
        /* the token that left it open starts at r.i */
        e->outcome = r.open_wide_integer ? "open-integer-beyond-64-bits"
                     : r.open_unclassified ? "open-unclassified-octet"
                     : (r.i < n && s[r.i] == '-') ? "open-dash-token" : "open-symbol-character";
    } else {
        switch (r.err) {
        case E_BLANK: e->outcome = "err-blank"; break;
        case E_EOF: e->outcome = "err-eof-in-list"; break;
        case E_EOF_WS: e->outcome = "err-eof-after-ws"; break;
        case E_CLOSE: e->outcome = "err-stray-close"; break;
        case E_TOKEN: e->outcome = "err-bad-token"; break;
        case E_TOKEN_IN_LIST: e->outcome = "err-bad-token-in-list"; break;
        default: mc_broken("reference reader: error without a class");
        }
    }
}

/* ------------------------------------------------------------------------
 * comparison of the implementation's tree with a reference tree
 * ---------------------------------------------------------------------- */
static const char *
cmp_tree(int ri, const struct sx_node *x, char *why, size_t wn)
{
    if (x == NULL) {
        snprintf(why, wn, "null node where the reference has a %s",
                 R[ri].kind == R_LIST ? "list" : R[ri].kind == R_SYM ? "symbol" : "integer");
        return "C20/tree-identical";
    }
    switch (R[ri].kind) {
    case R_SYM:
        if (x->type != SXT_SYMBOL || x->data.symbol == NULL) {
            snprintf(why, wn, "node type %d where the reference has the symbol %.*s%s", (int)x->type,
                     (int)(R[ri].symlen < 40 ? R[ri].symlen : 40), R[ri].sym, R[ri].symlen > 40 ? "..." : "");
            return "C20/tree-identical";
        }
        if (strlen(x->data.symbol) != R[ri].symlen || memcmp(x->data.symbol, R[ri].sym, R[ri].symlen) != 0) {
            snprintf(why, wn, "symbol \"%.40s\" (%zu octets) where the reference has %.*s%s (%zu octets)", x->data.symbol,
                     strlen(x->data.symbol), (int)(R[ri].symlen < 40 ? R[ri].symlen : 40), R[ri].sym,
                     R[ri].symlen > 40 ? "..." : "", R[ri].symlen);
            return "C20/tree-identical";
        }
        return NULL;
    case R_INT:
        if (x->type != SXT_INTEGER) {
            snprintf(why, wn, "node type %d where the reference has the integer %" PRIu64, (int)x->type, R[ri].val);
            return "C20/tree-identical";
        }
        if (x->data.u64 != R[ri].val) {
            snprintf(why, wn, "integer %" PRIu64 " where the reference has %" PRIu64, x->data.u64, R[ri].val);
            return "C20/integer-value";
        }
        return NULL;
    case R_LIST: {
        int k = 0;
        for (int c = R[ri].first; c >= 0; c = R[c].next, ++k) {
            if (x == NULL || x->type != SXT_PAIR || x->data.pair == NULL) {
                snprintf(why, wn, "list ends (node type %d) before element %d of the reference list",
                         x ? (int)x->type : -1, k);
                return "C20/tree-identical";
            }
            const char *cl = cmp_tree(c, x->data.pair->car, why, wn);
            if (cl != NULL)
                return cl;
            x = x->data.pair->cdr;
        }
        if (x == NULL || x->type != SXT_EMPTY_LIST) {
            snprintf(why, wn, "node type %d where the reference list of %d elements ends",
                     x ? (int)x->type : -1, k);
            return "C20/tree-identical";
        }
        return NULL;
    }
    }
    return NULL;
}

/* bounded printer of the implementation's tree, for replay logs only */
static size_t
show_tree(const struct sx_node *x, char *buf, size_t n, size_t l, int budget)
{
#define PUT(...) do { if (l + 40 < n) l += (size_t)snprintf(buf + l, n - l, __VA_ARGS__); } while (0)
    if (budget <= 0) {
        PUT("...");
        return l;
    }
    if (x == NULL) {
        PUT("<null>");
        return l;
    }
    switch (x->type) {
    case SXT_SYMBOL: PUT("%.20s", x->data.symbol ? x->data.symbol : "<nullsym>"); break;
    case SXT_INTEGER: PUT("%" PRIu64, x->data.u64); break;
    case SXT_EMPTY_LIST: PUT("()"); break;
    case SXT_PAIR:
        PUT("(");
        for (int k = 0; x != NULL && x->type == SXT_PAIR && x->data.pair != NULL && k < 16; ++k) {
            if (k)
                PUT(" ");
            l = show_tree(x->data.pair->car, buf, n, l, budget - 1);
            x = x->data.pair->cdr;
        }
        if (x == NULL)
            PUT(" . <null>");
        else if (x->type != SXT_EMPTY_LIST)
            PUT(" . <type %d>", (int)x->type);
        PUT(")");
        break;
    default: PUT("<type %d>", (int)x->type); break;
    }
#undef PUT
    return l;
}

/* ------------------------------------------------------------------------
 * one input, two presentations
 * ---------------------------------------------------------------------- */
/* ------------------------------------------------------------------------
 * Failures of a sweep are confirmed before they are reported.
 *
 * A shard runs its cases one after the other in one process, a replay runs one
 * case alone in a fresh process.  If the reader keeps state between calls, a
 * case can fail in the sweep because of what the process parsed before and
 * hold when replayed.  So a case that fails during a sweep is first run once
 * more in a fresh process (this executable with --only idx):
 *   - it fails there too: reported as it is;
 *   - it holds there: the reader's answer to these octets depends on earlier
 *     calls.  That is reported as the case "the sweep of shard r/n from the
 *     first case up to case idx, in one process" -- number
 *     META_BASE + idx * 64 + (n - 1) -- whose replay walks exactly that prefix
 *     quietly and then runs case idx with the log on.  The shard stops there:
 *     nothing it would observe afterwards could be trusted to replay.
 * The history family (g) is the designed place for such defects and runs first;
 * this is the net under it.
 * ---------------------------------------------------------------------- */
#define META_BASE ((int64_t)1 << 40)
static struct {
    bool on;        /* this process replays a sweep prefix */
    int64_t target; /* ... up to and including this case */
    int64_t number; /* the number it was asked for */
} meta;
static struct {
    bool pending;
    char clause[64];
    char detail[600];
} deferred;

static void c20_fail(const char *clause, const char *fmt, ...) __attribute__((format(printf, 2, 3)));
static void
c20_fail(const char *clause, const char *fmt, ...)
{
    if (!mc.active)
        return;
    char detail[600];
    va_list ap;
    va_start(ap, fmt);
    vsnprintf(detail, sizeof detail, fmt, ap);
    va_end(ap);
    if (meta.on) {
        if (mc.cur == meta.target)
            mc_fail(clause, "%s", detail);
        return; /* cases of the prefix were judged by the sweep */
    }
    if (mc.only >= 0) {
        mc_fail(clause, "%s", detail);
        return;
    }
    if (mc.verbose)
        printf("FAIL %s: %s\n", clause, detail);
    if (deferred.pending)
        return; /* one record per case: the first oracle sentence that failed */
    deferred.pending = true;
    snprintf(deferred.clause, sizeof deferred.clause, "%s", clause);
    snprintf(deferred.detail, sizeof deferred.detail, "%s", detail);
}

/* 1: case idx fails `clause` (or dies) in a fresh process; 0: it holds there;
 * -1: could not find out */
static int
fails_in_fresh_process(int64_t idx, const char *clause)
{
    int fd[2];
    if (pipe(fd) != 0)
        return -1;
    fflush(NULL);
    const pid_t pid = fork();
    if (pid < 0) {
        close(fd[0]);
        close(fd[1]);
        return -1;
    }
    if (pid == 0) {
        char num[32];
        snprintf(num, sizeof num, "%lld", (long long)idx);
        dup2(fd[1], 1);
        const int nul = open("/dev/null", O_WRONLY);
        if (nul >= 0)
            dup2(nul, 2);
        close(fd[0]);
        close(fd[1]);
        execl("/proc/self/exe", "c20_sx", "--tier", mc.tier ? "thorough" : "quick", "--only", num, (char *)NULL);
        _exit(127);
    }
    close(fd[1]);
    char needle[96];
    snprintf(needle, sizeof needle, "FAIL %s:", clause);
    const size_t nl = strlen(needle);
    /* stream search: keep the last nl-1 octets between reads */
    char win[8192 + 96];
    size_t have = 0;
    bool found = false;
    for (;;) {
        const ssize_t got = read(fd[0], win + have, 8192);
        mc.tick_same = 0; /* waiting for the child is progress */
        if (got < 0 && errno == EINTR)
            continue;
        if (got <= 0)
            break;
        have += (size_t)got;
        win[have] = 0;
        for (size_t k = 0; !found && k + nl <= have; ++k)
            if (win[k] == 'F' && memcmp(win + k, needle, nl) == 0)
                found = true;
        if (have >= nl) {
            memmove(win, win + have - (nl - 1), nl - 1);
            have = nl - 1;
        }
    }
    close(fd[0]);
    int st = 0;
    while (waitpid(pid, &st, 0) < 0 && errno == EINTR)
        mc.tick_same = 0;
    if (found)
        return 1;
    if (WIFEXITED(st) && (WEXITSTATUS(st) == 0 || WEXITSTATUS(st) == 3))
        return 0;
    if (WIFEXITED(st) && (WEXITSTATUS(st) == 127 || WEXITSTATUS(st) == 2))
        return -1;
    return 1; /* sanitizer abort, signal, watchdog */
}

/* Inside the history family a failure that does not hold alone is only
 * remembered: the family enumerates the explicit, self-contained form of such
 * defects, which is the better report.  If the shard found none by the end of
 * the family, the remembered one is reported after all. */
static bool in_history_family;
static struct {
    bool pending;
    int64_t cur;
    char desc[MC_DESC_MAX];
    char clause[64];
    char detail[600];
} held;

static void
report_sweep_prefix(int64_t orig, const char *desc, const char *clause, const char *detail)
{
    char d[MC_DESC_MAX];
    snprintf(d, sizeof d, "sweep of shard %d/%d from its first case up to case %lld in one process; that case: %s",
             mc.shard, mc.nshards, (long long)orig, desc);
    mc.cur = META_BASE + orig * 64 + (mc.nshards - 1);
    mc.cur_failed = false;
    mc.active = true;
    memcpy(mc.desc, d, sizeof mc.desc);
    memcpy(mc.inflight->desc, mc.desc, sizeof mc.desc);
    mc.inflight->idx = mc.cur;
    mc_fail(clause, "%s -- case %lld alone, in a fresh process, holds: the reader's answer depends on the inputs this process parsed before",
            detail, (long long)orig);
    mc_cap("results depend on earlier calls: shard stopped at case %lld", (long long)orig);
    mc_finish(false, "sweep stopped");
    exit(3);
}

/* fresh processes a shard may start for failures that then hold alone */
#define UNCONFIRMED_BUDGET 16
static int unconfirmed;

static void
resolve_deferred(void)
{
    deferred.pending = false;
    const int r = fails_in_fresh_process(mc.cur, deferred.clause);
    if (r != 0 || mc.skip != 0 || mc.nshards > 64) {
        mc_fail(deferred.clause, "%s", deferred.detail);
        return;
    }
    if (in_history_family) {
        if (!held.pending) {
            held.pending = true;
            held.cur = mc.cur;
            memcpy(held.desc, mc.desc, sizeof held.desc);
            memcpy(held.clause, deferred.clause, sizeof held.clause);
            memcpy(held.detail, deferred.detail, sizeof held.detail);
        }
        if (++unconfirmed >= UNCONFIRMED_BUDGET) {
            /* the process is evidently out of step with a fresh one: stop here */
            if (mc.violations == 0)
                report_sweep_prefix(held.cur, held.desc, held.clause, held.detail);
            mc_cap("results depend on earlier calls: shard stopped at case %lld", (long long)mc.cur);
            mc_finish(false, "sweep stopped");
            exit(3);
        }
        return;
    }
    char desc[MC_DESC_MAX];
    memcpy(desc, mc.desc, sizeof desc);
    report_sweep_prefix(mc.cur, desc, deferred.clause, deferred.detail);
}

static void
history_family_done(void)
{
    in_history_family = false;
    if (held.pending && mc.violations == 0)
        report_sweep_prefix(held.cur, held.desc, held.clause, held.detail);
    held.pending = false;
}

static void
meta_before_case(void)
{
    if (meta.on && mc.idx == meta.target) {
        printf("CASE %lld sweep of shard %d/%d from its first case up to case %lld in one process; that case follows\n",
               (long long)meta.number, mc.shard, mc.nshards, (long long)meta.target);
        mc.verbose = true;
    }
}

#define c20_case(...) (meta_before_case(), mc_case(__VA_ARGS__))

static void
c20_end(bool nontrivial, const char *outcome)
{
    if (!mc.active)
        return;
    if (deferred.pending)
        resolve_deferred();
    mc_end(nontrivial, outcome);
    if (meta.on && mc.cur == meta.target) {
        mc_finish(true, "replay of a sweep prefix");
        fflush(NULL);
        exit(0);
    }
}

/* --only with a number >= META_BASE: become the sweep it stands for */
static void
meta_setup(void)
{
    if (mc.only < META_BASE)
        return;
    meta.on = true;
    meta.number = mc.only;
    const int64_t x = mc.only - META_BASE;
    mc.nshards = (int)(x % 64) + 1;
    meta.target = x / 64;
    mc.shard = (int)(meta.target % mc.nshards);
    mc.only = -1;
    mc.skip = 0;
    mc.verbose = false;
    mc.out = fopen("/dev/null", "w");
    if (mc.out == NULL)
        mc_broken("cannot open /dev/null");
}

static void
escape(const char *s, size_t n, char *out, size_t on)
{
    size_t l = 0;
    for (size_t i = 0; i < n && l + 5 < on; ++i) {
        const unsigned char c = (unsigned char)s[i];
        if (c == '\n') { out[l++] = '\\'; out[l++] = 'n'; }
        else if (c == '\t') { out[l++] = '\\'; out[l++] = 't'; }
        else if (c < 0x20 || c >= 0x7f || c == '"' || c == '\\')
            l += (size_t)snprintf(out + l, on - l, "\\x%02x", c);
        else out[l++] = (char)c;
    }
    out[l] = 0;
}

static bool
would_run_at(int k)
{
    const int64_t i = mc.idx + k;
    if (mc.only >= 0)
        return i == mc.only;
    return !(i < mc.skip || (i % mc.nshards) != mc.shard);
}

static bool is_success(enum sx_status s) { return s == SXS_SUCCESS; }
static bool is_error(enum sx_status s) { return s != SXS_SUCCESS && s != SXS_FOUND_LIST; }

/* The ledger was not empty after the first presentation.  A leak is growth:
 * the same octets are presented twice more, the ledger (started afresh before
 * the second presentation) being kept across both, and the number of blocks by
 * which "live" grew from after the second to after the third presentation is
 * returned (a returned tree is destroyed each time).  0 = what stays behind is
 * bounded: a block the parser allocates once and keeps, or one it replaces on
 * every call (a most-recent-diagnostic buffer behind a static pointer), not a
 * leak.  Same sequence in a sweep and in a replay of the case. */
/* errno as the caller's earlier business left it when the reader is entered
 * (-1: whatever it happens to be) */
static int errno_preset = -1;

static int
growth_on_further_presentations(int via, const char *buf, size_t n)
{
    ledger_start();
    int live[2];
    for (int k = 0; k < 2; ++k) {
        ledger.on = true;
        if (errno_preset >= 0)
            errno = errno_preset;
        struct sx_parse_result again = via ? sx_parse_stringn(buf, n) : sx_parse_string(buf);
        if (again.node != NULL)
            sx_destroy(&again.node);
        ledger.on = false;
        mc_trans(1);
        live[k] = ledger.live;
        mc_log("presentation %d (ledger kept from presentation 2 on): status=%d allocations made so far=%d live=%d",
               k + 2, (int)again.status, ledger.made, ledger.live);
    }
    return live[1] > live[0] ? live[1] - live[0] : 0;
}

/* One call of the reader under the oracle: `in`/n are the octets given to it
 * (via=0: NUL-terminated copy in a block of exactly n+1 octets, the caller has
 * made sure that there is no NUL among the n; via=1: block of exactly n
 * octets), e is what the statement demands for these octets, ctx is put in
 * front of every failure detail ("" or "step 2 of 3: ").  Not a case of its
 * own: the caller has opened one with mc_case and closes it with mc_end. */
static void
run_one(int via, const char *in, size_t n, const struct expect *e, const char *ctx)
{
    mc_trans(1);
    char *buf;
    if (via == 0) {
        buf = mc_exact(n + 1);
        memcpy(buf, in, n);
        buf[n] = 0;
    } else {
        buf = mc_exact_copy(in, n);
    }
    ledger_start();
    if (errno_preset >= 0)
        errno = errno_preset;
    struct sx_parse_result res = via ? sx_parse_stringn(buf, n) : sx_parse_string(buf);
    ledger.on = false;
    const int live = ledger.live;
    if (mc.verbose) {
        char tb[400];
        tb[0] = 0;
        show_tree(res.node, tb, sizeof tb, 0, 12);
        mc_log("%sreference: %s%s", ctx, e->verdict == V_OK ? "complete expression, " : e->verdict == V_ERR ? "no complete expression, " : "grammar leaves it open, ", e->outcome);
        if (e->verdict == V_OK)
            mc_log("%sreference position=%zu", ctx, e->pos);
        mc_log("%ssx: status=%d position=%zu tree=%s allocations made=%d live=%d",
               ctx, (int)res.status, res.position, tb, ledger.made, live);
    }
    if (ledger.overflow)
        c20_fail("C20/terminates", "%smore than %d allocations live at once for %zu input octets", ctx, LEDGER_MAX / 4 * 3, n);

    /* unconditional: an error status comes without a tree and without live allocations */
    if (!is_success(res.status) && res.node != NULL)
        c20_fail("C20/no-tree-on-error", "%sstatus %d with a non-null tree", ctx, (int)res.status);
    if (!is_success(res.status) && res.node == NULL && live != 0) {
        const int again = growth_on_further_presentations(via, buf, n);
        if (again != 0)
            c20_fail("C20/no-leak-on-error", "%sstatus %d, no tree, %d allocation(s) still live (and %d more with every further presentation)",
                    ctx, (int)res.status, live, again);
    }
    if (is_success(res.status) && res.node == NULL) {
        if (e->verdict == V_OK)
            c20_fail("C20/complete-is-parsed", "%ssuccess status without a tree", ctx);
        else
            c20_fail("C20/success-without-tree", "%sstatus success (0) with a null tree: neither a tree nor an error status", ctx);
        if (live != 0) {
            const int again = growth_on_further_presentations(via, buf, n);
            if (again != 0)
                c20_fail("C20/no-leak-on-error", "%sno tree, %d allocation(s) still live (and %d more with every further presentation)", ctx, live, again);
        }
    }

    switch (e->verdict) {
    case V_OK:
        if (!is_success(res.status)) {
            c20_fail("C20/complete-is-parsed", "%sstatus %d for an input that begins with a complete expression (ends at %zu)",
                    ctx, (int)res.status, e->pos);
        } else if (res.node != NULL) {
            char why[200];
            const char *cl = cmp_tree(e->root, res.node, why, sizeof why);
            if (cl != NULL)
                c20_fail(cl, "%s%s", ctx, why);
            else if (res.position != e->pos)
                c20_fail("C20/position", "%sposition %zu, the expression ends just before %zu", ctx, res.position, e->pos);
        }
        break;
    case V_ERR:
        if (!is_error(res.status) && res.node != NULL)
            c20_fail("C20/incomplete-is-error", "%sstatus %d with a tree for an input without a complete expression (%s)",
                    ctx, (int)res.status, e->outcome);
        break;
    case V_OPEN:
        break;
    }

    if (res.node != NULL) {
        ledger.on = true;
        sx_destroy(&res.node);
        ledger.on = false;
        const int dlive = ledger.live;
        mc_log("%safter sx_destroy: live=%d", ctx, dlive);
        if (dlive != 0) {
            const int again = growth_on_further_presentations(via, buf, n);
            if (again != 0)
                c20_fail("C20/destroy-frees-all", "%s%d allocation(s) of the parser still live after sx_destroy of the returned tree (and %d more with every further presentation)",
                        ctx, dlive, again);
        }
    }
    free(buf);
}

/* Runs the two cases of one input.  `what` is the family part of the
 * descriptor, e is what the statement demands for these octets. */
static void
present(const char *what, const char *in, size_t n, const struct expect *e)
{
    char esc[300];
    escape(in, n, esc, sizeof esc);
    for (int via = 0; via < 2; ++via) {
        if (!c20_case("%s len=%zu in=\"%s\" via=%s", what, n, esc, via ? "stringn" : "string"))
            continue;
        run_one(via, in, n, e, "");
        c20_end(e->nontrivial, e->outcome);
    }
}

/* ------------------------------------------------------------------------
 * family (b): all strings over the ten characters
 * ---------------------------------------------------------------------- */
static const char SALPHA[10] = { '(', ')', ' ', '\n', 'a', '1', '#', 'x', 'F', '-' };

static void
family_strings(int maxlen)
{
    for (int len = 0; len <= maxlen; ++len) {
        int d[16] = { 0 };
        for (;;) {
            if (would_run_at(0) || would_run_at(1)) {
                char in[17];
                for (int k = 0; k < len; ++k)
                    in[k] = SALPHA[d[k]];
                in[len] = 0;
                nR = 0;
                struct expect e;
                ref_read(in, (size_t)len, &e);
                present("str", in, (size_t)len, &e);
            } else {
                mc_skip_case();
                mc_skip_case();
            }
            int k = len - 1;
            while (k >= 0 && ++d[k] == 10)
                d[k--] = 0;
            if (k < 0)
                break;
        }
    }
}

/* ------------------------------------------------------------------------
 * family (a): all trees, rendered
 * ---------------------------------------------------------------------- */
#define T_OPEN (-1)
#define T_CLOSE (-2)
static const char *const VSYM[3] = { "a", "foo", "x-1" };
static const uint64_t VINT[5] = { 0u, 7u, 255u, 4294967296u, 0xabcdefu };
#define NLEAF 8 /* 0..2 symbols, 3..7 integers */

enum style { ST_CANON, ST_TIGHT, ST_WIDE, ST_TABNL, ST_LEADTRAIL, ST_HEXLOWER, ST_HEXUPPER, NSTYLE };
static const char *const STYLE_NAME[NSTYLE] = { "canonical", "tight", "wide", "tab-newline",
                                                "lead-trail", "hex-lower", "hex-upper" };

static int tok[32];
static int ntok;
static int64_t trees_emitted;

static int
build_ref(int *p)
{
    const int t = tok[(*p)++];
    if (t == T_OPEN) {
        const int list = r_new(R_LIST);
        while (tok[*p] != T_CLOSE)
            r_append(list, build_ref(p));
        (*p)++;
        return list;
    }
    if (t < 3) {
        const int x = r_new(R_SYM);
        R[x].sym = VSYM[t];
        R[x].symlen = strlen(VSYM[t]);
        return x;
    }
    const int x = r_new(R_INT);
    R[x].val = VINT[t - 3];
    return x;
}

/* renders tok[] in a style; returns the length, *end = just past the expression */
static size_t
render(enum style st, char *out, size_t on, size_t *end)
{
    size_t l = 0;
#define EMIT(...) do { l += (size_t)snprintf(out + l, on - l, __VA_ARGS__); if (l + 32 > on) mc_broken("render buffer"); } while (0)
    const char *between = " ", *after_open = "", *before_close = "";
    if (st == ST_WIDE) { between = "  "; after_open = " "; before_close = "  "; }
    if (st == ST_TABNL) { between = "\n\t"; after_open = "\t"; before_close = "\n"; }
    if (st == ST_LEADTRAIL)
        EMIT(" \n ");
    for (int k = 0; k < ntok; ++k) {
        const int t = tok[k];
        if (k > 0) {
            const int prev = tok[k - 1];
            if (prev == T_OPEN && t == T_CLOSE)
                EMIT("%s", st == ST_WIDE ? " " : st == ST_TABNL ? "\n" : "");
            else if (prev == T_OPEN)
                EMIT("%s", after_open);
            else if (t == T_CLOSE)
                EMIT("%s", before_close);
            else if (st == ST_TIGHT && (prev == T_CLOSE || t == T_OPEN))
                EMIT("%s", "");
            else
                EMIT("%s", between);
        }
        if (t == T_OPEN)
            EMIT("(");
        else if (t == T_CLOSE)
            EMIT(")");
        else if (t < 3)
            EMIT("%s", VSYM[t]);
        else if (st == ST_HEXLOWER)
            EMIT("#x%" PRIx64, VINT[t - 3]);
        else if (st == ST_HEXUPPER)
            EMIT("#x%" PRIX64, VINT[t - 3]);
        else
            EMIT("%" PRIu64, VINT[t - 3]);
    }
    *end = l;
    if (st == ST_LEADTRAIL)
        EMIT("  ) x");
#undef EMIT
    return l;
}

static void
emit_tree(int nodes, int depth)
{
    trees_emitted++;
    bool has_int = false;
    for (int k = 0; k < ntok; ++k)
        if (tok[k] >= 3)
            has_int = true;
    for (int st = 0; st < NSTYLE; ++st) {
        if ((st == ST_HEXLOWER || st == ST_HEXUPPER) && !has_int)
            continue; /* identical to the canonical rendering */
        if (!(would_run_at(0) || would_run_at(1))) {
            mc_skip_case();
            mc_skip_case();
            continue;
        }
        char in[256];
        size_t end;
        const size_t n = render((enum style)st, in, sizeof in, &end);
        nR = 0;
        int p = 0;
        const int gen = build_ref(&p);
        if (p != ntok)
            mc_broken("tree generator produced an ill-formed token sequence");
        /* the generator tree is the oracle; the reference reader has to agree
         * with it on every rendering, or the harness is wrong */
        struct expect e;
        ref_read(in, n, &e);
        if (e.verdict != V_OK || !r_equal(e.root, gen) || e.pos != end) {
            char esc[300];
            escape(in, n, esc, sizeof esc);
            mc_broken("reference reader disagrees with the tree generator on \"%s\" (verdict %d, pos %zu, expected %zu)",
                      esc, (int)e.verdict, e.pos, end);
        }
        e.root = gen;
        char what[80];
        snprintf(what, sizeof what, "tree nodes=%d depth=%d style=%s", nodes, depth, STYLE_NAME[st]);
        present(what, in, n, &e);
    }
}

/* all token sequences that are exactly one expression with `target` nodes
 * (atoms + lists) and nesting depth <= maxdepth */
static void
gen_trees(int depth, int nodes, int target, int maxdepth, int deepest)
{
    if (ntok > 0 && depth == 0) {
        if (nodes == target)
            emit_tree(nodes, deepest);
        return;
    }
    if (nodes < target) {
        for (int leaf = 0; leaf < NLEAF; ++leaf) {
            tok[ntok++] = leaf;
            gen_trees(depth, nodes + 1, target, maxdepth, deepest);
            ntok--;
        }
        if (depth < maxdepth) {
            tok[ntok++] = T_OPEN;
            gen_trees(depth + 1, nodes + 1, target, maxdepth, depth + 1 > deepest ? depth + 1 : deepest);
            ntok--;
        }
    }
    if (depth > 0) {
        tok[ntok++] = T_CLOSE;
        gen_trees(depth - 1, nodes, target, maxdepth, deepest);
        ntok--;
    }
}

static void
family_trees(int maxnodes, int maxdepth)
{
    for (int target = 1; target <= maxnodes; ++target) {
        ntok = 0;
        gen_trees(0, 0, target, maxdepth, 0);
    }
}

/* ------------------------------------------------------------------------
 * text builder for the generated inputs of the families below
 * ---------------------------------------------------------------------- */
struct tbuf {
    char *p;
    size_t n, cap;
};

static void
tb_put(struct tbuf *b, const char *s, size_t n)
{
    if (b->n + n + 1 > b->cap) {
        while (b->n + n + 1 > b->cap)
            b->cap = b->cap ? 2 * b->cap : 256;
        b->p = realloc(b->p, b->cap);
        if (b->p == NULL)
            mc_broken("no memory for a generated input");
    }
    memcpy(b->p + b->n, s, n);
    b->n += n;
    b->p[b->n] = 0;
}

static void tb_puts(struct tbuf *b, const char *s) { tb_put(b, s, strlen(s)); }
static void tb_reset(struct tbuf *b) { b->n = 0; tb_put(b, "", 0); }

static void
tb_rep(struct tbuf *b, const char *s, unsigned times)
{
    const size_t l = strlen(s);
    while (times-- > 0)
        tb_put(b, s, l);
}

/* element k of a generated flat list.  ints: decimal k.  mixed, by k mod 8:
 * 0 decimal k | 1 #x<K upper case> | 2 symbol e<k> | 3 () | 4 decimal k |
 * 5 #x<k lower case> | 6 symbol s-<k> | 7 the one-element list (<k>) */
enum { EL_INTS, EL_MIXED, NELEMS };
static const char *const ELEMS_NAME[NELEMS] = { "ints", "mixed" };

static void
put_elem(struct tbuf *b, int elems, unsigned k)
{
    char t[32];
    if (elems == EL_INTS) {
        snprintf(t, sizeof t, "%u", k);
    } else {
        switch (k % 8u) {
        case 1: snprintf(t, sizeof t, "#x%X", k); break;
        case 2: snprintf(t, sizeof t, "e%u", k); break;
        case 3: snprintf(t, sizeof t, "()"); break;
        case 5: snprintf(t, sizeof t, "#x%x", k); break;
        case 6: snprintf(t, sizeof t, "s-%u", k); break;
        case 7: snprintf(t, sizeof t, "(%u)", k); break;
        default: snprintf(t, sizeof t, "%u", k); break;
        }
    }
    tb_puts(b, t);
}

/* "(" e0 sep e1 sep ... e(L-1) <ending> */
enum { FE_COMPLETE, FE_OPEN, FE_OPEN_WS, FE_BADLAST, NFLATEND };
static const char *const FLATEND_NAME[NFLATEND] = { "complete", "unterminated", "unterminated-then-space", "bad-last-element" };

static void
put_flat(struct tbuf *b, unsigned L, int elems, const char *sep, int ending)
{
    tb_puts(b, "(");
    for (unsigned k = 0; k < L; ++k) {
        if (k)
            tb_puts(b, sep);
        put_elem(b, elems, k);
    }
    switch (ending) {
    case FE_COMPLETE: tb_puts(b, ")"); break;
    case FE_OPEN: break;
    case FE_OPEN_WS: tb_puts(b, " "); break;
    case FE_BADLAST:
        if (L)
            tb_puts(b, sep);
        tb_puts(b, "1a)");
        break;
    }
}

/* D times `open`, the atom, `closers` times `close` */
static void
put_nest(struct tbuf *b, unsigned D, const char *open, const char *atom, const char *close, unsigned closers)
{
    tb_rep(b, open, D);
    tb_puts(b, atom);
    tb_rep(b, close, closers);
}

/* ------------------------------------------------------------------------
 * the reader's own answer to "is VT / FF inter-token whitespace"
 * ---------------------------------------------------------------------- */
static const unsigned char WORLD_OCTET[2] = { 0x0b, 0x0c };

static bool
probe_ws(int via, unsigned char c)
{
    const char t[3] = { '(', (char)c, ')' };
    char *buf;
    if (via == 0) {
        buf = mc_exact(4);
        memcpy(buf, t, 3);
        buf[3] = 0;
    } else {
        buf = mc_exact_copy(t, 3);
    }
    struct sx_parse_result res = via ? sx_parse_stringn(buf, 3) : sx_parse_string(buf);
    mc_trans(1);
    const bool ws = is_success(res.status) && res.node != NULL && res.node->type == SXT_EMPTY_LIST && res.position == 3;
    mc_log("probe \"(\\x%02x)\": status=%d position=%zu -> the reader %s 0x%02x as inter-token whitespace",
           c, (int)res.status, res.position, ws ? "takes" : "does not take", c);
    if (res.node != NULL)
        sx_destroy(&res.node);
    free(buf);
    return ws;
}

/* bit k set: WORLD_OCTET[k] occurs in the input; ws_extra[] is set for those */
static int
probe_worlds(int via, const char *in, size_t n)
{
    int present = 0;
    for (int k = 0; k < 2; ++k) {
        ws_extra[WORLD_OCTET[k]] = false;
        if (n > 0 && memchr(in, WORLD_OCTET[k], n) != NULL) {
            present |= 1 << k;
            ws_extra[WORLD_OCTET[k]] = probe_ws(via, WORLD_OCTET[k]);
        }
    }
    return present;
}

/* Two cases of one input that may contain any octet.  via=string presents the
 * octets before the first NUL (that is the input then); the expectation is
 * computed per presentation, after the VT/FF probes. */
static void
present_raw(const char *what, const char *in, size_t n)
{
    char esc[300];
    escape(in, n, esc, sizeof esc);
    for (int via = 0; via < 2; ++via) {
        if (!c20_case("%s len=%zu in=\"%s\" via=%s", what, n, esc, via ? "stringn" : "string"))
            continue;
        size_t m = n;
        if (via == 0 && n > 0) {
            const char *z = memchr(in, 0, n);
            if (z != NULL)
                m = (size_t)(z - in);
        }
        const int w = probe_worlds(via, in, m);
        nR = 0;
        struct expect e;
        ref_read(in, m, &e);
        if (w != 0) {
            bool all_ws = true;
            for (int k = 0; k < 2; ++k)
                if ((w & (1 << k)) && !ws_extra[WORLD_OCTET[k]])
                    all_ws = false;
            if (!all_ws)
                e.outcome = "vtff-not-whitespace-for-this-reader";
            else if (e.verdict == V_OK)
                e.outcome = "ok-vtff-as-whitespace";
            else if (e.verdict == V_ERR)
                e.outcome = "err-vtff-as-whitespace";
            else
                e.outcome = "open-vtff-as-whitespace";
            e.nontrivial = true;
        }
        run_one(via, in, m, &e, "");
        c20_end(e.nontrivial, e.outcome);
        ws_extra[0x0b] = ws_extra[0x0c] = false;
    }
}

/* ------------------------------------------------------------------------
 * family (c): every octet 0..255 in every role (templates; '@' and '%' mark
 * the positions of the octets under test)
 * ---------------------------------------------------------------------- */
static const char *const OCT_TEMPLATE[] = {
    "@", "@a", "a@", "a@b", "12@", "1@2", "#xF@", "#xf@1", "(@)", "(@a)", "(a@)", "(a@b)", "(1@2)",
    "(#xA@#xb)", "()@", "(a)@x", "(a@", "(@", "@(a)", "@)", "a@(", "((a)@(b))", "(a @b)", "(a@ b)",
    "@@a", "a@@", "(a@@b)",
};
#define NOCT_TEMPLATE ((int)(sizeof OCT_TEMPLATE / sizeof OCT_TEMPLATE[0]))
static const char *const OCT2_TEMPLATE[] = { "a@%", "(@%)", "(a@%b)", "1@%2" };
#define NOCT2_TEMPLATE ((int)(sizeof OCT2_TEMPLATE / sizeof OCT2_TEMPLATE[0]))
/* quick: the pairs over these; thorough: all 65536 pairs */
static const unsigned char OCT2_SUBSET[] = { 0x00, 0x01, 0x08, 0x09, 0x0a, 0x0b, 0x0c, 0x0d, 0x0e, 0x1f, 0x20, '(', ')',
                                             '+', '-', '1', 'a', '{', 0x7f, 0x80, 0x85, 0xa0, 0xff };

static void
family_octets(void)
{
    for (int t = 0; t < NOCT_TEMPLATE; ++t)
        for (int c = 0; c < 256; ++c) {
            if (!(would_run_at(0) || would_run_at(1))) {
                mc_skip_case();
                mc_skip_case();
                continue;
            }
            char in[24];
            const size_t n = strlen(OCT_TEMPLATE[t]);
            for (size_t k = 0; k < n; ++k)
                in[k] = OCT_TEMPLATE[t][k] == '@' ? (char)c : OCT_TEMPLATE[t][k];
            char what[64];
            snprintf(what, sizeof what, "oct tmpl=%s c=0x%02x", OCT_TEMPLATE[t], c);
            present_raw(what, in, n);
        }
    const int npair = mc_thorough() ? 256 : (int)sizeof OCT2_SUBSET;
    for (int t = 0; t < NOCT2_TEMPLATE; ++t)
        for (int i = 0; i < npair; ++i)
            for (int j = 0; j < npair; ++j) {
                if (!(would_run_at(0) || would_run_at(1))) {
                    mc_skip_case();
                    mc_skip_case();
                    continue;
                }
                const int c = mc_thorough() ? i : OCT2_SUBSET[i], d = mc_thorough() ? j : OCT2_SUBSET[j];
                char in[24];
                const size_t n = strlen(OCT2_TEMPLATE[t]);
                for (size_t k = 0; k < n; ++k)
                    in[k] = OCT2_TEMPLATE[t][k] == '@' ? (char)c : OCT2_TEMPLATE[t][k] == '%' ? (char)d : OCT2_TEMPLATE[t][k];
                char what[64];
                snprintf(what, sizeof what, "oct2 tmpl=%s c=0x%02x d=0x%02x", OCT2_TEMPLATE[t], c, d);
                present_raw(what, in, n);
            }
}

/* ------------------------------------------------------------------------
 * family (d): all strings over further alphabets (any octets)
 * ---------------------------------------------------------------------- */
static void
family_strings_over(const char *name, const char *alpha, int nalpha, int maxlen)
{
    for (int len = 0; len <= maxlen; ++len) {
        int d[16] = { 0 };
        for (;;) {
            if (would_run_at(0) || would_run_at(1)) {
                char in[17];
                for (int k = 0; k < len; ++k)
                    in[k] = alpha[d[k]];
                in[len] = 0;
                present_raw(name, in, (size_t)len);
            } else {
                mc_skip_case();
                mc_skip_case();
            }
            int k = len - 1;
            while (k >= 0 && ++d[k] == nalpha)
                d[k--] = 0;
            if (k < 0)
                break;
        }
    }
}

static const char WALPHA[8] = { '(', ')', 'a', '1', 0x0b, 0x0c, '\r', '\t' };
static const char OALPHA[9] = { '(', ')', 'a', '1', ' ', 0x00, (char)0x80, (char)0xff, '+' };

/* ------------------------------------------------------------------------
 * family (e): list lengths on a boundary family
 * ---------------------------------------------------------------------- */
static struct tbuf gen; /* the generated input of the case at hand */

static void
log_generated(void)
{
    if (!mc.verbose)
        return;
    char esc[300];
    escape(gen.p, gen.n < 100 ? gen.n : 100, esc, sizeof esc);
    mc_log("generated input, %zu octets, begins \"%s\"%s", gen.n, esc, gen.n > 100 ? " ..." : "");
}

enum { WR_BARE, WR_IN2, WR_TWICE, NWRAP };
static const char *const WRAP_NAME[NWRAP] = { "bare", "(a_LIST_b)", "(LIST_LIST)" };

static int64_t len_cases, depth_cases, hist_cases;
/* every length / depth up to here; above, 2^p-1 .. 2^p+1.  Dense enough to cross
 * the first few steps of growth by a constant (8, 10, 16, 32) and by a factor
 * (1.5, 2) from a small start. */
#define LEN_DENSE (mc_thorough() ? 520u : 100u)
#define DEPTH_DENSE (mc_thorough() ? 300u : 100u)

/* Large inputs and the watchdog.  The statement says the reader terminates, it
 * sets no complexity: a correct reader that appends each element by walking to
 * the tail of the list needs seconds for 65537 elements under ASan.  So a case
 * of size >= 4096 (elements, levels, octets of a symbol) states a budget in
 * proportion to its size, and before the first such case of a family the process
 * measures this reader once on an input of that family at a smaller scale and
 * extrapolates quadratically: a case whose projected duration does not fit its
 * budget with a margin of one half is not run (cap, never `hang`).  The clock
 * only decides whether a case is run; it is never printed.  A replay runs the
 * case (it did end in the run that recorded it). */
enum { GF_LEN, GF_DEPTH, GF_SYMBOL, NGF };
#define BIG_FROM 4096u

static int
big_budget(unsigned size)
{
    return 20 + (int)(size / (mc_thorough() ? 200u : 1000u));
}

static void put_flat(struct tbuf *b, unsigned L, int elems, const char *sep, int ending);
static void put_symbol(struct tbuf *b, unsigned n);

static double
big_probe(int fam, unsigned *scale)
{
    static double secs[NGF];
    static const unsigned SCALE[NGF] = { 16384u, 2048u, 16384u };
    *scale = SCALE[fam];
    if (secs[fam] > 0.0)
        return secs[fam];
    static struct tbuf pb;
    tb_reset(&pb);
    if (fam == GF_LEN)
        put_flat(&pb, SCALE[fam], EL_INTS, " ", FE_COMPLETE);
    else if (fam == GF_DEPTH)
        put_nest(&pb, SCALE[fam], "(a ", "x", " b)", SCALE[fam]);
    else
        put_symbol(&pb, SCALE[fam]);
    char *buf = mc_exact_copy(pb.p, pb.n);
    struct timespec t0, t1;
    ledger_start();
    clock_gettime(CLOCK_MONOTONIC, &t0);
    struct sx_parse_result res = sx_parse_stringn(buf, pb.n);
    if (res.node != NULL)
        sx_destroy(&res.node);
    clock_gettime(CLOCK_MONOTONIC, &t1);
    ledger.on = false;
    free(buf);
    double dt = (double)(t1.tv_sec - t0.tv_sec) + 1e-9 * (double)(t1.tv_nsec - t0.tv_nsec);
    if (dt < 1e-6)
        dt = 1e-6;
    secs[fam] = dt;
    return dt;
}

/* Call right after c20_case() returned true.  True: the case is not to be run
 * (the caller closes it with c20_end(false, "big-skipped-slow")). */
static bool
big_gate(int fam, unsigned size)
{
    if (size < BIG_FROM)
        return false;
    const int budget = big_budget(size);
    mc_budget(budget);
    if (mc.only >= 0)
        return false;
    unsigned scale;
    const double t = big_probe(fam, &scale);
    mc_budget(budget); /* the probe's time is not the case's */
    const double f = (double)size / (double)scale;
    if (t * f * f * 2.0 <= (double)budget)
        return false;
    static bool said[NGF];
    static const char *const FN[NGF] = { "lists", "nests", "symbols" };
    if (!said[fam])
        mc_cap("big-slow: at the measured speed of this reader (probe at size %u, extrapolated quadratically) the largest %s do not fit their time budget: such cases not run", scale, FN[fam]);
    said[fam] = true;
    return true;
}

static void
len_case(unsigned L, int elems, int wrap, int ending, bool trailing, int sepk)
{
    static const char *const SEP[2] = { " ", "\n\t " };
    static const char *const SEP_NAME[2] = { "space", "newline-tab-space" };
    for (int via = 0; via < 2; ++via) {
        len_cases++;
        if (!c20_case("len L=%u elems=%s wrap=%s end=%s%s sep=%s via=%s", L, ELEMS_NAME[elems], WRAP_NAME[wrap],
                     FLATEND_NAME[ending], trailing ? "+trailing" : "", SEP_NAME[sepk], via ? "stringn" : "string"))
            continue;
        if (big_gate(GF_LEN, L)) {
            c20_end(false, "big-skipped-slow");
            continue;
        }
        tb_reset(&gen);
        if (wrap == WR_IN2)
            tb_puts(&gen, "(a ");
        if (wrap == WR_TWICE) {
            tb_puts(&gen, "(");
            put_flat(&gen, L, elems, SEP[sepk], FE_COMPLETE);
            tb_puts(&gen, SEP[sepk]);
        }
        put_flat(&gen, L, elems, SEP[sepk], ending);
        if (wrap == WR_IN2)
            tb_puts(&gen, " b)");
        if (wrap == WR_TWICE)
            tb_puts(&gen, ")");
        if (trailing)
            tb_puts(&gen, "  ) x");
        log_generated();
        nR = 0;
        struct expect e;
        ref_read(gen.p, gen.n, &e);
        if (ending == FE_COMPLETE && (e.verdict != V_OK || e.longest < (long)L))
            mc_broken("len family: the reference reader does not find the %u-element list it was given", L);
        if (ending != FE_COMPLETE && e.verdict != V_ERR)
            mc_broken("len family: the reference reader accepts a broken list");
        if (L > 32)
            e.outcome = e.verdict == V_OK ? "ok-list-over-32" : "err-in-list-over-32";
        run_one(via, gen.p, gen.n, &e, "");
        c20_end(true, e.outcome);
    }
}

static void
family_lengths(void)
{
    /* every length up to `dense`, then three lengths around each power of two */
    const unsigned dense = LEN_DENSE;
    for (unsigned L = 0; L <= dense; ++L)
        for (int elems = 0; elems < NELEMS; ++elems)
            for (int wrap = 0; wrap < NWRAP; ++wrap)
                for (int ending = 0; ending < NFLATEND; ++ending)
                    for (int sepk = 0; sepk < 2; ++sepk) {
                        len_case(L, elems, wrap, ending, false, sepk);
                        if (ending == FE_COMPLETE)
                            len_case(L, elems, wrap, ending, true, sepk);
                    }
    for (unsigned p = 6; p <= 16; ++p)
        for (unsigned L = (1u << p) - 1u; L <= (1u << p) + 1u; ++L) {
            if (L <= dense)
                continue;
            const bool big = L > 1100u;
            if (big && !mc_thorough() && p != 16)
                continue; /* quick: 2^16 +- 1 stands for the large boundaries */
            for (int elems = 0; elems < NELEMS; ++elems)
                for (int wrap = 0; wrap < (big ? 2 : NWRAP); ++wrap)
                    for (int ending = 0; ending < NFLATEND; ++ending) {
                        if (big && !mc_thorough() && (elems != EL_INTS || wrap != WR_BARE || ending == FE_OPEN_WS))
                            continue;
                        len_case(L, elems, wrap, ending, false, 0);
                        if (ending == FE_COMPLETE && !big)
                            len_case(L, elems, wrap, ending, true, 1);
                    }
        }
    /* 33 / 96 / 97: straddle growth by 32 (2^p +- 1 covers 31..33, 63..65, 127..129) */
    for (unsigned L = 95; L <= 97 && L > dense; ++L)
        for (int elems = 0; elems < NELEMS; ++elems)
            for (int ending = 0; ending < NFLATEND; ++ending)
                len_case(L, elems, WR_BARE, ending, false, 0);
}

/* ------------------------------------------------------------------------
 * family (f): nesting depths on a boundary family
 * ---------------------------------------------------------------------- */
enum { DS_NEST, DS_COMB, NDSHAPE };
static const char *const DSHAPE_NAME[NDSHAPE] = { "((..ATOM..))", "(a_(a_..ATOM.._b)_b)" };
enum { DE_COMPLETE, DE_TRAILING, DE_OPENS_ONLY, DE_ONE_CLOSE_SHORT, DE_BAD_ATOM, NDEND };
static const char *const DEND_NAME[NDEND] = { "complete", "complete+trailing", "opens-only", "one-close-short", "bad-atom" };
static const char *const DATOM[3] = { "x", "12", "()" };

static void
depth_case(unsigned D, int shape, int atom, int ending)
{
    for (int via = 0; via < 2; ++via) {
        depth_cases++;
        if (!c20_case("depth D=%u shape=%s atom=%s end=%s via=%s", D, DSHAPE_NAME[shape], DATOM[atom], DEND_NAME[ending],
                     via ? "stringn" : "string"))
            continue;
        if (big_gate(GF_DEPTH, D)) {
            c20_end(false, "big-skipped-slow");
            continue;
        }
        const char *open = shape == DS_NEST ? "(" : "(a ";
        const char *close = shape == DS_NEST ? ")" : " b)";
        tb_reset(&gen);
        switch (ending) {
        case DE_COMPLETE: put_nest(&gen, D, open, DATOM[atom], close, D); break;
        case DE_TRAILING: put_nest(&gen, D, open, DATOM[atom], close, D); tb_puts(&gen, ")  x"); break;
        case DE_OPENS_ONLY: put_nest(&gen, D, open, "", close, 0); break;
        case DE_ONE_CLOSE_SHORT: put_nest(&gen, D, open, DATOM[atom], close, D - 1u); break;
        case DE_BAD_ATOM: put_nest(&gen, D, open, "1a", close, D); break;
        }
        log_generated();
        nR = 0;
        struct expect e;
        ref_read(gen.p, gen.n, &e);
        const bool complete = ending == DE_COMPLETE || ending == DE_TRAILING;
        if (complete && (e.verdict != V_OK || e.deepest < (int)D))
            mc_broken("depth family: the reference reader does not find the %u levels it was given", D);
        if (!complete && e.verdict != V_ERR)
            mc_broken("depth family: the reference reader accepts a broken nest");
        if (D > 64)
            e.outcome = e.verdict == V_OK ? "ok-depth-over-64" : "err-depth-over-64";
        run_one(via, gen.p, gen.n, &e, "");
        c20_end(true, e.outcome);
    }
}

static void
family_depths(void)
{
    const unsigned dense = DEPTH_DENSE;
    const unsigned maxp = mc_thorough() ? 12u : 10u;
    for (unsigned D = 1; D <= dense; ++D)
        for (int shape = 0; shape < NDSHAPE; ++shape)
            for (int atom = 0; atom < 3; ++atom)
                for (int ending = 0; ending < NDEND; ++ending)
                    depth_case(D, shape, atom, ending);
    for (unsigned p = 6; p <= maxp; ++p)
        for (unsigned D = (1u << p) - 1u; D <= (1u << p) + 1u; ++D) {
            if (D <= dense)
                continue;
            for (int shape = 0; shape < NDSHAPE; ++shape)
                for (int atom = 0; atom < 3; ++atom)
                    for (int ending = 0; ending < NDEND; ++ending)
                        depth_case(D, shape, atom, ending);
        }
}

/* ------------------------------------------------------------------------
 * family (h): atom sizes and integer values on boundary families
 * ---------------------------------------------------------------------- */
static int64_t atom_cases;

/* symbol of n octets: a letter that depends on n, then a fixed cycle of
 * letters, digits and '-' */
static void
put_symbol(struct tbuf *b, unsigned n)
{
    static const char CYCLE[13] = { 'b', 'c', 'x', 'y', 'z', 'A', 'B', 'Z', '0', '1', '9', '-', 'q' };
    for (unsigned k = 0; k < n; ++k) {
        const char c = k == 0 ? (char)('a' + n % 26u) : CYCLE[k % 13u];
        tb_put(b, &c, 1);
    }
}

enum { RX_DEC, RX_HEXLOWER, RX_HEXUPPER, NRADIX };
static const char *const RADIX_NAME[NRADIX] = { "decimal", "hex-lower", "hex-upper" };

static void
put_integer(struct tbuf *b, uint64_t v, int radix)
{
    char t[40];
    snprintf(t, sizeof t, radix == RX_DEC ? "%" PRIu64 : radix == RX_HEXLOWER ? "#x%" PRIx64 : "#x%" PRIX64, v);
    tb_puts(b, t);
}

/* the atom in its surroundings; '@' marks the atom */
static const char *const ATOM_CONTEXT[] = { "@", "(@)", "(1 @ a)", "(@ @)", "@)  x", "  @\n", "(@", "(a @ ", "@{" };
#define NATOM_CONTEXT ((int)(sizeof ATOM_CONTEXT / sizeof ATOM_CONTEXT[0]))

static void
atom_case(bool is_symbol, unsigned symlen, uint64_t v, int radix, int ctx)
{
    for (int via = 0; via < 2; ++via) {
        atom_cases++;
        const bool run = is_symbol
            ? c20_case("atom symbol of %u octets in %s via=%s", symlen, ATOM_CONTEXT[ctx], via ? "stringn" : "string")
            : c20_case("atom integer %" PRIu64 " %s in %s via=%s", v, RADIX_NAME[radix], ATOM_CONTEXT[ctx], via ? "stringn" : "string");
        if (!run)
            continue;
        if (is_symbol && big_gate(GF_SYMBOL, symlen)) {
            c20_end(false, "big-skipped-slow");
            continue;
        }
        tb_reset(&gen);
        for (const char *c = ATOM_CONTEXT[ctx]; *c; ++c) {
            if (*c != '@')
                tb_put(&gen, c, 1);
            else if (is_symbol)
                put_symbol(&gen, symlen);
            else
                put_integer(&gen, v, radix);
        }
        log_generated();
        nR = 0;
        struct expect e;
        ref_read(gen.p, gen.n, &e);
        if (ctx <= 5 && e.verdict != V_OK)
            mc_broken("atom family: the reference reader refuses a generated atom");
        if (ctx > 5 && e.verdict != V_ERR)
            mc_broken("atom family: the reference reader accepts a broken input");
        if (e.verdict == V_OK) {
            if (is_symbol && symlen > 32)
                e.outcome = "ok-symbol-over-32-octets";
            if (!is_symbol && v >= ((uint64_t)1 << 32))
                e.outcome = v >= ((uint64_t)1 << 63) ? "ok-integer-top-bit-set" : "ok-integer-over-32-bits";
        } else if (is_symbol && symlen > 32) {
            e.outcome = "err-with-symbol-over-32-octets";
        }
        run_one(via, gen.p, gen.n, &e, "");
        c20_end(true, e.outcome);
    }
}

static void
family_atoms(void)
{
    const unsigned dense = mc_thorough() ? 300u : 80u;
    for (unsigned n = 1; n <= dense; ++n)
        for (int ctx = 0; ctx < NATOM_CONTEXT; ++ctx)
            atom_case(true, n, 0, 0, ctx);
    for (unsigned p = 7; p <= 16; ++p)
        for (unsigned n = (1u << p) - 1u; n <= (1u << p) + 1u; ++n)
            if (n > dense)
                for (int ctx = 0; ctx < NATOM_CONTEXT; ++ctx)
                    atom_case(true, n, 0, 0, ctx);
    /* integers: 0, 2^k-1, 2^k, 2^k+1 for k = 1..64 (below 2^64), 10^k-1, 10^k for k = 1..19 */
    uint64_t vals[3 * 64 + 2 * 19 + 2];
    int nv = 0;
    vals[nv++] = 0;
    for (unsigned k = 1; k <= 64; ++k) {
        const uint64_t pw = k < 64 ? (uint64_t)1 << k : 0;
        vals[nv++] = pw - 1u;
        if (k < 64) {
            vals[nv++] = pw;
            vals[nv++] = pw + 1u;
        }
    }
    uint64_t ten = 1;
    for (unsigned k = 1; k <= 19; ++k) {
        ten *= 10u;
        vals[nv++] = ten - 1u;
        vals[nv++] = ten;
    }
    for (int i = 0; i < nv; ++i)
        for (int radix = 0; radix < NRADIX; ++radix)
            for (int ctx = 0; ctx + 1 < NATOM_CONTEXT; ++ctx) /* "@{" is for symbols */
                atom_case(false, 0, vals[i], radix, ctx);
    /* an integer directly followed by a letter that is no digit of its radix */
    for (int i = 0; i < nv; ++i)
        for (int radix = 0; radix < NRADIX; ++radix)
            for (int via = 0; via < 2; ++via) {
                atom_cases++;
                if (!c20_case("atom integer %" PRIu64 " %s followed by g via=%s", vals[i], RADIX_NAME[radix], via ? "stringn" : "string"))
                    continue;
                tb_reset(&gen);
                put_integer(&gen, vals[i], radix);
                tb_puts(&gen, "g");
                nR = 0;
                struct expect e;
                ref_read(gen.p, gen.n, &e);
                if (e.verdict != V_ERR)
                    mc_broken("atom family: the reference reader accepts an integer followed by g");
                run_one(via, gen.p, gen.n, &e, "");
                c20_end(true, e.outcome);
            }
}

/* ------------------------------------------------------------------------
 * family (g): parse histories inside one case.  The statement gives the result
 * of a parse as a function of the input alone, so every call of a sequence is
 * held against the reference reader, whatever was parsed (or refused) before.
 * ---------------------------------------------------------------------- */
enum ikind { I_LIT, I_NEST, I_OPENS, I_NEST_BAD, I_FLAT, I_FLAT_OPEN, I_FLAT_BAD };
struct item {
    const char *name; /* as it appears in the descriptor */
    enum ikind kind;
    const char *lit;
    unsigned n;
};
/* nest<D>: D '(' x D ')'.  opens<D>: D '('.  nestbad<D>: D '(' 1a D ')'.
 * flat<L>: (0 1 .. L-1).  flatopen<L>: the same without ')'.  flatbad<L>: (0 1 .. L-1 1a) */
static const struct item ITEMS[] = {
    /* the first HIST_CORE items make up the histories of length four (thorough) */
    { "\"(a (b) 12)\"", I_LIT, "(a (b) 12)", 0 },
    { "\"()\"", I_LIT, "()", 0 },
    { "\"#xFf\"", I_LIT, "#xFf", 0 },
    { "\"(a\"", I_LIT, "(a", 0 },
    { "\"(a (b 1a\"", I_LIT, "(a (b 1a", 0 },
    { "\")\"", I_LIT, ")", 0 },
    { "\"\"", I_LIT, "", 0 },
    { "\"1a\"", I_LIT, "1a", 0 },
    { "nest64", I_NEST, NULL, 64 },
    { "nest65", I_NEST, NULL, 65 },
    { "opens65", I_OPENS, NULL, 65 },
    { "nestbad65", I_NEST_BAD, NULL, 65 },
    { "flat33", I_FLAT, NULL, 33 },
    { "flatopen33", I_FLAT_OPEN, NULL, 33 },
#define HIST_CORE 14
    { "\"a\"", I_LIT, "a", 0 },
    { "\"12\"", I_LIT, "12", 0 },
    { "\"(a)\"", I_LIT, "(a)", 0 },
    { "\"(()())\"", I_LIT, "(()())", 0 },
    { "\" ( a ) x\"", I_LIT, " ( a ) x", 0 },
    { "\" \"", I_LIT, " ", 0 },
    { "\"(\"", I_LIT, "(", 0 },
    { "\"( \"", I_LIT, "( ", 0 },
    { "\"((a)\"", I_LIT, "((a)", 0 },
    { "\"(1a\"", I_LIT, "(1a", 0 },
    { "\"#x\"", I_LIT, "#x", 0 },
    { "\"-a\"", I_LIT, "-a", 0 },
    { "nest8", I_NEST, NULL, 8 },
    { "nest33", I_NEST, NULL, 33 },
    { "opens200", I_OPENS, NULL, 200 },
    { "flat32", I_FLAT, NULL, 32 },
    { "flatbad33", I_FLAT_BAD, NULL, 33 },
    { "\"(#xg)\"", I_LIT, "(#xg)", 0 },
    { "\"#x1g\"", I_LIT, "#x1g", 0 },
    { "\"(b a{)\"", I_LIT, "(b a{)", 0 },
#define HIST_QUICK 34
    { "\"(a (b) 12\"", I_LIT, "(a (b) 12", 0 },
    { "\"((\"", I_LIT, "((", 0 },
    { "\"(()\"", I_LIT, "(()", 0 },
    { "\"a b\"", I_LIT, "a b", 0 },
    { "\"(a))\"", I_LIT, "(a))", 0 },
    { "\"a#\"", I_LIT, "a#", 0 },
    { "nest16", I_NEST, NULL, 16 },
    { "nest17", I_NEST, NULL, 17 },
    { "nest32", I_NEST, NULL, 32 },
    { "nest128", I_NEST, NULL, 128 },
    { "nest129", I_NEST, NULL, 129 },
    { "nest1025", I_NEST, NULL, 1025 },
    { "opens33", I_OPENS, NULL, 33 },
    { "nestbad8", I_NEST_BAD, NULL, 8 },
    { "flat65", I_FLAT, NULL, 65 },
    { "flat1025", I_FLAT, NULL, 1025 },
    { "flatopen65", I_FLAT_OPEN, NULL, 65 },
};
#define NITEMS ((int)(sizeof ITEMS / sizeof ITEMS[0]))

static void
put_item(struct tbuf *b, const struct item *it)
{
    tb_reset(b);
    switch (it->kind) {
    case I_LIT: tb_puts(b, it->lit); break;
    case I_NEST: put_nest(b, it->n, "(", "x", ")", it->n); break;
    case I_OPENS: put_nest(b, it->n, "(", "", ")", 0); break;
    case I_NEST_BAD: put_nest(b, it->n, "(", "1a", ")", it->n); break;
    case I_FLAT: put_flat(b, it->n, EL_INTS, " ", FE_COMPLETE); break;
    case I_FLAT_OPEN: put_flat(b, it->n, EL_INTS, " ", FE_OPEN); break;
    case I_FLAT_BAD: put_flat(b, it->n, EL_INTS, " ", FE_BADLAST); break;
    }
}

static const struct item *
item_named(const char *name)
{
    for (int k = 0; k < NITEMS; ++k)
        if (!strcmp(ITEMS[k].name, name))
            return &ITEMS[k];
    mc_broken("history family: no item called %s", name);
}

/* One call of a history; returns the reference verdict. */
static enum verdict
hist_step(int via, const struct item *it, int step, int of, struct expect *e)
{
    char ctx[96];
    snprintf(ctx, sizeof ctx, "call %d of %d (%s): ", step, of, it->name);
    put_item(&gen, it);
    nR = 0;
    ref_read(gen.p, gen.n, e);
    run_one(via, gen.p, gen.n, e, ctx);
    return e->verdict;
}

static const char *
hist_outcome(bool failed_before, enum verdict last)
{
    if (last == V_OPEN)
        return "hist-last-open";
    if (last == V_OK)
        return failed_before ? "hist-ok-after-refused-input" : "hist-ok-after-ok";
    return failed_before ? "hist-refused-after-refused-input" : "hist-refused-after-ok";
}

static void
hist_case(const int *ix, int k)
{
    for (int via = 0; via < 2; ++via) {
        hist_cases++;
        char desc[300];
        size_t l = 0;
        for (int j = 0; j < k; ++j)
            l += (size_t)snprintf(desc + l, sizeof desc - l, "%s%s", j ? " | " : "", ITEMS[ix[j]].name);
        if (!c20_case("hist calls=%d [%s] via=%s", k, desc, via ? "stringn" : "string"))
            continue;
        bool failed_before = false;
        enum verdict last = V_OK;
        struct expect e;
        for (int j = 0; j < k; ++j) {
            if (j > 0 && last != V_OK)
                failed_before = true;
            last = hist_step(via, &ITEMS[ix[j]], j + 1, k, &e);
        }
        c20_end(true, hist_outcome(failed_before, last));
    }
}

static void
family_histories(void)
{
    const int nitems = mc_thorough() ? NITEMS : HIST_QUICK;
    int ix[4];
    for (ix[0] = 0; ix[0] < nitems; ++ix[0])
        for (ix[1] = 0; ix[1] < nitems; ++ix[1])
            hist_case(ix, 2);
    for (ix[0] = 0; ix[0] < nitems; ++ix[0])
        for (ix[1] = 0; ix[1] < nitems; ++ix[1])
            for (ix[2] = 0; ix[2] < nitems; ++ix[2])
                hist_case(ix, 3);
    if (mc_thorough())
        for (ix[0] = 0; ix[0] < HIST_CORE; ++ix[0])
            for (ix[1] = 0; ix[1] < HIST_CORE; ++ix[1])
                for (ix[2] = 0; ix[2] < HIST_CORE; ++ix[2])
                    for (ix[3] = 0; ix[3] < HIST_CORE; ++ix[3])
                        hist_case(ix, 4);

    /* the same refused (or deep) input many times over, then a probe */
    static const char *const REPEATED[] = { "opens65", "opens200", "nestbad65", "\"(1a\"", "\"((a)\"", "\")\"",
                                            "nest65", "flatopen33", "flatbad33" };
    static const char *const PROBE[] = { "\"()\"", "\"(a (b) 12)\"", "nest8", "nest33", "nest64", "flat33", "\"(a\"" };
    static const int TIMES[] = { 1, 2, 3, 4, 8, 16, 32, 33, 63, 64, 65, 128, 129 };
    for (size_t r = 0; r < sizeof REPEATED / sizeof REPEATED[0]; ++r)
        for (size_t t = 0; t < sizeof TIMES / sizeof TIMES[0]; ++t)
            for (size_t q = 0; q < sizeof PROBE / sizeof PROBE[0]; ++q)
                for (int via = 0; via < 2; ++via) {
                    hist_cases++;
                    if (!c20_case("hist-repeat %d x %s then %s via=%s", TIMES[t], REPEATED[r], PROBE[q], via ? "stringn" : "string"))
                        continue;
                    const struct item *rep = item_named(REPEATED[r]), *probe = item_named(PROBE[q]);
                    struct expect e;
                    enum verdict v = V_OK;
                    for (int j = 0; j < TIMES[t]; ++j)
                        v = hist_step(via, rep, j + 1, TIMES[t] + 1, &e);
                    const bool failed_before = v != V_OK;
                    v = hist_step(via, probe, TIMES[t] + 1, TIMES[t] + 1, &e);
                    c20_end(true, hist_outcome(failed_before, v));
                }
}

/* ------------------------------------------------------------------------
 * family (i): integers at the edge of 64 bits in histories, and errno on entry.
 * "Parsing the textual rendering of any tree ... yields a structurally
 * identical tree": the result is a function of the input -- not of what the
 * process parsed before, and not of the value errno happens to hold when the
 * reader is entered (a caller's earlier strtol / pow / read may have left any
 * value there; errno is never an input of a library function).
 * ---------------------------------------------------------------------- */
static const struct item INT_ITEMS[] = {
    /* literals beyond 64 bits: the grammar leaves them open, they are earlier calls
     * (first, so that the self-contained form [beyond | 2^64-1] is met before any
     * other case can be influenced by what such a literal leaves behind) */
    { "\"18446744073709551616\"", I_LIT, "18446744073709551616", 0 },
    { "\"99999999999999999999\"", I_LIT, "99999999999999999999", 0 },
    { "\"#x10000000000000000\"", I_LIT, "#x10000000000000000", 0 },
    { "\"#xFFFFFFFFFFFFFFFFF\"", I_LIT, "#xFFFFFFFFFFFFFFFFF", 0 },
    { "\"(a 340282366920938463463374607431768211456)\"", I_LIT, "(a 340282366920938463463374607431768211456)", 0 },
    /* the largest values a node can hold, in every rendering */
    { "\"18446744073709551615\"", I_LIT, "18446744073709551615", 0 },
    { "\"#xffffffffffffffff\"", I_LIT, "#xffffffffffffffff", 0 },
    { "\"#xFFFFFFFFFFFFFFFF\"", I_LIT, "#xFFFFFFFFFFFFFFFF", 0 },
    { "\"(1 18446744073709551615 a)\"", I_LIT, "(1 18446744073709551615 a)", 0 },
    { "\"18446744073709551614\"", I_LIT, "18446744073709551614", 0 },
    { "\"9223372036854775808\"", I_LIT, "9223372036854775808", 0 },
    { "\"0\"", I_LIT, "0", 0 },
    { "\"(a (b) 12)\"", I_LIT, "(a (b) 12)", 0 },
    /* refused integers */
    { "\"18446744073709551615a\"", I_LIT, "18446744073709551615a", 0 },
    { "\"#xg\"", I_LIT, "#xg", 0 },
};
#define NINT_ITEMS ((int)(sizeof INT_ITEMS / sizeof INT_ITEMS[0]))

static int64_t inthist_cases, errno_cases;

static void
family_int_histories(void)
{
    int ix[3];
    for (int k = 2; k <= 3; ++k)
        for (ix[0] = 0; ix[0] < NINT_ITEMS; ++ix[0])
            for (ix[1] = 0; ix[1] < NINT_ITEMS; ++ix[1])
                for (ix[2] = 0; ix[2] < (k == 3 ? NINT_ITEMS : 1); ++ix[2])
                    for (int via = 0; via < 2; ++via) {
                        inthist_cases++;
                        char desc[300];
                        size_t l = 0;
                        for (int j = 0; j < k; ++j)
                            l += (size_t)snprintf(desc + l, sizeof desc - l, "%s%s", j ? " | " : "", INT_ITEMS[ix[j]].name);
                        if (!c20_case("hist-int calls=%d [%s] via=%s", k, desc, via ? "stringn" : "string"))
                            continue;
                        bool failed_before = false;
                        enum verdict last = V_OK;
                        struct expect e;
                        for (int j = 0; j < k; ++j) {
                            if (j > 0 && last != V_OK)
                                failed_before = true;
                            last = hist_step(via, &INT_ITEMS[ix[j]], j + 1, k, &e);
                        }
                        c20_end(true, last == V_OK && failed_before ? "hist-int-ok-after-open-or-refused" : hist_outcome(failed_before, last));
                    }
}

static const struct {
    int value;
    const char *name;
} ERRNOS[] = { { 0, "0" }, { ERANGE, "ERANGE" }, { EINVAL, "EINVAL" }, { EDOM, "EDOM" }, { ENOMEM, "ENOMEM" }, { EINTR, "EINTR" } };
#define NERRNOS ((int)(sizeof ERRNOS / sizeof ERRNOS[0]))

static void
errno_case(const char *what, const char *in, size_t n, int ek)
{
    for (int via = 0; via < 2; ++via) {
        errno_cases++;
        if (!c20_case("errno=%s on entry, %s via=%s", ERRNOS[ek].name, what, via ? "stringn" : "string"))
            continue;
        nR = 0;
        struct expect e;
        ref_read(in, n, &e);
        errno_preset = ERRNOS[ek].value;
        run_one(via, in, n, &e, "");
        errno_preset = -1;
        c20_end(true, e.verdict == V_OK ? "errno-preset-ok" : e.verdict == V_ERR ? "errno-preset-refused" : "errno-preset-open");
    }
}

static void
family_errno(void)
{
    /* every input of the history vocabularies ... */
    for (int ek = 0; ek < NERRNOS; ++ek) {
        for (int k = 0; k < HIST_QUICK; ++k) {
            char what[120];
            snprintf(what, sizeof what, "input %s", ITEMS[k].name);
            put_item(&gen, &ITEMS[k]);
            errno_case(what, gen.p, gen.n, ek);
        }
        for (int k = 0; k < NINT_ITEMS; ++k) {
            char what[120];
            snprintf(what, sizeof what, "input %s", INT_ITEMS[k].name);
            put_item(&gen, &INT_ITEMS[k]);
            errno_case(what, gen.p, gen.n, ek);
        }
    }
    /* ... and the integer boundary values of the atom family, bare and in a list */
    uint64_t vals[3 * 64 + 2 * 19 + 2];
    int nv = 0;
    vals[nv++] = 0;
    for (unsigned k = 1; k <= 64; ++k) {
        const uint64_t pw = k < 64 ? (uint64_t)1 << k : 0;
        vals[nv++] = pw - 1u;
        if (k < 64) {
            vals[nv++] = pw;
            vals[nv++] = pw + 1u;
        }
    }
    uint64_t ten = 1;
    for (unsigned k = 1; k <= 19; ++k) {
        ten *= 10u;
        vals[nv++] = ten - 1u;
        vals[nv++] = ten;
    }
    static struct tbuf in;
    for (int ek = 1; ek < NERRNOS; ++ek)
        for (int i = 0; i < nv; ++i)
            for (int radix = 0; radix < NRADIX; ++radix)
                for (int ctx = 0; ctx < 2; ++ctx) {
                    char what[120];
                    snprintf(what, sizeof what, "integer %" PRIu64 " %s %s", vals[i], RADIX_NAME[radix], ctx ? "in (1 @ a)" : "bare");
                    tb_reset(&in);
                    if (ctx)
                        tb_puts(&in, "(1 ");
                    put_integer(&in, vals[i], radix);
                    if (ctx)
                        tb_puts(&in, " a)");
                    errno_case(what, in.p, in.n, ek);
                }
}

/* ------------------------------------------------------------------------
 * anchors: the reference reader against the literal values of
 * /repo/test/t-sx-parser.c
 * ---------------------------------------------------------------------- */
static int
nth(int list, int k)
{
    int c = (list >= 0 && R[list].kind == R_LIST) ? R[list].first : -1;
    while (c >= 0 && k-- > 0)
        c = R[c].next;
    return c;
}

static bool is_int(int x, uint64_t v) { return x >= 0 && R[x].kind == R_INT && R[x].val == v; }
static bool is_sym(int x, const char *s) { return x >= 0 && R[x].kind == R_SYM && R[x].symlen == strlen(s) && !memcmp(R[x].sym, s, R[x].symlen); }
static int
len_of(int list)
{
    int k = 0;
    for (int c = (list >= 0 && R[list].kind == R_LIST) ? R[list].first : -1; c >= 0; c = R[c].next)
        k++;
    return (list >= 0 && R[list].kind == R_LIST) ? k : -1;
}

static struct expect
anchor_read(const char *s)
{
    struct expect e;
    nR = 0;
    ref_read(s, strlen(s), &e);
    return e;
}

static void
anchors(void)
{
    struct expect e;
    e = anchor_read("foobar");
    MC_ANCHOR(e.verdict == V_OK && is_sym(e.root, "foobar") && e.pos == 6, "t_sx_parse_token_symbol");
    e = anchor_read("12345");
    MC_ANCHOR(e.verdict == V_OK && is_int(e.root, 12345u) && e.pos == 5, "t_sx_parse_token_int_dec");
    e = anchor_read("#x400");
    MC_ANCHOR(e.verdict == V_OK && is_int(e.root, 0x400u) && e.pos == 5, "t_sx_parse_token_int_hex");
    e = anchor_read("1234a");
    MC_ANCHOR(e.verdict == V_ERR, "t_sx_parse_token_error_dec");
    e = anchor_read("#x12g");
    MC_ANCHOR(e.verdict == V_ERR, "t_sx_parse_token_error_hex");
    e = anchor_read("foo{}");
    MC_ANCHOR(e.verdict == V_ERR, "t_sx_parse_token_error_symbol");
    e = anchor_read("()");
    MC_ANCHOR(e.verdict == V_OK && len_of(e.root) == 0 && e.pos == 2, "t_sx_parse_empty_list");
    e = anchor_read("(1)");
    MC_ANCHOR(e.verdict == V_OK && len_of(e.root) == 1 && is_int(nth(e.root, 0), 1), "t_sx_parse_empty_one_elem_list");
    e = anchor_read("(1 2)");
    MC_ANCHOR(e.verdict == V_OK && len_of(e.root) == 2 && is_int(nth(e.root, 0), 1) && is_int(nth(e.root, 1), 2),
              "t_sx_parse_empty_two_elem_list");
    e = anchor_read("(");
    MC_ANCHOR(e.verdict == V_ERR && e.err == E_EOF, "t_sx_parse_incomplete_list (");
    e = anchor_read("(1 2");
    MC_ANCHOR(e.verdict == V_ERR && e.err == E_EOF, "t_sx_parse_incomplete_list (1 2");
    e = anchor_read("(foobar (stuff) (1 2)");
    MC_ANCHOR(e.verdict == V_ERR && e.err == E_EOF, "t_sx_parse_incomplete_list (foobar (stuff) (1 2)");
    e = anchor_read("((1 (a b c) 3) (q w e) r t (5) 6)");
    MC_ANCHOR(e.verdict == V_OK && e.pos == 33 && len_of(e.root) == 6, "t_cxr: six elements, 33 octets");
    MC_ANCHOR(is_int(nth(nth(e.root, 0), 0), 1), "t_cxr caar");
    MC_ANCHOR(is_sym(nth(nth(nth(e.root, 0), 1), 1), "b"), "t_cxr cadadar");
    MC_ANCHOR(is_sym(nth(nth(e.root, 1), 0), "q"), "t_cxr caadr");
    MC_ANCHOR(is_sym(nth(e.root, 3), "t"), "t_cxr cadddr");
    MC_ANCHOR(is_int(nth(nth(e.root, 4), 0), 5) && len_of(nth(e.root, 4)) == 1, "t_cxr caaddddr");
    MC_ANCHOR(is_int(nth(e.root, 5), 6), "t_cxr cadddddr");
    /* t_make_things (how many blocks the library takes for it, and whether it
     * recycles nodes, is its own business: nothing about the ledger here) */
    struct sx_node *t = sx_cons(sx_make_integer(1234567890), sx_cons(sx_make_symbol("foobarbaz"), sx_make_empty_list()));
    MC_ANCHOR(sx_is_the_integer(sx_car(t), 1234567890) && sx_is_the_symbol(sx_car(sx_cdr(t)), "foobarbaz"), "t_make_things");
    sx_destroy(&t);
    /* The ledger is wired to the allocator names of this link (-Wl,--wrap=...
     * applies to every object of the link, sx.c included): a block taken and
     * released by the harness itself through each wrapped name is seen coming
     * and going.  volatile: the pairs must not be optimised away; the
     * counters are read through volatile lvalues because the compiler knows
     * that malloc() and friends do not touch the program's objects. */
    ledger_start();
    void *volatile w = malloc(1);
    MC_ANCHOR(w != NULL && ledger_live_now() == 1, "malloc() of this link reaches the ledger");
    w = realloc(w, 40);
    MC_ANCHOR(w != NULL && ledger_live_now() == 1, "realloc() of this link reaches the ledger");
    w = reallocarray(w, 10, 8);
    MC_ANCHOR(w != NULL && ledger_live_now() == 1, "reallocarray() of this link reaches the ledger");
    free(w);
    MC_ANCHOR(ledger_live_now() == 0, "free() of this link reaches the ledger");
    w = calloc(2, 8);
    MC_ANCHOR(w != NULL && ledger_live_now() == 1, "calloc() of this link reaches the ledger");
    free(w);
    w = aligned_alloc(16, 32);
    MC_ANCHOR(w != NULL && ledger_live_now() == 1, "aligned_alloc() of this link reaches the ledger");
    free(w);
    void *pm = NULL;
    MC_ANCHOR(posix_memalign(&pm, 16, 32) == 0 && pm != NULL && ledger_live_now() == 1, "posix_memalign() of this link reaches the ledger");
    w = pm;
    free(w);
    w = strdup("wired");
    MC_ANCHOR(w != NULL && ledger_live_now() == 1, "strdup() of this link reaches the ledger");
    free(w);
    w = strndup("wired", 3);
    MC_ANCHOR(w != NULL && ledger_live_now() == 1, "strndup() of this link reaches the ledger");
    free(w);
    ledger.on = false;
    MC_ANCHOR(ledger_live_now() == 0 && ledger_made_now() == 8, "the ledger counts what the wiring test allocated");
}

/* The enumeration runs on a thread with a 1 GiB stack: the reader recurses once
 * per list element and per nesting level, and how much stack a process has is
 * a property of the environment, not of the reader.  (The default 8 MiB end at
 * about 30000 elements under ASan.) */
static int g_argc;
static char **g_argv;

static void *
enumerate(void *unused)
{
    (void)unused;
    mc_init(g_argc, g_argv);
    meta_setup();
    anchors();
    const int maxlen = mc_thorough() ? 8 : 7;
    const int maxnodes = mc_thorough() ? 7 : 6;
    const int maxdepth = mc_thorough() ? 5 : 4;
    const int wlen = mc_thorough() ? 8 : 6;
    const int olen = mc_thorough() ? 7 : 5;
    in_history_family = true;
    family_histories(); /* first: see "Failures of a sweep are confirmed" above */
    family_int_histories();
    family_errno();
    history_family_done();
    family_strings(maxlen);
    family_trees(maxnodes, maxdepth);
    if (trees_emitted < 1000 && mc.only < 0)
        mc_broken("vacuous: only %lld trees generated", (long long)trees_emitted);
    family_octets();
    family_strings_over("wstr", WALPHA, (int)sizeof WALPHA, wlen);
    family_strings_over("ostr", OALPHA, (int)sizeof OALPHA, olen);
    family_lengths();
    family_depths();
    family_atoms();
    char bound[2200];
    snprintf(bound, sizeof bound,
             "all strings of length 0..%d over \"() \\n a1#xF-\"; all %lld trees of <= %d nodes, depth <= %d over symbols {a,foo,x-1}, integers {0,7,255,2^32,0xabcdef} in %d renderings; "
             "every octet 0..255 in %d one-octet templates, %s octet pairs in %d two-octet templates; all strings of length 0..%d over \"()a1 VT FF CR HT\" and 0..%d over \"()a1 SP NUL 0x80 0xff +\"; "
             "%lld list-length cases (every length 0..%u, 2^p-1..2^p+1 up to 65537; ints/mixed elements, 3 wrappers, 4 endings, 2 separators); "
             "%lld nesting-depth cases (every depth 1..%u, 2^p-1..2^p+1 up to %u; 2 shapes, 3 atoms, 5 endings); "
             "%lld atom cases (symbols of every length 1..%u and 2^p-1..2^p+1 up to 65537 octets in 9 surroundings; integers 0, 2^k-1, 2^k, 2^k+1 (k=1..64), 10^k-1, 10^k (k=1..19) in decimal and both hex cases in 8 surroundings and followed by a letter); "
             "%lld history cases (all ordered pairs and triples of %d inputs%s; 9 refused/deep inputs repeated 1..129 times before 7 probes); "
             "%lld integer-edge history cases (all ordered pairs and triples of %d inputs: 2^64-1 in three renderings, 2^64-2, 2^63, literals beyond 64 bits, refused integers); "
             "%lld errno-on-entry cases (errno in {0,ERANGE,EINVAL,EDOM,ENOMEM,EINTR} x the %d history inputs, errno != 0 x the integer boundary values x 3 radixes x bare / in a list); "
             "each input NUL-terminated and as exact-size block",
             maxlen, (long long)trees_emitted, maxnodes, maxdepth, (int)NSTYLE,
             NOCT_TEMPLATE, mc_thorough() ? "all 65536" : "23x23", NOCT2_TEMPLATE, wlen, olen,
             (long long)len_cases, LEN_DENSE,
             (long long)depth_cases, DEPTH_DENSE, mc_thorough() ? 4097u : 1025u,
             (long long)atom_cases, mc_thorough() ? 300u : 80u,
             (long long)hist_cases, mc_thorough() ? NITEMS : HIST_QUICK, mc_thorough() ? ", all quadruples of 14" : "",
             (long long)inthist_cases, NINT_ITEMS, (long long)errno_cases, HIST_QUICK + NINT_ITEMS);
    mc_finish(true, bound);
    return NULL;
}

int
main(int argc, char **argv)
{
    g_argc = argc;
    g_argv = argv;
    pthread_attr_t at;
    pthread_t th;
    if (pthread_attr_init(&at) != 0 || pthread_attr_setstacksize(&at, (size_t)1 << 30) != 0
        || pthread_create(&th, &at, enumerate, NULL) != 0) {
        fprintf(stderr, "HARNESS-BROKEN: cannot start the enumeration thread\n");
        return 2;
    }
    pthread_join(th, NULL);
    return 0;
}
