/*
 * C20 -- s-expression reader (src/sx.c): bounded-exhaustive enumeration of
 * closed executions against an independent recursive-descent reference reader.
 *
 * Two input families (DESIGN.md section 3, C20):
 *   (a) every tree of <= N nodes / depth <= D over a small vocabulary, rendered
 *       in seven whitespace / radix styles; the expected tree is the generator
 *       tree, the expected position is the renderer's "just past the
 *       expression" offset (both cross-checked against the reference reader:
 *       disagreement there is a harness defect, exit 2);
 *   (b) every string of length 0..L over the ten characters
 *       ( ) space newline a 1 # x F -  ; expected verdict/tree/position from
 *       the reference reader.
 * Every input is presented twice, each presentation being one case:
 *   via=string   NUL-terminated (block of exactly n+1 octets) -> sx_parse_string
 *   via=stringn  heap block of exactly n octets, no terminator -> sx_parse_stringn
 * so that ASan's red zones observe any read outside the given octets.
 *
 * The allocator seam of sx.c is owned at link time (-Wl,--wrap=malloc,...): the
 * ledger below records every allocation made between entering the parser and
 * leaving sx_destroy and must be empty after an error return and after
 * sx_destroy of a returned tree.
 *
 * Reference grammar (file comment of src/sx.c; delimiters and token rules as
 * pinned by test/t-sx-parser.c: "(1)", "1234a", "#x12g", "foo{}"):
 *   expr   := ws* ( atom | '(' (ws* expr)* ws* ')' )
 *   atom   := maximal run of non-delimiter octets; delimiters are ( ) and
 *             whitespace and the end of the input
 *   atom is  decimal integer  : one or more decimal digits
 *            hex integer      : "#x" followed by one or more hex digits, either case
 *            symbol           : a letter followed by letters, digits and '-'
 *            anything else    : not an expression (error)
 *   A token that starts with '-' is not decided by the documentation (scheme
 *   has "-" and "-a" as symbols, sx.c documents only "foobar" style symbols):
 *   the verdict is OPEN, either answer is accepted, only the unconditional
 *   clauses (memory safety, termination, ledger, no tree with an error status)
 *   are demanded.
 *   The same holds for a token that starts with a letter and goes on with a
 *   character that neither the statement nor the documentation nor a unit test
 *   classifies (here: '#', as in a# or x#F -- scheme reads these as symbols):
 *   OPEN.  '{' and '}' inside such a token are pinned as "not a symbol" by
 *   t_sx_parse_token_error_symbol ("foo{}") and stay an error.
 *
 * "No allocation leaked": a block that is still live when the parser returns
 * an error (or after sx_destroy of the returned tree) is a leak only if the
 * same happens again when the same input is presented a second time; a block
 * the parser allocates once and keeps for later calls (reachable scratch
 * memory) is not.  So a non-empty ledger triggers a second presentation with a
 * fresh ledger and the clause is reported only if that one is non-empty too.
 */
#include "mc.h"

#include <ctype.h>
#include <inttypes.h>

#include <ufw/sx.h>

/* ------------------------------------------------------------------------
 * allocation ledger (link-time wrappers)
 * ---------------------------------------------------------------------- */
#define LEDGER_MAX 4096
static struct {
    bool on;
    int live;
    int made;
    bool overflow;
    void *p[LEDGER_MAX];
} ledger;

void *__real_malloc(size_t);
void *__real_calloc(size_t, size_t);
void *__real_realloc(void *, size_t);
void __real_free(void *);
char *__real_strdup(const char *);
char *__real_strndup(const char *, size_t);

static void
ledger_add(void *p)
{
    if (!ledger.on || p == NULL)
        return;
    ledger.made++;
    if (ledger.live >= LEDGER_MAX) {
        ledger.overflow = true;
        return;
    }
    ledger.p[ledger.live++] = p;
}

static void
ledger_del(void *p)
{
    if (!ledger.on || p == NULL)
        return;
    for (int i = ledger.live - 1; i >= 0; --i)
        if (ledger.p[i] == p) {
            ledger.p[i] = ledger.p[--ledger.live];
            return;
        }
    /* a block the parser did not allocate: not the ledger's business (an
     * invalid or double free is reported by ASan) */
}

void *
__wrap_malloc(size_t n)
{
    void *p = __real_malloc(n);
    ledger_add(p);
    return p;
}

void *
__wrap_calloc(size_t a, size_t b)
{
    void *p = __real_calloc(a, b);
    ledger_add(p);
    return p;
}

void *
__wrap_realloc(void *old, size_t n)
{
    void *p = __real_realloc(old, n);
    if (p != NULL || n == 0)
        ledger_del(old);
    ledger_add(p);
    return p;
}

void
__wrap_free(void *p)
{
    ledger_del(p);
    __real_free(p);
}

char *
__wrap_strdup(const char *s)
{
    char *p = __real_strdup(s);
    ledger_add(p);
    return p;
}

char *
__wrap_strndup(const char *s, size_t n)
{
    char *p = __real_strndup(s, n);
    ledger_add(p);
    return p;
}

static void
ledger_start(void)
{
    ledger.live = 0;
    ledger.made = 0;
    ledger.overflow = false;
    ledger.on = true;
}

/* ------------------------------------------------------------------------
 * reference trees and the reference reader
 * ---------------------------------------------------------------------- */
enum rkind { R_SYM, R_INT, R_LIST };
struct rnode {
    enum rkind kind;
    uint64_t val;
    char sym[24];
    int first, last, next; /* children of a list: first-child / next-sibling */
};
#define RMAX 512
static struct rnode R[RMAX];
static int nR;

static int
r_new(enum rkind k)
{
    if (nR == RMAX)
        mc_broken("reference arena exhausted");
    struct rnode *x = &R[nR];
    memset(x, 0, sizeof *x);
    x->kind = k;
    x->first = x->last = x->next = -1;
    return nR++;
}

static void
r_append(int list, int child)
{
    if (R[list].first < 0)
        R[list].first = child;
    else
        R[R[list].last].next = child;
    R[list].last = child;
}

static bool
r_equal(int a, int b)
{
    if (R[a].kind != R[b].kind)
        return false;
    switch (R[a].kind) {
    case R_SYM: return strcmp(R[a].sym, R[b].sym) == 0;
    case R_INT: return R[a].val == R[b].val;
    case R_LIST: {
        int x = R[a].first, y = R[b].first;
        while (x >= 0 && y >= 0) {
            if (!r_equal(x, y))
                return false;
            x = R[x].next;
            y = R[y].next;
        }
        return x < 0 && y < 0;
    }
    }
    return false;
}

enum verdict { V_OK, V_ERR, V_OPEN };
enum errclass { E_NONE, E_BLANK, E_EOF, E_EOF_WS, E_CLOSE, E_TOKEN, E_TOKEN_IN_LIST };

struct reader {
    const char *s;
    size_t n, i;
    enum verdict verdict;
    enum errclass err;
    /* what the accepted part contained (classification only) */
    bool saw_list, saw_nested_list, saw_nested_empty, saw_hex, saw_hex_upper;
};

static bool ref_ws(char c) { return c == ' ' || c == '\n' || c == '\t'; }
static bool ref_delim(char c) { return c == '(' || c == ')' || ref_ws(c); }
static bool ref_letter(char c) { return (c >= 'a' && c <= 'z') || (c >= 'A' && c <= 'Z'); }
static bool ref_dec(char c) { return c >= '0' && c <= '9'; }

static int
ref_hexval(char c)
{
    if (c >= '0' && c <= '9')
        return c - '0';
    if (c >= 'a' && c <= 'f')
        return 10 + (c - 'a');
    if (c >= 'A' && c <= 'F')
        return 10 + (c - 'A');
    return -1;
}

static void
rd_skip(struct reader *r)
{
    while (r->i < r->n && ref_ws(r->s[r->i]))
        r->i++;
}

static int
rd_fail(struct reader *r, enum verdict v, enum errclass e)
{
    r->verdict = v;
    r->err = e;
    return -1;
}

/* reads one expression starting at r->i; -1 with r->verdict/err set otherwise */
static int
rd_expr(struct reader *r, int depth)
{
    rd_skip(r);
    if (r->i == r->n)
        return rd_fail(r, V_ERR, E_BLANK); /* only reachable at depth 0 */
    const char c = r->s[r->i];
    if (c == ')')
        return rd_fail(r, V_ERR, E_CLOSE); /* only reachable at depth 0 */
    if (c == '(') {
        const int list = r_new(R_LIST);
        r->i++;
        r->saw_list = true;
        if (depth > 0)
            r->saw_nested_list = true;
        for (;;) {
            const size_t before = r->i;
            rd_skip(r);
            if (r->i == r->n)
                return rd_fail(r, V_ERR, r->i > before ? E_EOF_WS : E_EOF);
            if (r->s[r->i] == ')') {
                r->i++;
                if (depth > 0 && R[list].first < 0)
                    r->saw_nested_empty = true;
                return list;
            }
            const int child = rd_expr(r, depth + 1);
            if (child < 0)
                return -1;
            r_append(list, child);
        }
    }
    /* an atom: the maximal run of non-delimiters */
    size_t j = r->i;
    while (j < r->n && !ref_delim(r->s[j]))
        j++;
    const char *t = r->s + r->i;
    const size_t len = j - r->i;
    const enum errclass tokerr = depth ? E_TOKEN_IN_LIST : E_TOKEN;
    if (t[0] == '-')
        return rd_fail(r, V_OPEN, E_NONE);
    if (ref_dec(t[0])) {
        uint64_t v = 0;
        for (size_t k = 0; k < len; ++k) {
            if (!ref_dec(t[k]))
                return rd_fail(r, V_ERR, tokerr);
            if (v > (UINT64_MAX - 9u) / 10u)
                mc_broken("generated a decimal literal beyond 64 bits");
            v = v * 10u + (uint64_t)(t[k] - '0');
        }
        const int x = r_new(R_INT);
        R[x].val = v;
        r->i = j;
        return x;
    }
    if (t[0] == '#') {
        if (len < 3 || t[1] != 'x')
            return rd_fail(r, V_ERR, tokerr);
        uint64_t v = 0;
        bool upper = false;
        for (size_t k = 2; k < len; ++k) {
            const int d = ref_hexval(t[k]);
            if (d < 0)
                return rd_fail(r, V_ERR, tokerr);
            if (k - 2 >= 16)
                mc_broken("generated a hex literal beyond 64 bits");
            if (t[k] >= 'A' && t[k] <= 'F')
                upper = true;
            v = (v << 4) | (uint64_t)d;
        }
        const int x = r_new(R_INT);
        R[x].val = v;
        r->saw_hex = true;
        if (upper)
            r->saw_hex_upper = true;
        r->i = j;
        return x;
    }
    if (ref_letter(t[0])) {
        bool unclassified = false;
        for (size_t k = 1; k < len; ++k) {
            if (ref_letter(t[k]) || ref_dec(t[k]) || t[k] == '-')
                continue;
            if (t[k] == '{' || t[k] == '}')
                return rd_fail(r, V_ERR, tokerr); /* pinned by the unit test */
            unclassified = true;
        }
        if (unclassified)
            return rd_fail(r, V_OPEN, E_NONE);
        const int x = r_new(R_SYM);
        if (len >= sizeof R[x].sym)
            mc_broken("generated a symbol longer than the reference arena allows");
        memcpy(R[x].sym, t, len);
        R[x].sym[len] = 0;
        r->i = j;
        return x;
    }
    return rd_fail(r, V_ERR, tokerr);
}

struct expect {
    enum verdict verdict;
    enum errclass err;
    int root;   /* V_OK: reference tree */
    size_t pos; /* V_OK: just past the expression */
    bool nontrivial;
    const char *outcome;
};

static void
ref_read(const char *s, size_t n, struct expect *e)
{
    struct reader r;
    memset(&r, 0, sizeof r);
    r.s = s;
    r.n = n;
    r.verdict = V_OK;
    const int root = rd_expr(&r, 0);
    memset(e, 0, sizeof *e);
    e->verdict = (root >= 0) ? V_OK : r.verdict;
    e->err = r.err;
    e->root = root;
    e->pos = r.i;
    e->nontrivial = r.saw_list || r.saw_hex;
    if (root >= 0) {
        if (r.saw_hex_upper) e->outcome = "ok-hex-upper";
        else if (r.saw_nested_empty) e->outcome = "ok-nested-empty";
        else if (r.i < n) e->outcome = "ok-trailing-input";
        else if (r.saw_hex) e->outcome = "ok-hex-lower";
        else if (r.saw_nested_list) e->outcome = "ok-list-nested";
        else if (R[root].kind == R_LIST && R[root].first >= 0) e->outcome = "ok-list-flat";
        else if (R[root].kind == R_LIST) e->outcome = "ok-empty-list";
        else if (R[root].kind == R_SYM) e->outcome = "ok-symbol";
        else e->outcome = "ok-decimal";
    } else if (r.verdict == V_OPEN) {
        /* the token that left it open starts at r.i */
        e->outcome = (r.i < n && s[r.i] == '-') ? "open-dash-token" : "open-symbol-character";
    } else {
        switch (r.err) {
        case E_BLANK: e->outcome = "err-blank"; break;
        case E_EOF: e->outcome = "err-eof-in-list"; break;
        case E_EOF_WS: e->outcome = "err-eof-after-ws"; break;
        case E_CLOSE: e->outcome = "err-stray-close"; break;
        case E_TOKEN: e->outcome = "err-bad-token"; break;
        case E_TOKEN_IN_LIST: e->outcome = "err-bad-token-in-list"; break;
        default: mc_broken("reference reader: error without a class");
        }
    }
}

/* ------------------------------------------------------------------------
 * comparison of the implementation's tree with a reference tree
 * ---------------------------------------------------------------------- */
static const char *
cmp_tree(int ri, const struct sx_node *x, char *why, size_t wn)
{
    if (x == NULL) {
        snprintf(why, wn, "null node where the reference has a %s",
                 R[ri].kind == R_LIST ? "list" : R[ri].kind == R_SYM ? "symbol" : "integer");
        return "C20/tree-identical";
    }
    switch (R[ri].kind) {
    case R_SYM:
        if (x->type != SXT_SYMBOL || x->data.symbol == NULL) {
            snprintf(why, wn, "node type %d where the reference has the symbol %s", (int)x->type, R[ri].sym);
            return "C20/tree-identical";
        }
        if (strcmp(x->data.symbol, R[ri].sym) != 0) {
            snprintf(why, wn, "symbol \"%.40s\" where the reference has %s", x->data.symbol, R[ri].sym);
            return "C20/tree-identical";
        }
        return NULL;
    case R_INT:
        if (x->type != SXT_INTEGER) {
            snprintf(why, wn, "node type %d where the reference has the integer %" PRIu64, (int)x->type, R[ri].val);
            return "C20/tree-identical";
        }
        if (x->data.u64 != R[ri].val) {
            snprintf(why, wn, "integer %" PRIu64 " where the reference has %" PRIu64, x->data.u64, R[ri].val);
            return "C20/integer-value";
        }
        return NULL;
    case R_LIST: {
        int k = 0;
        for (int c = R[ri].first; c >= 0; c = R[c].next, ++k) {
            if (x == NULL || x->type != SXT_PAIR || x->data.pair == NULL) {
                snprintf(why, wn, "list ends (node type %d) before element %d of the reference list",
                         x ? (int)x->type : -1, k);
                return "C20/tree-identical";
            }
            const char *cl = cmp_tree(c, x->data.pair->car, why, wn);
            if (cl != NULL)
                return cl;
            x = x->data.pair->cdr;
        }
        if (x == NULL || x->type != SXT_EMPTY_LIST) {
            snprintf(why, wn, "node type %d where the reference list of %d elements ends",
                     x ? (int)x->type : -1, k);
            return "C20/tree-identical";
        }
        return NULL;
    }
    }
    return NULL;
}

/* bounded printer of the implementation's tree, for replay logs only */
static size_t
show_tree(const struct sx_node *x, char *buf, size_t n, size_t l, int budget)
{
#define PUT(...) do { if (l + 40 < n) l += (size_t)snprintf(buf + l, n - l, __VA_ARGS__); } while (0)
    if (budget <= 0) {
        PUT("...");
        return l;
    }
    if (x == NULL) {
        PUT("<null>");
        return l;
    }
    switch (x->type) {
    case SXT_SYMBOL: PUT("%.20s", x->data.symbol ? x->data.symbol : "<nullsym>"); break;
    case SXT_INTEGER: PUT("%" PRIu64, x->data.u64); break;
    case SXT_EMPTY_LIST: PUT("()"); break;
    case SXT_PAIR:
        PUT("(");
        for (int k = 0; x != NULL && x->type == SXT_PAIR && x->data.pair != NULL && k < 16; ++k) {
            if (k)
                PUT(" ");
            l = show_tree(x->data.pair->car, buf, n, l, budget - 1);
            x = x->data.pair->cdr;
        }
        if (x == NULL)
            PUT(" . <null>");
        else if (x->type != SXT_EMPTY_LIST)
            PUT(" . <type %d>", (int)x->type);
        PUT(")");
        break;
    default: PUT("<type %d>", (int)x->type); break;
    }
#undef PUT
    return l;
}

/* ------------------------------------------------------------------------
 * one input, two presentations
 * ---------------------------------------------------------------------- */
static void
escape(const char *s, size_t n, char *out, size_t on)
{
    size_t l = 0;
    for (size_t i = 0; i < n && l + 3 < on; ++i) {
        if (s[i] == '\n') { out[l++] = '\\'; out[l++] = 'n'; }
        else if (s[i] == '\t') { out[l++] = '\\'; out[l++] = 't'; }
        else out[l++] = s[i];
    }
    out[l] = 0;
}

static bool
would_run_at(int k)
{
    const int64_t i = mc.idx + k;
    if (mc.only >= 0)
        return i == mc.only;
    return !(i < mc.skip || (i % mc.nshards) != mc.shard);
}

static bool is_success(enum sx_status s) { return s == SXS_SUCCESS; }
static bool is_error(enum sx_status s) { return s != SXS_SUCCESS && s != SXS_FOUND_LIST; }

/* The ledger was not empty after the first presentation: present the same
 * octets once more with a fresh ledger and return how many blocks allocated by
 * *that* call are still live once a returned tree (if any) has been destroyed.
 * 0 = what stayed behind the first time was a one-time allocation the parser
 * keeps, not a leak.  Same sequence in a sweep and in a replay of the case. */
static int
live_on_second_presentation(int via, const char *buf, size_t n)
{
    ledger_start();
    struct sx_parse_result again = via ? sx_parse_stringn(buf, n) : sx_parse_string(buf);
    if (again.node != NULL)
        sx_destroy(&again.node);
    ledger.on = false;
    mc_trans(1);
    mc_log("second presentation with a fresh ledger: status=%d allocations made=%d live=%d",
           (int)again.status, ledger.made, ledger.live);
    return ledger.live;
}

/* Runs the two cases of one input.  `what` is the family part of the
 * descriptor, e is what the statement demands for these octets. */
static void
present(const char *what, const char *in, size_t n, const struct expect *e)
{
    char esc[300];
    escape(in, n, esc, sizeof esc);
    for (int via = 0; via < 2; ++via) {
        if (!mc_case("%s len=%zu in=\"%s\" via=%s", what, n, esc, via ? "stringn" : "string"))
            continue;
        mc_trans(1);
        char *buf;
        if (via == 0) {
            buf = mc_exact(n + 1);
            memcpy(buf, in, n);
            buf[n] = 0;
        } else {
            buf = mc_exact_copy(in, n);
        }
        ledger_start();
        struct sx_parse_result res = via ? sx_parse_stringn(buf, n) : sx_parse_string(buf);
        ledger.on = false;
        const int live = ledger.live;
        if (mc.verbose) {
            char tb[400];
            tb[0] = 0;
            show_tree(res.node, tb, sizeof tb, 0, 12);
            mc_log("reference: %s%s", e->verdict == V_OK ? "complete expression, " : e->verdict == V_ERR ? "no complete expression, " : "grammar leaves it open, ", e->outcome);
            if (e->verdict == V_OK)
                mc_log("reference position=%zu", e->pos);
            mc_log("sx: status=%d position=%zu tree=%s allocations made=%d live=%d",
                   (int)res.status, res.position, tb, ledger.made, live);
        }
        if (ledger.overflow)
            mc_fail("C20/terminates", "more than %d live allocations for %zu input octets", LEDGER_MAX, n);

        /* unconditional: an error status comes without a tree and without live allocations */
        if (!is_success(res.status) && res.node != NULL)
            mc_fail("C20/no-tree-on-error", "status %d with a non-null tree", (int)res.status);
        if (!is_success(res.status) && res.node == NULL && live != 0) {
            const int again = live_on_second_presentation(via, buf, n);
            if (again != 0)
                mc_fail("C20/no-leak-on-error", "status %d, no tree, %d allocation(s) still live (%d on a second presentation)",
                        (int)res.status, live, again);
        }
        if (is_success(res.status) && res.node == NULL) {
            if (e->verdict == V_OK)
                mc_fail("C20/complete-is-parsed", "success status without a tree");
            else
                mc_fail("C20/success-without-tree", "status success (0) with a null tree: neither a tree nor an error status");
            if (live != 0) {
                const int again = live_on_second_presentation(via, buf, n);
                if (again != 0)
                    mc_fail("C20/no-leak-on-error", "no tree, %d allocation(s) still live (%d on a second presentation)", live, again);
            }
        }

        switch (e->verdict) {
        case V_OK:
            if (!is_success(res.status)) {
                mc_fail("C20/complete-is-parsed", "status %d for an input that begins with a complete expression (ends at %zu)",
                        (int)res.status, e->pos);
            } else if (res.node != NULL) {
                char why[200];
                const char *cl = cmp_tree(e->root, res.node, why, sizeof why);
                if (cl != NULL)
                    mc_fail(cl, "%s", why);
                else if (res.position != e->pos)
                    mc_fail("C20/position", "position %zu, the expression ends just before %zu", res.position, e->pos);
            }
            break;
        case V_ERR:
            if (!is_error(res.status) && res.node != NULL)
                mc_fail("C20/incomplete-is-error", "status %d with a tree for an input without a complete expression (%s)",
                        (int)res.status, e->outcome);
            break;
        case V_OPEN:
            break;
        }

        if (res.node != NULL) {
            ledger.on = true;
            sx_destroy(&res.node);
            ledger.on = false;
            const int dlive = ledger.live;
            mc_log("after sx_destroy: live=%d", dlive);
            if (dlive != 0) {
                const int again = live_on_second_presentation(via, buf, n);
                if (again != 0)
                    mc_fail("C20/destroy-frees-all", "%d allocation(s) of the parser still live after sx_destroy of the returned tree (%d on a second presentation)",
                            dlive, again);
            }
        }
        free(buf);
        mc_end(e->nontrivial, e->outcome);
    }
}

/* ------------------------------------------------------------------------
 * family (b): all strings over the ten characters
 * ---------------------------------------------------------------------- */
static const char SALPHA[10] = { '(', ')', ' ', '\n', 'a', '1', '#', 'x', 'F', '-' };

static void
family_strings(int maxlen)
{
    for (int len = 0; len <= maxlen; ++len) {
        int d[16] = { 0 };
        for (;;) {
            if (would_run_at(0) || would_run_at(1)) {
                char in[17];
                for (int k = 0; k < len; ++k)
                    in[k] = SALPHA[d[k]];
                in[len] = 0;
                nR = 0;
                struct expect e;
                ref_read(in, (size_t)len, &e);
                present("str", in, (size_t)len, &e);
            } else {
                mc_skip_case();
                mc_skip_case();
            }
            int k = len - 1;
            while (k >= 0 && ++d[k] == 10)
                d[k--] = 0;
            if (k < 0)
                break;
        }
    }
}

/* ------------------------------------------------------------------------
 * family (a): all trees, rendered
 * ---------------------------------------------------------------------- */
#define T_OPEN (-1)
#define T_CLOSE (-2)
static const char *const VSYM[3] = { "a", "foo", "x-1" };
static const uint64_t VINT[5] = { 0u, 7u, 255u, 4294967296u, 0xabcdefu };
#define NLEAF 8 /* 0..2 symbols, 3..7 integers */

enum style { ST_CANON, ST_TIGHT, ST_WIDE, ST_TABNL, ST_LEADTRAIL, ST_HEXLOWER, ST_HEXUPPER, NSTYLE };
static const char *const STYLE_NAME[NSTYLE] = { "canonical", "tight", "wide", "tab-newline",
                                                "lead-trail", "hex-lower", "hex-upper" };

static int tok[32];
static int ntok;
static int64_t trees_emitted;

static int
build_ref(int *p)
{
    const int t = tok[(*p)++];
    if (t == T_OPEN) {
        const int list = r_new(R_LIST);
        while (tok[*p] != T_CLOSE)
            r_append(list, build_ref(p));
        (*p)++;
        return list;
    }
    if (t < 3) {
        const int x = r_new(R_SYM);
        snprintf(R[x].sym, sizeof R[x].sym, "%s", VSYM[t]);
        return x;
    }
    const int x = r_new(R_INT);
    R[x].val = VINT[t - 3];
    return x;
}

/* renders tok[] in a style; returns the length, *end = just past the expression */
static size_t
render(enum style st, char *out, size_t on, size_t *end)
{
    size_t l = 0;
#define EMIT(...) do { l += (size_t)snprintf(out + l, on - l, __VA_ARGS__); if (l + 32 > on) mc_broken("render buffer"); } while (0)
    const char *between = " ", *after_open = "", *before_close = "";
    if (st == ST_WIDE) { between = "  "; after_open = " "; before_close = "  "; }
    if (st == ST_TABNL) { between = "\n\t"; after_open = "\t"; before_close = "\n"; }
    if (st == ST_LEADTRAIL)
        EMIT(" \n ");
    for (int k = 0; k < ntok; ++k) {
        const int t = tok[k];
        if (k > 0) {
            const int prev = tok[k - 1];
            if (prev == T_OPEN && t == T_CLOSE)
                EMIT("%s", st == ST_WIDE ? " " : st == ST_TABNL ? "\n" : "");
            else if (prev == T_OPEN)
                EMIT("%s", after_open);
            else if (t == T_CLOSE)
                EMIT("%s", before_close);
            else if (st == ST_TIGHT && (prev == T_CLOSE || t == T_OPEN))
                EMIT("%s", "");
            else
                EMIT("%s", between);
        }
        if (t == T_OPEN)
            EMIT("(");
        else if (t == T_CLOSE)
            EMIT(")");
        else if (t < 3)
            EMIT("%s", VSYM[t]);
        else if (st == ST_HEXLOWER)
            EMIT("#x%" PRIx64, VINT[t - 3]);
        else if (st == ST_HEXUPPER)
            EMIT("#x%" PRIX64, VINT[t - 3]);
        else
            EMIT("%" PRIu64, VINT[t - 3]);
    }
    *end = l;
    if (st == ST_LEADTRAIL)
        EMIT("  ) x");
#undef EMIT
    return l;
}

static void
emit_tree(int nodes, int depth)
{
    trees_emitted++;
    bool has_int = false;
    for (int k = 0; k < ntok; ++k)
        if (tok[k] >= 3)
            has_int = true;
    for (int st = 0; st < NSTYLE; ++st) {
        if ((st == ST_HEXLOWER || st == ST_HEXUPPER) && !has_int)
            continue; /* identical to the canonical rendering */
        if (!(would_run_at(0) || would_run_at(1))) {
            mc_skip_case();
            mc_skip_case();
            continue;
        }
        char in[256];
        size_t end;
        const size_t n = render((enum style)st, in, sizeof in, &end);
        nR = 0;
        int p = 0;
        const int gen = build_ref(&p);
        if (p != ntok)
            mc_broken("tree generator produced an ill-formed token sequence");
        /* the generator tree is the oracle; the reference reader has to agree
         * with it on every rendering, or the harness is wrong */
        struct expect e;
        ref_read(in, n, &e);
        if (e.verdict != V_OK || !r_equal(e.root, gen) || e.pos != end) {
            char esc[300];
            escape(in, n, esc, sizeof esc);
            mc_broken("reference reader disagrees with the tree generator on \"%s\" (verdict %d, pos %zu, expected %zu)",
                      esc, (int)e.verdict, e.pos, end);
        }
        e.root = gen;
        char what[80];
        snprintf(what, sizeof what, "tree nodes=%d depth=%d style=%s", nodes, depth, STYLE_NAME[st]);
        present(what, in, n, &e);
    }
}

/* all token sequences that are exactly one expression with `target` nodes
 * (atoms + lists) and nesting depth <= maxdepth */
static void
gen_trees(int depth, int nodes, int target, int maxdepth, int deepest)
{
    if (ntok > 0 && depth == 0) {
        if (nodes == target)
            emit_tree(nodes, deepest);
        return;
    }
    if (nodes < target) {
        for (int leaf = 0; leaf < NLEAF; ++leaf) {
            tok[ntok++] = leaf;
            gen_trees(depth, nodes + 1, target, maxdepth, deepest);
            ntok--;
        }
        if (depth < maxdepth) {
            tok[ntok++] = T_OPEN;
            gen_trees(depth + 1, nodes + 1, target, maxdepth, depth + 1 > deepest ? depth + 1 : deepest);
            ntok--;
        }
    }
    if (depth > 0) {
        tok[ntok++] = T_CLOSE;
        gen_trees(depth - 1, nodes, target, maxdepth, deepest);
        ntok--;
    }
}

static void
family_trees(int maxnodes, int maxdepth)
{
    for (int target = 1; target <= maxnodes; ++target) {
        ntok = 0;
        gen_trees(0, 0, target, maxdepth, 0);
    }
}

/* ------------------------------------------------------------------------
 * anchors: the reference reader against the literal values of
 * /repo/test/t-sx-parser.c
 * ---------------------------------------------------------------------- */
static int
nth(int list, int k)
{
    int c = (list >= 0 && R[list].kind == R_LIST) ? R[list].first : -1;
    while (c >= 0 && k-- > 0)
        c = R[c].next;
    return c;
}

static bool is_int(int x, uint64_t v) { return x >= 0 && R[x].kind == R_INT && R[x].val == v; }
static bool is_sym(int x, const char *s) { return x >= 0 && R[x].kind == R_SYM && !strcmp(R[x].sym, s); }
static int
len_of(int list)
{
    int k = 0;
    for (int c = (list >= 0 && R[list].kind == R_LIST) ? R[list].first : -1; c >= 0; c = R[c].next)
        k++;
    return (list >= 0 && R[list].kind == R_LIST) ? k : -1;
}

static struct expect
anchor_read(const char *s)
{
    struct expect e;
    nR = 0;
    ref_read(s, strlen(s), &e);
    return e;
}

static void
anchors(void)
{
    struct expect e;
    e = anchor_read("foobar");
    MC_ANCHOR(e.verdict == V_OK && is_sym(e.root, "foobar") && e.pos == 6, "t_sx_parse_token_symbol");
    e = anchor_read("12345");
    MC_ANCHOR(e.verdict == V_OK && is_int(e.root, 12345u) && e.pos == 5, "t_sx_parse_token_int_dec");
    e = anchor_read("#x400");
    MC_ANCHOR(e.verdict == V_OK && is_int(e.root, 0x400u) && e.pos == 5, "t_sx_parse_token_int_hex");
    e = anchor_read("1234a");
    MC_ANCHOR(e.verdict == V_ERR, "t_sx_parse_token_error_dec");
    e = anchor_read("#x12g");
    MC_ANCHOR(e.verdict == V_ERR, "t_sx_parse_token_error_hex");
    e = anchor_read("foo{}");
    MC_ANCHOR(e.verdict == V_ERR, "t_sx_parse_token_error_symbol");
    e = anchor_read("()");
    MC_ANCHOR(e.verdict == V_OK && len_of(e.root) == 0 && e.pos == 2, "t_sx_parse_empty_list");
    e = anchor_read("(1)");
    MC_ANCHOR(e.verdict == V_OK && len_of(e.root) == 1 && is_int(nth(e.root, 0), 1), "t_sx_parse_empty_one_elem_list");
    e = anchor_read("(1 2)");
    MC_ANCHOR(e.verdict == V_OK && len_of(e.root) == 2 && is_int(nth(e.root, 0), 1) && is_int(nth(e.root, 1), 2),
              "t_sx_parse_empty_two_elem_list");
    e = anchor_read("(");
    MC_ANCHOR(e.verdict == V_ERR && e.err == E_EOF, "t_sx_parse_incomplete_list (");
    e = anchor_read("(1 2");
    MC_ANCHOR(e.verdict == V_ERR && e.err == E_EOF, "t_sx_parse_incomplete_list (1 2");
    e = anchor_read("(foobar (stuff) (1 2)");
    MC_ANCHOR(e.verdict == V_ERR && e.err == E_EOF, "t_sx_parse_incomplete_list (foobar (stuff) (1 2)");
    e = anchor_read("((1 (a b c) 3) (q w e) r t (5) 6)");
    MC_ANCHOR(e.verdict == V_OK && e.pos == 33 && len_of(e.root) == 6, "t_cxr: six elements, 33 octets");
    MC_ANCHOR(is_int(nth(nth(e.root, 0), 0), 1), "t_cxr caar");
    MC_ANCHOR(is_sym(nth(nth(nth(e.root, 0), 1), 1), "b"), "t_cxr cadadar");
    MC_ANCHOR(is_sym(nth(nth(e.root, 1), 0), "q"), "t_cxr caadr");
    MC_ANCHOR(is_sym(nth(e.root, 3), "t"), "t_cxr cadddr");
    MC_ANCHOR(is_int(nth(nth(e.root, 4), 0), 5) && len_of(nth(e.root, 4)) == 1, "t_cxr caaddddr");
    MC_ANCHOR(is_int(nth(e.root, 5), 6), "t_cxr cadddddr");
    /* the ledger is wired to the allocator sx.c really uses: the five nodes of
     * t_make_things are seen when made, and a free issued by sx.c is seen too
     * (whether sx_destroy frees *everything* is a clause of the cases, not an
     * anchor) */
    ledger_start();
    struct sx_node *t = sx_cons(sx_make_integer(1234567890), sx_cons(sx_make_symbol("foobarbaz"), sx_make_empty_list()));
    ledger.on = false;
    MC_ANCHOR(ledger.live >= 5, "t_make_things: at least one allocation per node seen by the ledger");
    MC_ANCHOR(sx_is_the_integer(sx_car(t), 1234567890) && sx_is_the_symbol(sx_car(sx_cdr(t)), "foobarbaz"), "t_make_things");
    sx_destroy(&t);
    ledger_start();
    struct sx_node *one = sx_make_integer(1);
    const int before = ledger.live;
    sx_destroy(&one);
    ledger.on = false;
    MC_ANCHOR(before >= 1 && ledger.live < before, "a free() issued by sx.c reaches the ledger");
}

int
main(int argc, char **argv)
{
    mc_init(argc, argv);
    anchors();
    const int maxlen = mc_thorough() ? 8 : 7;
    const int maxnodes = mc_thorough() ? 7 : 6;
    const int maxdepth = mc_thorough() ? 5 : 4;
    family_strings(maxlen);
    family_trees(maxnodes, maxdepth);
    if (trees_emitted < 1000 && mc.only < 0)
        mc_broken("vacuous: only %lld trees generated", (long long)trees_emitted);
    char bound[300];
    snprintf(bound, sizeof bound,
             "all strings of length 0..%d over \"() \\n a1#xF-\"; all %lld trees of <= %d nodes, depth <= %d over symbols {a,foo,x-1}, integers {0,7,255,2^32,0xabcdef} in %d renderings; each input NUL-terminated and as exact-size block",
             maxlen, (long long)trees_emitted, maxnodes, maxdepth, (int)NSTYLE);
    mc_finish(true, bound);
    return 0;
}
