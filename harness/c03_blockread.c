/*
 * C03 -- block reads and range iteration follow the flat address-space model.
 *
 * Space: table family (regfam.h; F2 contributes read-only / write-only areas
 * in every position) x every (address, length) window over addresses 0..9,
 * storage holding distinct non-zero words.  Iteration: every non-wrapping
 * (address, length) x every callback script "result of the k-th call in
 * {0,+1,-1}, 0 before it".
 */
#include "mc.h"
#include "regfam.h"

static struct tab tb;
static bool tb_built;

static const char *
acc(RegisterAccessCode c)
{
    static const char *n[] = { "SUCCESS", "FAILURE", "UNINITIALISED", "NOENTRY", "RANGE", "INVALID", "READONLY", "IO_ERROR" };
    return (unsigned)c < 8 ? n[c] : "?";
}

/* ---- iteration callback ---- */
static struct {
    int stop_at;  /* index of the call that returns `result`; -1: never */
    int result;
    int calls;
    RegisterHandle seen[16];
    void *arg_seen;
} it;

static int
iter_cb(RegisterTable *t, RegisterHandle h, void *arg)
{
    (void)t;
    if (it.calls < 16)
        it.seen[it.calls] = h;
    it.arg_seen = arg;
    const int k = it.calls++;
    return (k == it.stop_at) ? it.result : 0;
}

static void
run_read(uint32_t addr, uint32_t n)
{
    const struct tspec *s = &tb.s;
    long first_unmapped = -1;
    for (uint32_t a = addr; a < addr + n; ++a)
        if (flat_area_of(s, a) < 0) {
            first_unmapped = a;
            break;
        }
    RegisterAtom *buf = mc_exact(n * sizeof(RegisterAtom));
    memset(buf, 0xee, n * sizeof(RegisterAtom));
    RegisterAtom before[RT_MAXW], after[RT_MAXW];
    const size_t total = flat_snapshot(&tb, before);
    tb.cb_oob = 0;
    RegisterAccess a = register_block_read(&tb.t, addr, n, buf);
    mc_trans(1);
    flat_snapshot(&tb, after);
    mc_log("block_read(%u,%u) -> %s@%u (reference: first unmapped %ld)", addr, n, acc(a.code), a.address, first_unmapped);
    mc_log_hex("buffer", buf, n * 2);
    const char *outcome;
    if (memcmp(before, after, total * sizeof(RegisterAtom)) != 0)
        mc_fail("C03/read-is-pure", "storage changed by a block read");
    if (tb.cb_oob)
        mc_fail("C03/area-bounds", "an area callback was asked for words outside its area");
    if (first_unmapped < 0) {
        outcome = n == 0 ? "read-empty" : "read-ok";
        if (a.code != REG_ACCESS_SUCCESS)
            mc_fail("C03/read-succeeds-when-mapped", "fully mapped read refused with %s@%u", acc(a.code), a.address);
        else
            for (uint32_t i = 0; i < n; ++i) {
                const int ai = flat_area_of(s, addr + i);
                const RegisterAtom want = flat_readable(&s->a[ai]) ? flat_word(&tb, addr + i) : 0;
                if (!flat_readable(&s->a[ai]))
                    outcome = "read-ok-with-unreadable";
                if (buf[i] != want) {
                    mc_fail(flat_readable(&s->a[ai]) ? "C03/read-returns-stored-word" : "C03/unreadable-reads-zero",
                            "word %u (address %u): got %04x, expected %04x", i, addr + i, buf[i], want);
                    break;
                }
            }
    } else {
        outcome = "read-unmapped";
        if (a.code == REG_ACCESS_SUCCESS) /* the statement fixes the reported address, not the code */
            mc_fail("C03/read-refuses-unmapped", "read touching unmapped address %ld returned %s", first_unmapped, acc(a.code));
        else if ((long)a.address != first_unmapped)
            mc_fail("C03/first-unmapped-address", "reported %u, first unmapped address is %ld", a.address, first_unmapped);
    }
    free(buf);
    mc_end(true, outcome);
}

static void
run_iter(uint32_t addr, uint32_t len)
{
    const struct tspec *s = &tb.s;
    int expect[RT_MAXR], ne = 0;
    for (int r = 0; r < s->nr; ++r) {
        const uint32_t ra = s->r[r].addr, rw = ref_words(s->r[r].type);
        if (len > 0 && ra < addr + len && addr < ra + rw)
            expect[ne++] = r;
    }
    bool ok = true;
    /* scripts: never stop; stop at call k with -1 / +1 */
    for (int sc = 0; sc < 1 + 2 * ne && ok; ++sc) {
        {
            const int k = sc == 0 ? -1 : (sc - 1) / 2;
            const int res = sc == 0 ? 0 : ((sc - 1) & 1) ? 1 : -1;
            it.stop_at = k;
            it.result = res;
            it.calls = 0;
            int token;
            RegisterAccess a = register_foreach_in(&tb.t, addr, len, iter_cb, &token);
            mc_trans(1);
            const int want_calls = (k < 0) ? ne : k + 1;
            mc_log("foreach_in(%u,%u) stop_at=%d result=%d -> %s@%u calls=%d (expected %d)", addr, len, k, res, acc(a.code), a.address, it.calls, want_calls);
            if (it.calls != want_calls) {
                mc_fail("C03/iter-visits-overlapping", "stop_at=%d result=%d: %d callback calls, %d registers overlap the range before the stop",
                        k, res, it.calls, want_calls);
                ok = false;
                break;
            }
            for (int i = 0; i < it.calls && i < 16; ++i)
                if ((int)it.seen[i] != expect[i]) {
                    mc_fail("C03/iter-visits-overlapping", "call %d got handle %u, expected %d", i, it.seen[i], expect[i]);
                    ok = false;
                    break;
                }
            if (!ok)
                break;
            if (it.calls > 0 && it.arg_seen != &token) {
                mc_fail("C03/iter-passes-argument", "callback did not receive the caller's argument");
                ok = false;
            } else if (k >= 0 && res < 0) {
                if (a.code != REG_ACCESS_FAILURE || a.address != s->r[expect[k]].addr) {
                    mc_fail("C03/iter-negative-is-failure", "negative result at register %d: %s@%u, expected FAILURE@%u",
                            expect[k], acc(a.code), a.address, s->r[expect[k]].addr);
                    ok = false;
                }
            } else if (a.code != REG_ACCESS_SUCCESS) {
                mc_fail("C03/iter-success", "iteration returned %s", acc(a.code));
                ok = false;
            }
        }
    }
    mc_end(true, !ok ? "failed" : ne == 0 ? "iter-none" : ne == s->nr ? "iter-all" : "iter-some");
}

static void
run_table(const struct tspec *s, int ti)
{
    tb_built = false;
    for (int mode = 0; mode < 2; ++mode)
        for (uint32_t rel = 0; rel <= FAM_MAXADDR; ++rel)
            for (uint32_t n = 0; rel + n <= FAM_MAXADDR + 1; ++n) {
                const uint32_t addr = fam_origin(s) + rel;
                if (!mc_case("table#%d %s %s=(%u,%u)", ti, tspec_str(s), mode ? "foreach_in" : "block_read", addr, n))
                    continue;
                if (!tb_built) {
                    tab_build(&tb, s);
                    RegisterInit ri = register_init(&tb.t);
                    tb_built = true;
                    if (ri.code != REG_INIT_SUCCESS) {
                        mc_fail("C03/setup-init", "register_init of a well-formed table failed with code %d at %u", ri.code, ri.pos.entry);
                        mc_end(false, "init-failed");
                        continue;
                    }
                    /* distinct non-zero words everywhere (out of band; reads do
                     * not validate content) */
                    for (int i = 0; i < s->na; ++i)
                        for (uint32_t w = 0; w < s->a[i].size; ++w)
                            tb.store[i][w] = (RegisterAtom)(0x1100 * (i + 1) + 0x11 * (w + 1));
                }
                if (!(tb.t.flags & REG_TF_INITIALISED)) {
                    mc_fail("C03/setup-init", "table not initialised");
                    mc_end(false, "init-failed");
                    continue;
                }
                if (mode)
                    run_iter(addr, n);
                else
                    run_read(addr, n);
            }
    if (tb_built)
        tab_free(&tb);
}

int
main(int argc, char **argv)
{
    mc_init(argc, argv);
    const int ntab = fam_enumerate(run_table, mc_thorough());
    char bound[200];
    snprintf(bound, sizeof bound, "%d tables x every (address,length) over addresses 0..%d x {block read, iteration with every stop script}", ntab, FAM_MAXADDR);
    mc_finish(true, bound);
    return 0;
}
