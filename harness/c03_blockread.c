/*
 * C03 -- block reads and range iteration follow the flat address-space model.
 *
 * Space (every part enumerated completely, in this order):
 *
 *  P1  table family (regfam.h; F2 contributes read-only / write-only areas in
 *      every position) x every (address, length) window over addresses 0..9,
 *      storage holding distinct non-zero words.  Iteration: every non-wrapping
 *      (address, length) x every callback script "result of the k-th call in
 *      {0,+1,-1}, 0 before it".  Block reads additionally under every
 *      environment fault "the k-th read callback of this call answers
 *      IO_ERROR", k over the chunks (readable callback-backed areas) the window
 *      touches.
 *  P2  the same three operations on tables of three and four directly adjacent
 *      areas, each area in {callback-backed, memory-backed, callback-backed and
 *      not readable}: reads crossing up to four areas with the read fault at
 *      every chunk position.
 *  P3  re-initialisation histories: the same area array initialised two
 *      (thorough: also three) times with different register lists from a small
 *      family (per area: no register / first word / every word / last word /
 *      32-bit register at the base), every ordered pair (triple; the middle
 *      element may also be a list that register_init refuses), then every
 *      window x {block read, iteration} against the flat model of the final
 *      list.
 *  P4  large tables: register lists straddling 2^16 entries (one fully
 *      populated area of 65535..65544 words; a fully populated area of
 *      65533..65537 words followed by a second area whose first register has a
 *      handle around 2^16; 65540 two-word registers), windows starting and
 *      ending around every area edge and around handle/address 2^16, lengths
 *      straddling 2^16.  Callback-backed areas compute their words and need no
 *      storage.  A table that register_init refuses (a library with a narrower
 *      handle type) is not judged: cap, run not exhaustive.
 *  P5  a reduced family at address shifts 0x7ffffffc / 0xfffffff5.
 *  P6  zero-sized areas (they map no address): layouts A..D with one or two
 *      areas of no words inserted at every list position and every base that
 *      keeps the list ascending and non-overlapping (on a boundary between two
 *      adjacent areas, at both ends of and inside a gap, in front of the first
 *      area, at and above the end of the last), memory- and callback-backed,
 *      four register lists, every window x the three operations.
 *  P7  top of the address space: the family of P1 (regfam.h, part T) and the
 *      tables of P2 moved up so that the LAST WORD of the table is 0xffffffff
 *      -- the last area, registers at its end and windows reaching it end at
 *      2^32, which 32-bit arithmetic cannot hold.  Every (address, length)
 *      from one below the first area up to 0xffffffff with address + length
 *      <= 2^32 (nothing wraps) x the three operations of P1.  The reference
 *      forms every exclusive end in 64 bits.
 *  P8  access flags x accessor presence: three adjacent areas, the area at
 *      each position x {memory-, callback-backed} x READABLE flag x read
 *      function present/absent x WRITEABLE flag x write function
 *      present/absent, at address 1 and ending at 0xffffffff, every window x
 *      the three operations.  An area is readable when it is flagged readable
 *      and names a read function; every other area reads zero.
 *  P9  calls of another kind between register_init and the reads: 125 tables
 *      of three adjacent areas x 19 intervening calls (sanitise clean / after a
 *      register was poked out of range, repairable or not; refused / accepted
 *      typed set and block write; block write into a hole; typed reads and bit
 *      operations; a stopped iteration) x every window x {block read,
 *      iteration} against the flat model of the storage as it then is.
 */
#include "mc.h"
#include "regfam.h"
#include <limits.h>

static struct tab tb;
static bool tb_built;

static const char *
acc(RegisterAccessCode c)
{
    static const char *n[] = { "SUCCESS", "FAILURE", "UNINITIALISED", "NOENTRY", "RANGE", "INVALID", "READONLY", "IO_ERROR" };
    return (unsigned)c < 8 ? n[c] : "?";
}

/* a table of the space that register_init refuses is not judged (the statement
 * is about initialised tables); the run is then not exhaustive.  One cap per
 * process and kind. */
static void
note_init_refused(int large)
{
    static char seen[2];
    if (seen[large])
        return;
    seen[large] = 1;
    mc_cap("register_init refused %s of the space (not judged: C03 speaks about initialised tables)", large ? "a large table" : "a small-scope table");
}

/* ---- iteration callback ---- */
static struct {
    int stop_at;  /* index of the call that returns `result`; -1: never */
    int result;
    int calls;
    RegisterHandle seen[16];
    void *arg_seen;
} it;

static int
iter_cb(RegisterTable *t, RegisterHandle h, void *arg)
{
    (void)t;
    if (it.calls < 16)
        it.seen[it.calls] = h;
    it.arg_seen = arg;
    const int k = it.calls++;
    return (k == it.stop_at) ? it.result : 0;
}

/* areas of the table under construction that get no read function at all (P2:
 * areas that are not flagged readable; P8: whatever the flags say) */
static bool g_noread[RT_MAXA];
static bool g_has_empty; /* the table under construction belongs to the zero-sized-area family */

/* "Areas that are not readable": an area is readable when it is flagged
 * readable AND names a read function.  Without a read function there is nothing
 * the library could call to learn a word, whatever the flags say, so its words
 * read zero (and the read still succeeds: all addresses are mapped). */
static bool
c03_readable(const struct tspec *s, int ai)
{
    return flat_readable(&s->a[ai]) && !g_noread[ai];
}

/* flagged readable, no read function, but a mem pointer: a library may just as
 * well take the words from mem (register_mcopy and register_init treat
 * mem != NULL as memory-backed) -- zero and the stored word are both accepted */
static bool
c03_either(const struct tspec *s, int ai)
{
    return flat_readable(&s->a[ai]) && g_noread[ai] && !s->a[ai].cb;
}

#ifdef C03_HYBRID_AREAS
/* OFF by default (see checks.d/C03.py, assumptions): areas with a custom read
 * function AND a non-NULL mem pointer that holds other words than the read
 * function delivers.  With -DC03_HYBRID_AREAS the model takes the read
 * function's answer as "the word currently stored there". */
static bool g_hybrid[RT_MAXA];
static RegisterAtom *g_shadow[RT_MAXA];
#endif

/* number of read callbacks a chunk-wise reader needs for the window: readable
 * callback-backed areas the window touches (reference side; the numbering of
 * fault positions must not depend on the implementation) */
static int
ref_cb_chunks(const struct tspec *s, uint32_t addr, uint32_t n)
{
    int k = 0;
    /* exclusive ends in 64 bits: an area or a window may end at 2^32 */
    for (int i = 0; i < s->na; ++i)
        if (s->a[i].cb && c03_readable(s, i) && n > 0 && s->a[i].base < (uint64_t)addr + n && addr < (uint64_t)s->a[i].base + s->a[i].size)
            k++;
    return k;
}

static long
ref_first_unmapped(const struct tspec *s, uint32_t addr, uint32_t n)
{
    for (uint64_t a = addr; a < (uint64_t)addr + n; ++a) /* the window may end at 2^32 */
        if (flat_area_of(s, (uint32_t)a) < 0)
            return (long)a;
    return -1;
}

/* block read of the window; fault_k >= 0: the fault_k-th read callback issued
 * by this call answers IO_ERROR (environment deviation).  Returns the outcome
 * class. */
static const char *
do_read(uint32_t addr, uint32_t n, int fault_k)
{
    const struct tspec *s = &tb.s;
    const long first_unmapped = ref_first_unmapped(s, addr, n);
    RegisterAtom *buf = mc_exact(n * sizeof(RegisterAtom));
    memset(buf, 0xee, n * sizeof(RegisterAtom));
    RegisterAtom before[RT_MAXW], after[RT_MAXW];
    const size_t total = flat_snapshot(&tb, before);
    tb.cb_oob = 0;
    tb.cb_reads = 0;
    tb.cb_fail_read_at = fault_k;
    RegisterAccess a = register_block_read(&tb.t, addr, n, buf);
    mc_trans(1);
    const bool fired = fault_k >= 0 && tb.cb_reads > fault_k;
    tb.cb_fail_read_at = -1;
    flat_snapshot(&tb, after);
    mc_log("block_read(%u,%u) fault at read callback %d (%s) -> %s@%u (reference: first unmapped %ld)", addr, n, fault_k,
           fired ? "fired" : "not reached", acc(a.code), a.address, first_unmapped);
    mc_log_hex("buffer", buf, n * 2);
    const char *outcome;
    if (memcmp(before, after, total * sizeof(RegisterAtom)) != 0)
        mc_fail("C03/read-is-pure", "storage changed by a block read");
    if (tb.cb_oob)
        mc_fail("C03/area-bounds", "an area callback was asked for words outside its area");
    if (first_unmapped < 0) {
        outcome = n == 0 ? "read-empty" : "read-ok";
        /* a failing read callback is outside "succeeds exactly when mapped":
         * nothing is demanded of the result then, except that whatever is
         * reported as a success holds the stored words (and, through the
         * exact-size buffer, that nothing outside the n words is written) */
        if (a.code != REG_ACCESS_SUCCESS && !fired)
            mc_fail("C03/read-succeeds-when-mapped", "fully mapped read refused with %s@%u", acc(a.code), a.address);
        else if (a.code == REG_ACCESS_SUCCESS)
            for (uint32_t i = 0; i < n; ++i) {
                const int ai = flat_area_of(s, addr + i);
                const bool rd = c03_readable(s, ai);
                const RegisterAtom want = rd ? flat_word(&tb, addr + i) : 0;
                if (!rd)
                    outcome = "read-ok-with-unreadable";
                if (buf[i] != want && !(c03_either(s, ai) && buf[i] == flat_word(&tb, addr + i))) {
                    mc_fail(rd ? "C03/read-returns-stored-word" : "C03/unreadable-reads-zero",
                            "word %u (address %u): got %04x, expected %04x", i, addr + i, buf[i], want);
                    break;
                }
            }
    } else {
        outcome = "read-unmapped";
        if (a.code == REG_ACCESS_SUCCESS) /* the statement fixes the reported address, not the code */
            mc_fail("C03/read-refuses-unmapped", "read touching unmapped address %ld returned %s", first_unmapped, acc(a.code));
        else if ((long)a.address != first_unmapped && !fired)
            mc_fail("C03/first-unmapped-address", "reported %u, first unmapped address is %ld", a.address, first_unmapped);
    }
    free(buf);
    if (fault_k >= 0)
        outcome = !fired ? "fault-not-reached" : fault_k == 0 ? "fault-first-chunk" : "fault-later-chunk";
    return outcome;
}

/* non-zero callback results beyond -1/+1: other magnitudes and the values a
 * narrowing or an exact comparison with +-1 would get wrong */
static const int WIDE_RESULTS[] = { -2, 2, -256, 256, -65536, 65536, INT_MIN, INT_MAX };
#define NWIDE 8

static bool g_wide; /* also run the wide results at the first and the last overlapping register */

static const char *
do_iter(uint32_t addr, uint32_t len)
{
    const struct tspec *s = &tb.s;
    int expect[RT_MAXR], ne = 0;
    for (int r = 0; r < s->nr; ++r) {
        const uint32_t ra = s->r[r].addr, rw = ref_words(s->r[r].type);
        if (len > 0 && ra < (uint64_t)addr + len && addr < (uint64_t)ra + rw) /* either may end at 2^32 */
            expect[ne++] = r;
    }
    bool touches_mapped = false; /* at least one address of the range belongs to an area */
    for (int i = 0; i < s->na; ++i)
        if (len > 0 && s->a[i].size > 0 && s->a[i].base < (uint64_t)addr + len && addr < (uint64_t)s->a[i].base + s->a[i].size)
            touches_mapped = true;
    bool ok = true;
    /* scripts: never stop; stop at call k with -1 / +1; wide: stop at the first
     * / at the last overlapping register with every wide result */
    const int nbase = 1 + 2 * ne;
    const int nwide = !g_wide || ne == 0 ? 0 : ne == 1 ? NWIDE : 2 * NWIDE;
    for (int sc = 0; sc < nbase + nwide && ok; ++sc) {
        {
            const int k = sc == 0 ? -1 : sc < nbase ? (sc - 1) / 2 : (sc - nbase) < NWIDE ? 0 : ne - 1;
            const int res = sc == 0 ? 0 : sc < nbase ? (((sc - 1) & 1) ? 1 : -1) : WIDE_RESULTS[(sc - nbase) % NWIDE];
            it.stop_at = k;
            it.result = res;
            it.calls = 0;
            int token;
            RegisterAccess a = register_foreach_in(&tb.t, addr, len, iter_cb, &token);
            mc_trans(1);
            const int want_calls = (k < 0) ? ne : k + 1;
            mc_log("foreach_in(%u,%u) stop_at=%d result=%d -> %s@%u calls=%d (expected %d)", addr, len, k, res, acc(a.code), a.address, it.calls, want_calls);
            if (it.calls != want_calls) {
                mc_fail("C03/iter-visits-overlapping", "stop_at=%d result=%d: %d callback calls, %d registers overlap the range before the stop",
                        k, res, it.calls, want_calls);
                ok = false;
                break;
            }
            for (int i = 0; i < it.calls && i < 16; ++i)
                if ((int)it.seen[i] != expect[i]) {
                    mc_fail("C03/iter-visits-overlapping", "call %d got handle %u, expected %d", i, it.seen[i], expect[i]);
                    ok = false;
                    break;
                }
            if (!ok)
                break;
            if (it.calls > 0 && it.arg_seen != &token) {
                mc_fail("C03/iter-passes-argument", "callback did not receive the caller's argument");
                ok = false;
            } else if (k >= 0 && res < 0) {
                /* "negative meaning failure at that register's address": the
                 * statement fixes the address, not the enum value -- any code
                 * other than success is a report of failure */
                if (a.code == REG_ACCESS_SUCCESS || a.address != s->r[expect[k]].addr) {
                    mc_fail("C03/iter-negative-is-failure", "negative result at register %d: %s@%u, expected a failure code at address %u",
                            expect[k], acc(a.code), a.address, s->r[expect[k]].addr);
                    ok = false;
                }
            } else if (a.code != REG_ACCESS_SUCCESS) {
                /* the statement does not fix the answer of an iteration that
                 * has nothing to do with the table: no callback called and no
                 * address of the range mapped (an empty range, a range in a
                 * hole or outside every area) -- any code is accepted there */
                if (it.calls > 0 || touches_mapped) {
                    mc_fail("C03/iter-success", "iteration returned %s", acc(a.code));
                    ok = false;
                } else
                    mc_log("foreach_in(%u,%u): no callback called, no address of the range mapped: %s@%u not judged", addr, len, acc(a.code), a.address);
            }
        }
    }
    return !ok ? "failed" : ne == 0 ? "iter-none" : ne == s->nr ? "iter-all" : "iter-some";
}

/* distinct non-zero words everywhere (out of band; reads do not validate
 * content) */
static void
fill_distinct(void)
{
    const struct tspec *s = &tb.s;
    for (int i = 0; i < s->na; ++i)
        for (uint32_t w = 0; w < s->a[i].size; ++w)
            tb.store[i][w] = (RegisterAtom)(0x1100 * (i + 1) + 0x11 * (w + 1));
}

/* outcome classes of the tables whose last word is 0xffffffff (P6);
 * to_last: the window / range ends at 2^32 */
static const char *
top_outcome(const char *o, bool to_last)
{
    if (!strcmp(o, "read-empty")) return "top-read-empty";
    if (!strcmp(o, "read-ok")) return to_last ? "top-read-ok-to-last-word" : "top-read-ok";
    if (!strcmp(o, "read-ok-with-unreadable")) return to_last ? "top-read-ok-with-unreadable-to-last-word" : "top-read-ok-with-unreadable";
    if (!strcmp(o, "read-ok-no-read-function")) return "top-read-ok-no-read-function";
    if (!strcmp(o, "read-ok-flagged-readable-no-read-function")) return "top-read-ok-flagged-readable-no-read-function";
    if (!strcmp(o, "read-unmapped")) return "top-read-unmapped";
    if (!strcmp(o, "fault-not-reached")) return "top-fault-not-reached";
    if (!strcmp(o, "fault-first-chunk")) return "top-fault-first-chunk";
    if (!strcmp(o, "fault-later-chunk")) return "top-fault-later-chunk";
    if (!strcmp(o, "iter-none")) return "top-iter-none";
    if (!strcmp(o, "iter-some")) return to_last ? "top-iter-some-to-last-word" : "top-iter-some";
    if (!strcmp(o, "iter-all")) return to_last ? "top-iter-all-to-last-word" : "top-iter-all";
    return o; /* failed */
}

/* ---- P1 / P2: one table, every window, three operations ------------------------ */
static void
run_table(const struct tspec *s, int ti)
{
    static const char *MODE[] = { "block_read", "foreach_in", "block_read_fault" };
    tb_built = false;
    bool init_ok = false;
    g_wide = true;
    char extra[48] = "";
    for (int i = 0; i < s->na; ++i)
        if (g_noread[i])
            snprintf(extra + strlen(extra), sizeof extra - strlen(extra), "%s%d", extra[0] ? "," : " areas without read function:", i);
#ifdef C03_HYBRID_AREAS
    for (int i = 0; i < s->na; ++i)
        if (g_hybrid[i])
            snprintf(extra + strlen(extra), sizeof extra - strlen(extra), "%s%d", extra[0] ? "," : " areas with read function and shadow mem:", i);
#endif
    const bool top = fam_is_top(s);
    const uint32_t span = fam_span(s); /* ten addresses; top tables: from one below the first area up to 0xffffffff */
    for (int mode = 0; mode < 3; ++mode)
        for (uint32_t rel = 0; rel < span; ++rel)
            for (uint32_t n = 0; rel + n <= span; ++n) {
                const uint32_t addr = fam_origin(s) + rel; /* <= 0xffffffff and addr + n <= 2^32 */
                /* fault positions: one case per chunk of a fully mapped window */
                const int nk = mode < 2 ? 1 : ref_first_unmapped(s, addr, n) >= 0 ? 0 : ref_cb_chunks(s, addr, n);
                for (int k = 0; k < nk; ++k) {
                    if (mode < 2) {
                        if (!mc_case("table#%d %s%s %s=(%s,%u)", ti, tspec_str(s), extra, MODE[mode], addr_str(addr), n))
                            continue;
                    } else if (!mc_case("table#%d %s%s %s=(%s,%u) read callback %d of the call fails", ti, tspec_str(s), extra, MODE[mode], addr_str(addr), n, k))
                        continue;
                    if (!tb_built) {
                        tab_build(&tb, s);
                        for (int i = 0; i < s->na; ++i)
                            if (g_noread[i])
                                tb.areas[i].read = NULL; /* what CUSTOM_AREA_WO builds */
#ifdef C03_HYBRID_AREAS
                        for (int i = 0; i < s->na; ++i)
                            if (g_hybrid[i]) {
                                g_shadow[i] = mc_exact(s->a[i].size * sizeof(RegisterAtom));
                                memset(g_shadow[i], 0x5a, s->a[i].size * sizeof(RegisterAtom));
                                tb.areas[i].mem = g_shadow[i];
                            }
#endif
                        RegisterInit ri = register_init(&tb.t);
                        tb_built = true;
                        init_ok = ri.code == REG_INIT_SUCCESS; /* the public answer; where the library keeps "initialised" is its own business */
                        if (!init_ok)
                            mc_log("register_init -> code %d at %u", ri.code, ri.pos.entry);
                        else
                            fill_distinct();
#ifdef C03_HYBRID_AREAS
                        for (int i = 0; i < s->na; ++i)
                            for (uint32_t w = 0; g_hybrid[i] && w < s->a[i].size; ++w)
                                g_shadow[i][w] = (RegisterAtom)~tb.store[i][w];
#endif
                    }
                    if (!init_ok) {
                        /* the statement speaks about initialised tables only;
                         * which tables register_init accepts is C04's business.
                         * Not judged, recorded as a cap (run not exhaustive). */
                        note_init_refused(0);
                        mc_end(false, "init-refused");
                        continue;
                    }
                    const char *o = mode == 1 ? do_iter(addr, n) : do_read(addr, n, mode == 2 ? k : -1);
                    if (!strcmp(o, "read-ok-with-unreadable")) {
                        bool flagged = false;
                        for (uint32_t w = 0; w < n; ++w) {
                            const int ai = flat_area_of(s, addr + w);
                            if (g_noread[ai]) {
                                o = "read-ok-no-read-function";
                                flagged |= flat_readable(&s->a[ai]);
                            }
                        }
                        if (flagged) /* the window takes words from an area flagged readable that names no read function */
                            o = "read-ok-flagged-readable-no-read-function";
                    }
                    if (g_has_empty && !strcmp(o, "read-ok"))
                        for (int i = 0; i < s->na; ++i)
                            if (s->a[i].size == 0 && addr < s->a[i].base && s->a[i].base - addr < n)
                                o = "read-ok-across-empty-area";
                    if (top)
                        o = top_outcome(o, (uint64_t)addr + n == 0x100000000ull);
                    mc_end(true, o);
                }
            }
    if (tb_built)
        tab_free(&tb);
#ifdef C03_HYBRID_AREAS
    for (int i = 0; i < RT_MAXA; ++i) {
        free(g_shadow[i]);
        g_shadow[i] = NULL;
    }
#endif
}

/* P2: three / four directly adjacent areas, every assignment of area kinds */
static const struct layout XLAYOUTS[] = {
    { 3, { 1, 3, 4 }, { 2, 1, 3 } },
};
static const uint32_t X4_BASE[4] = { 1, 2, 4, 5 }, X4_SIZE[4] = { 1, 2, 1, 2 };
static uint32_t x_shift; /* added to every address of the P2 tables; both layouts end at word 6 */
#define X_TOP_SHIFT 0xfffffff9u /* word 6 becomes 0xffffffff */

static void
xfam_area(struct aspec *a, uint32_t base, uint32_t size, int kind)
{
    /* kind: 0 callback-backed RW, 1 memory-backed RW, 2 callback-backed, not
     * readable (flag), 3 like 2 and without a read function */
    a->base = base;
    a->size = size;
    a->flags = (uint16_t)(kind >= 2 ? REG_AF_WRITEABLE : REG_AF_RW);
    a->cb = kind != 1;
    a->nowrite = false;
}

static int
xfam_enumerate(fam_fn fn, int idx)
{
    struct tspec s;
    for (int na = 3; na <= 4; ++na) {
        int ncombo = 1;
        for (int i = 0; i < na; ++i)
            ncombo *= 4;
        for (int c = 0; c < ncombo; ++c) {
            memset(&s, 0, sizeof s);
            s.na = na;
            int cc = c;
            for (int i = 0; i < na; ++i, cc /= 4) {
                if (na == 3)
                    xfam_area(&s.a[i], XLAYOUTS[0].base[i] + x_shift, XLAYOUTS[0].size[i], cc % 4);
                else
                    xfam_area(&s.a[i], X4_BASE[i] + x_shift, X4_SIZE[i], cc % 4);
                g_noread[i] = (cc % 4) == 3;
                /* one 16-bit register at the base of every area */
                s.r[s.nr].type = REG_TYPE_UINT16;
                s.r[s.nr].addr = s.a[i].base;
                fam_constrain(&s.r[s.nr], K_NONE);
                s.nr++;
            }
            s.be = (c & 1);
            fn(&s, idx++);
            memset(g_noread, 0, sizeof g_noread);
        }
    }
    return idx;
}

/* P8: access flags x accessor presence.  Three directly adjacent areas (the
 * layout of P2); the area at position p takes every combination of
 *   {memory-backed, callback-backed} x READABLE flag {set, clear} x read
 *   function {present, absent} x WRITEABLE flag {set, clear} x write function
 *   {present, absent}
 * (32 combinations; the header's CUSTOM_AREA / MAKE_CUSTOM_AREA with a NULL
 * accessor, CUSTOM_AREA_RO / _WO and their memory twins are among them), its
 * two neighbours are plain RW areas, both callback-backed or both
 * memory-backed.  One 16-bit register at the base of every area. */
static int
afam_enumerate(fam_fn fn, int idx)
{
    struct tspec s;
    for (int p = 0; p < 3; ++p)
        for (int nb = 0; nb < 2; ++nb)
            for (int c = 0; c < 32; ++c) {
                memset(&s, 0, sizeof s);
                s.na = 3;
                for (int i = 0; i < 3; ++i) {
                    xfam_area(&s.a[i], XLAYOUTS[0].base[i] + x_shift, XLAYOUTS[0].size[i], nb);
                    s.r[s.nr].type = REG_TYPE_UINT16;
                    s.r[s.nr].addr = s.a[i].base;
                    fam_constrain(&s.r[s.nr], K_NONE);
                    s.nr++;
                }
                s.a[p].flags = (uint16_t)(((c & 1) ? REG_AF_READABLE : 0) | ((c & 4) ? REG_AF_WRITEABLE : 0));
                g_noread[p] = !(c & 2);
                s.a[p].nowrite = !(c & 8);
                s.a[p].cb = !(c & 16);
                s.be = (c & 1) ^ (p & 1);
                fn(&s, idx++);
                memset(g_noread, 0, sizeof g_noread);
            }
    return idx;
}

#ifdef C03_HYBRID_AREAS
static int
hfam_enumerate(fam_fn fn, int idx)
{
    struct tspec s;
    for (int c = 0; c < 27; ++c) {
        memset(&s, 0, sizeof s);
        s.na = 3;
        int cc = c, nh = 0;
        for (int i = 0; i < 3; ++i, cc /= 3) {
            /* 0 callback-backed, 1 memory-backed, 2 callback-backed with shadow mem */
            xfam_area(&s.a[i], XLAYOUTS[0].base[i], XLAYOUTS[0].size[i], (cc % 3) == 1 ? 1 : 0);
            g_hybrid[i] = (cc % 3) == 2;
            nh += g_hybrid[i];
        }
        if (nh > 0)
            fn(&s, idx++);
        memset(g_hybrid, 0, sizeof g_hybrid);
    }
    return idx;
}
#endif

/* P6: zero-sized areas */

static int
zfam_enumerate(fam_fn fn, int idx)
{
    static const int RW4[4] = { 0, 0, 0, 0 };
    struct tspec s;
    g_has_empty = true;
    for (int li = 0; li < NLAYOUTS; ++li) {
        const struct layout *l = &LAYOUTS[li];
        for (int p = 0; p <= l->na; ++p) {
            /* bases that keep the list ascending and non-overlapping */
            const uint32_t lo = p == 0 ? l->base[0] : l->base[p - 1] + l->size[p - 1];
            const uint32_t hi = p == l->na ? lo + 1 : l->base[p];
            for (uint32_t zb = lo; zb <= hi; ++zb)
                for (int nz = 1; nz <= 2 && l->na + nz <= RT_MAXA; ++nz)
                    for (int backing = 0; backing < 2; ++backing)
                        for (int list = 0; list < 4; ++list) {
                            memset(&s, 0, sizeof s);
                            s.be = (list & 1);
                            fam_shift = 0;
                            struct tspec plain;
                            memset(&plain, 0, sizeof plain);
                            fam_areas(&plain, l, RW4, backing);
                            for (int i = 0; i < p; ++i)
                                s.a[s.na++] = plain.a[i];
                            for (int z = 0; z < nz; ++z) {
                                s.a[s.na] = plain.a[0];
                                s.a[s.na].base = zb;
                                s.a[s.na].size = 0;
                                s.na++;
                            }
                            for (int i = p; i < l->na; ++i)
                                s.a[s.na++] = plain.a[i];
                            /* lists: none | u16 at the first word of every area |
                             * u16 at every word | u32 at the base of every area */
                            for (int i = 0; i < l->na && list > 0; ++i)
                                for (uint32_t w = 0; w < l->size[i]; ++w) {
                                    if (list != 2 && w > 0)
                                        break;
                                    if (s.nr >= RT_MAXR)
                                        mc_broken("zero-sized-area family: register list exceeds RT_MAXR");
                                    s.r[s.nr].type = list == 3 ? REG_TYPE_UINT32 : REG_TYPE_UINT16;
                                    s.r[s.nr].addr = l->base[i] + w;
                                    fam_constrain(&s.r[s.nr], K_NONE);
                                    s.nr++;
                                }
                            fn(&s, idx++);
                        }
        }
    }
    g_has_empty = false;
    return idx;
}

/* P5: a reduced family moved to the top half / the top of the 32-bit address
 * space (regfam's own shifted tables straddle 2^16): every window ends at or
 * below 0xffffffff, nothing wraps */
static int
sfam_enumerate(fam_fn fn, int idx, bool thorough)
{
    static const uint32_t SHIFT[] = { 0x7ffffffcu, 0xfffffff5u };
    static const int RW3[3] = { 0, 0, 0 };
    struct tspec s;
    for (int si = 0; si < 2; ++si)
        for (int li = thorough ? 0 : 1; li < NLAYOUTS; ++li)
            for (int backing = 0; backing < 2; ++backing)
                for (int list = 0; list < 4; ++list) {
                    const struct layout *l = &LAYOUTS[li];
                    memset(&s, 0, sizeof s);
                    s.be = (list & 1);
                    fam_shift = SHIFT[si];
                    fam_areas(&s, l, RW3, backing);
                    /* lists: none | 16/32-bit alternating from the first word (two
                     * phases) | one 64-bit register at the first place it fits */
                    uint32_t a = 1;
                    int k = 0;
                    while (list >= 1 && list <= 2 && a <= 8 && s.nr < RT_MAXR - 1) {
                        RegisterType t = ((k + list) & 1) ? REG_TYPE_UINT32 : REG_TYPE_UINT16;
                        if (!fam_fits(l, t, a))
                            t = REG_TYPE_UINT16;
                        if (!fam_fits(l, t, a)) {
                            a++;
                            continue;
                        }
                        s.r[s.nr].type = t;
                        s.r[s.nr].addr = a + fam_shift;
                        fam_constrain(&s.r[s.nr], K_NONE);
                        s.nr++;
                        a += ref_words(t);
                        k++;
                    }
                    for (a = 1; list == 3 && a <= 8; ++a)
                        if (fam_fits(l, REG_TYPE_UINT64, a)) {
                            s.r[0].type = REG_TYPE_UINT64;
                            s.r[0].addr = a + fam_shift;
                            fam_constrain(&s.r[0], K_NONE);
                            s.nr = 1;
                            break;
                        }
                    fam_shift = 0;
                    fn(&s, idx++);
                }
    return idx;
}

/* ---- P3: re-initialisation histories ---------------------------------------------- */

/* (re)place the register list of the built table: fresh exact-size entry array */
static void
tab_set_entries(struct tab *t, const struct tspec *s)
{
    free(t->entries);
    t->entries = mc_exact((size_t)(s->nr + 1) * sizeof(RegisterEntry));
    memset(t->entries, 0, (size_t)(s->nr + 1) * sizeof(RegisterEntry));
    for (int i = 0; i < s->nr; ++i) {
        RegisterEntry *e = &t->entries[i];
        e->type = s->r[i].type;
        e->default_value = s->r[i].def;
        e->address = s->r[i].addr;
        e->check.type = REGV_TYPE_TRIVIAL; /* the histories use unconstrained registers only */
    }
    t->entries[s->nr].type = REG_TYPE_INVALID;
    t->t.entry = t->entries;
    t->s.nr = s->nr;
    memcpy(t->s.r, s->r, sizeof t->s.r);
}

static const struct layout HLAYOUT_E = { 3, { 1, 3, 4 }, { 2, 1, 3 } };
static const char FILL_LETTER[] = "EFALD";

/* fillings of one area: E none, F u16 at the first word, A u16 at every word,
 * L u16 at the last word, D u32 at the base */
static int
fill_menu(uint32_t size, bool deep, int out[5])
{
    int n = 0;
    out[n++] = 0;
    out[n++] = 1;
    if (size >= 2) {
        out[n++] = 2;
        if (deep) {
            out[n++] = 3;
            out[n++] = 4;
        }
    }
    return n;
}

static int
hist_nlists(const struct layout *l, bool deep)
{
    int n = 1, m[5];
    for (int i = 0; i < l->na; ++i)
        n *= fill_menu(l->size[i], deep, m);
    return n;
}

static void
hist_add(struct tspec *s, RegisterType t, uint32_t addr)
{
    if (s->nr >= RT_MAXR)
        mc_broken("history list exceeds RT_MAXR");
    s->r[s->nr].type = t;
    s->r[s->nr].addr = addr;
    fam_constrain(&s->r[s->nr], K_NONE);
    s->nr++;
}

/* list number `code` of the layout (code == number of lists: the list that
 * register_init has to refuse, one register below the first area) */
static void
hist_spec(struct tspec *s, const struct layout *l, int backing, bool deep, int code, char *name)
{
    static const int RW3[3] = { 0, 0, 0 };
    memset(s, 0, sizeof *s);
    fam_shift = 0;
    fam_areas(s, l, RW3, backing);
    if (code == hist_nlists(l, deep)) {
        hist_add(s, REG_TYPE_UINT16, l->base[0] - 1);
        strcpy(name, "X");
        return;
    }
    for (int i = 0; i < l->na; ++i) {
        int m[5];
        const int nm = fill_menu(l->size[i], deep, m);
        const int f = m[code % nm];
        code /= nm;
        name[i] = FILL_LETTER[f];
        const uint32_t b = l->base[i], sz = l->size[i];
        switch (f) {
        case 1: hist_add(s, REG_TYPE_UINT16, b); break;
        case 2:
            for (uint32_t w = 0; w < sz; ++w)
                hist_add(s, REG_TYPE_UINT16, b + w);
            break;
        case 3: hist_add(s, REG_TYPE_UINT16, b + sz - 1); break;
        case 4: hist_add(s, REG_TYPE_UINT32, b); break;
        default: break;
        }
    }
    name[l->na] = 0;
}

static int
regs_in_area(const struct tspec *s, int ai)
{
    int k = 0;
    for (int r = 0; r < s->nr; ++r)
        if (flat_area_of(s, s->r[r].addr) == ai)
            k++;
    return k;
}

static int64_t hist_count;

static void
run_history(char lname, const struct layout *l, int backing, bool deep, const int *hist, int hl)
{
    struct tspec sp[3];
    char nm[3][8], hdesc[40] = "";
    for (int i = 0; i < hl; ++i) {
        hist_spec(&sp[i], l, backing, deep, hist[i], nm[i]);
        snprintf(hdesc + strlen(hdesc), sizeof hdesc - strlen(hdesc), "%s%s", i ? ">" : "", nm[i]);
    }
    const struct tspec *fin = &sp[hl - 1], *prev = &sp[hl - 2];
    const bool prev_valid = hist[hl - 2] != hist_nlists(l, deep);
    hist_count++;
    g_wide = false;
    tb_built = false;
    bool init_ok = false;
    for (int mode = 0; mode < 2; ++mode)
        for (uint32_t rel = 0; rel <= FAM_MAXADDR; ++rel)
            for (uint32_t n = 0; rel + n <= FAM_MAXADDR + 1; ++n) {
                const uint32_t addr = fam_origin(fin) + rel;
                if (!mc_case("reinit layout=%c history=%s (same area array, register_init after each list) final %s %s=(%u,%u)",
                             lname, hdesc, tspec_str(fin), mode ? "foreach_in" : "block_read", addr, n))
                    continue;
                if (!tb_built) {
                    tab_build(&tb, &sp[0]);
                    tb_built = true;
                    RegisterInit ri = register_init(&tb.t);
                    mc_log("init #0 (%s) -> code %d at %u", nm[0], ri.code, ri.pos.entry);
                    for (int i = 1; i < hl; ++i) {
                        tab_set_entries(&tb, &sp[i]);
                        ri = register_init(&tb.t);
                        mc_log("init #%d (%s) -> code %d at %u", i, nm[i], ri.code, ri.pos.entry);
                    }
                    init_ok = ri.code == REG_INIT_SUCCESS; /* the public answer; where the library keeps "initialised" is its own business */
                    if (init_ok)
                        fill_distinct();
                }
                if (!init_ok) {
                    /* the statement speaks about initialised tables only; whether
                     * a re-initialisation is accepted is not C03's business (the
                     * vacuity guard requires the reinit-* classes) */
                    mc_end(false, "reinit-refused");
                    continue;
                }
                if (!mode) {
                    const char *o = do_read(addr, n, -1);
                    mc_end(true, !strcmp(o, "read-unmapped") ? "reinit-read-unmapped" : "reinit-read-ok");
                    continue;
                }
                const char *o = do_iter(addr, n);
                /* the start lies in an area that had registers under the previous
                 * list and has none now, and registers above it overlap the range */
                const int sa = flat_area_of(fin, addr);
                const bool emptied = prev_valid && sa >= 0 && regs_in_area(fin, sa) == 0 && regs_in_area(prev, sa) > 0;
                mc_end(true, !strcmp(o, "failed") ? "failed"
                             : !strcmp(o, "iter-none") ? "reinit-iter-none"
                             : emptied ? "reinit-iter-from-emptied-area"
                             : !strcmp(o, "iter-all") ? "reinit-iter-all" : "reinit-iter-some");
            }
    if (tb_built)
        tab_free(&tb);
}

static void
run_histories(bool thorough)
{
    static const char LNAME[] = "ABCDE";
    for (int li = 0; li < NLAYOUTS + 1; ++li) {
        const struct layout *l = li < NLAYOUTS ? &LAYOUTS[li] : &HLAYOUT_E;
        if (!thorough && (li == 0 || li == 2))
            continue; /* quick: B (adjacent), D (adjacent + gap), E (three adjacent) */
        /* every ordered pair of lists */
        const int nl = hist_nlists(l, thorough);
        for (int backing = 0; backing < 2; ++backing)
            for (int i = 0; i < nl; ++i)
                for (int j = 0; j < nl; ++j) {
                    const int h[2] = { i, j };
                    run_history(LNAME[li], l, backing, thorough, h, 2);
                }
        /* thorough: every triple over the short menu; the middle element may be
         * the refused list */
        if (!thorough || li == 0)
            continue;
        const int ns = hist_nlists(l, false);
        for (int i = 0; i < ns; ++i)
            for (int j = 0; j <= ns; ++j)
                for (int k = 0; k < ns; ++k) {
                    const int h[3] = { i, j, k };
                    run_history(LNAME[li], l, li & 1, false, h, 3);
                }
    }
}

/* ---- P9: calls of another kind between initialisation and the reads ---------------
 * "On an initialised table": a table stays initialised whatever other public
 * operation ran on it in between, accepted or refused -- no statement gives
 * any of them the power to take the table out of service (no callback fault is
 * injected here; what a library does after a driver I/O error is left open,
 * see P1's fault cases).  Tables: the three adjacent areas of P2, each area in
 * {memory RW, callback RW, callback read-only without write function, memory
 * read-only without write function, callback write-only}, one 16-bit register
 * with range 10..20 and default 15 at the base of every area.  After
 * register_init the storage is filled with distinct words, the registers hold
 * 11, 12, 13; then ONE intervening call, then every window x {block read,
 * iteration} against the flat model of the storage as it is then. */
enum {
    IV_SANITISE,      /* sanitise, every register sane */
    IV_SANITISE_POKED,/* +k: register k holds 99 (out of range) out of band, then sanitise: repaired, or refused where area k cannot be written */
    IV_SET_REFUSED = IV_SANITISE_POKED + 3, /* +k: typed set of 21 (out of range) */
    IV_SET_OK = IV_SET_REFUSED + 3,         /* +k: typed set of 17 */
    IV_BW_REFUSED = IV_SET_OK + 3,          /* +k: block write of 21 onto register k */
    IV_BW_OK = IV_BW_REFUSED + 3,           /* +k: block write of 18 onto register k */
    IV_BW_HOLE = IV_BW_OK + 3,              /* block write starting on the unmapped address below the table */
    IV_TYPED_READS,                         /* get, default, bit set / clear, touch / untouch of every register; bad handle */
    IV_ITER_STOPPED,                        /* an iteration over the whole table stopped with -1 at the first register */
    IV_NOPS
};

static const char *
iv_name(int op)
{
    static char b[96];
    if (op == IV_SANITISE) return "register_sanitise (all registers sane)";
    if (op == IV_BW_HOLE) return "register_block_write starting on an unmapped address";
    if (op == IV_TYPED_READS) return "register_get/default/bit_set/bit_clear/touch/untouch of every register and of a bad handle";
    if (op == IV_ITER_STOPPED) return "register_foreach_in stopped with -1 at the first register";
    const int k = (op - IV_SANITISE_POKED) % 3;
    snprintf(b, sizeof b, op < IV_SET_REFUSED ? "register %d poked out of range, then register_sanitise"
                          : op < IV_SET_OK ? "register_set(%d, 21: out of range)"
                          : op < IV_BW_REFUSED ? "register_set(%d, 17)"
                          : op < IV_BW_OK ? "register_block_write of 21 (out of range) onto register %d" : "register_block_write of 18 onto register %d", k);
    return b;
}

static int
iv_stop_cb(RegisterTable *t, RegisterHandle h, void *arg)
{
    (void)t; (void)h; (void)arg;
    return -1;
}

static void
iv_call(int op)
{
    RegisterAccess a = REG_ACCESS_RESULT_INIT;
    RegisterValue v;
    memset(&v, 0, sizeof v);
    v.type = REG_TYPE_UINT16;
    RegisterAtom *buf = mc_exact(2 * sizeof(RegisterAtom));
    buf[0] = buf[1] = 0;
    const int k = op >= IV_SANITISE_POKED && op < IV_BW_HOLE ? (op - IV_SANITISE_POKED) % 3 : 0;
    if (op == IV_SANITISE)
        a = register_sanitise(&tb.t);
    else if (op < IV_SET_REFUSED) {
        tb.store[k][0] = 99;
        a = register_sanitise(&tb.t);
    } else if (op < IV_SET_OK) {
        v.value.u16 = 21;
        a = register_set(&tb.t, (RegisterHandle)k, v);
    } else if (op < IV_BW_REFUSED) {
        v.value.u16 = 17;
        a = register_set(&tb.t, (RegisterHandle)k, v);
    } else if (op < IV_BW_OK) {
        buf[0] = 21;
        a = register_block_write(&tb.t, tb.s.r[k].addr, 1, buf);
    } else if (op < IV_BW_HOLE) {
        buf[0] = 18;
        a = register_block_write(&tb.t, tb.s.r[k].addr, 1, buf);
    } else if (op == IV_BW_HOLE) {
        buf[0] = buf[1] = 12;
        a = register_block_write(&tb.t, tb.s.a[0].base - 1, 2, buf);
    } else if (op == IV_TYPED_READS) {
        for (int r = 0; r <= tb.s.nr; ++r) {
            RegisterValue g;
            memset(&g, 0, sizeof g);
            (void)register_get(&tb.t, (RegisterHandle)r, &g);
            (void)register_default(&tb.t, (RegisterHandle)r, &g);
            v.value.u16 = 4;
            (void)register_bit_set(&tb.t, (RegisterHandle)r, v);
            a = register_bit_clear(&tb.t, (RegisterHandle)r, v);
            if (r < tb.s.nr) {
                register_touch(&tb.t, (RegisterHandle)r);
                register_untouch(&tb.t, (RegisterHandle)r);
            }
        }
    } else
        a = register_foreach_in(&tb.t, tb.s.a[0].base, 8, iv_stop_cb, NULL);
    mc_trans(1);
    mc_log("intervening call: %s -> %s@%u (not judged here)", iv_name(op), acc(a.code), a.address);
    free(buf);
}

static void
run_intervening(const struct tspec *s, int ti)
{
    g_wide = false;
    const uint32_t span = fam_span(s);
    for (int op = 0; op < IV_NOPS; ++op) {
        bool built = false, init_ok = false;
        const int k = op >= IV_SANITISE_POKED && op < IV_SET_REFUSED ? op - IV_SANITISE_POKED : -1;
        const bool unrepairable = k >= 0 && !flat_writable(&s->a[k]); /* sanitise cannot put the default back */
        for (int mode = 0; mode < 2; ++mode)
            for (uint32_t rel = 0; rel < span; ++rel)
                for (uint32_t n = 0; rel + n <= span; ++n) {
                    const uint32_t addr = fam_origin(s) + rel;
                    if (!mc_case("table#%d %s after init: %s; then %s=(%s,%u)", ti, tspec_str(s), iv_name(op), mode ? "foreach_in" : "block_read", addr_str(addr), n))
                        continue;
                    if (!built) {
                        tab_build(&tb, s);
                        RegisterInit ri = register_init(&tb.t);
                        built = true;
                        init_ok = ri.code == REG_INIT_SUCCESS;
                        if (init_ok) {
                            fill_distinct();
                            for (int r = 0; r < s->nr; ++r)
                                tb.store[r][0] = (RegisterAtom)(11 + r);
                            iv_call(op);
                        } else
                            mc_log("register_init -> code %d at %u", ri.code, ri.pos.entry);
                    }
                    if (!init_ok) {
                        note_init_refused(0);
                        mc_end(false, "init-refused");
                        continue;
                    }
                    const char *o = mode ? do_iter(addr, n) : do_read(addr, n, -1);
                    if (!strcmp(o, "failed"))
                        mc_end(true, "failed");
                    else if (unrepairable)
                        mc_end(true, mode ? "after-unrepairable-sanitise-iter" : !strcmp(o, "read-unmapped") ? "after-unrepairable-sanitise-read-unmapped" : "after-unrepairable-sanitise-read-ok");
                    else
                        mc_end(true, mode ? "after-other-call-iter" : !strcmp(o, "read-unmapped") ? "after-other-call-read-unmapped" : "after-other-call-read-ok");
                }
        if (built)
            tab_free(&tb);
    }
}

static int
ivfam_enumerate(int idx)
{
    struct tspec s;
    for (int c = 0; c < 125; ++c) {
        memset(&s, 0, sizeof s);
        s.na = 3;
        int cc = c;
        for (int i = 0; i < 3; ++i, cc /= 5) {
            const int kind = cc % 5; /* 0 memory RW, 1 callback RW, 2 callback read-only without write function, 3 memory read-only without write function, 4 callback write-only */
            struct aspec *a = &s.a[i];
            a->base = XLAYOUTS[0].base[i];
            a->size = XLAYOUTS[0].size[i];
            a->cb = kind == 1 || kind == 2 || kind == 4;
            a->nowrite = kind == 2 || kind == 3;
            a->flags = (uint16_t)(kind == 4 ? REG_AF_WRITEABLE : a->nowrite ? REG_AF_READABLE : REG_AF_RW);
            struct rspec *r = &s.r[s.nr++];
            r->type = REG_TYPE_UINT16;
            r->addr = a->base;
            r->ckind = K_RANGE;
            r->lo = vu_int(r->type, 10);
            r->hi = vu_int(r->type, 20);
            r->def = vu_int(r->type, 15);
        }
        s.be = (c & 1);
        run_intervening(&s, idx++);
    }
    return idx;
}

/* ---- P4: large tables -------------------------------------------------------------- */

struct big {
    const char *name;
    int na;
    uint32_t base[2], size[2];
    bool cb;       /* areas callback-backed without storage (words are computed), else memory-backed */
    uint32_t nr;
    uint32_t *raddr;
    uint8_t *rwords;
    RegisterArea *areas;
    RegisterEntry *entries;
    RegisterAtom *mem[2];
    RegisterTable t;
    int oob;
    bool built, init_ok;
};

static struct big bg;

static inline RegisterAtom
big_word(uint32_t addr)
{
    return (RegisterAtom)((((addr + 1u) * 40503u) >> 4) | 1u);
}

static RegisterAccess
big_cb_read(const RegisterArea *a, RegisterAtom *dest, RegisterOffset off, RegisterOffset n)
{
    RegisterAccess rv = REG_ACCESS_RESULT_INIT;
    if ((uint64_t)off + n > a->size) {
        bg.oob++;
        return rv;
    }
    for (RegisterOffset i = 0; i < n; ++i)
        dest[i] = big_word(a->base + off + i);
    return rv;
}

static RegisterAccess
big_cb_write(RegisterArea *a, const RegisterAtom *src, RegisterOffset off, RegisterOffset n)
{
    RegisterAccess rv = REG_ACCESS_RESULT_INIT;
    (void)src; /* the device ignores writes (initialisation loads the defaults) */
    if ((uint64_t)off + n > a->size)
        bg.oob++;
    return rv;
}

static int
big_area_of(uint32_t addr)
{
    for (int i = 0; i < bg.na; ++i)
        if (addr >= bg.base[i] && addr - bg.base[i] < bg.size[i])
            return i;
    return -1;
}

static void
big_free(void)
{
    free(bg.raddr);
    free(bg.rwords);
    free(bg.areas);
    free(bg.entries);
    free(bg.mem[0]);
    free(bg.mem[1]);
    memset(&bg, 0, sizeof bg);
}

/* shapes: 0 one area [0,N), a 16-bit register at every address
 *         1 area [0,M) fully populated + area [M+1,M+9) holding u16@+0 u32@+1 u16@+4 u32@+6 (handles M..M+3)
 *         2 one area [0,2N), a 32-bit register at every even address */
static void
big_describe(int shape, uint32_t N, bool cb)
{
    memset(&bg, 0, sizeof bg);
    bg.cb = cb;
    if (shape == 0) {
        bg.name = "one area, u16 at every address";
        bg.na = 1;
        bg.size[0] = N;
        bg.nr = N;
    } else if (shape == 1) {
        bg.name = "full area + second area (u16@+0 u32@+1 u16@+4 u32@+6)";
        bg.na = 2;
        bg.size[0] = N;
        bg.base[1] = N + 1;
        bg.size[1] = 8;
        bg.nr = N + 4;
    } else {
        bg.name = "one area, u32 at every even address";
        bg.na = 1;
        bg.size[0] = 2 * N;
        bg.nr = N;
    }
}

static void
big_build(int shape, uint32_t N)
{
    bg.raddr = malloc((size_t)bg.nr * sizeof *bg.raddr);
    bg.rwords = malloc(bg.nr);
    if (!bg.raddr || !bg.rwords)
        mc_broken("out of memory");
    for (uint32_t i = 0; i < bg.nr; ++i) {
        static const uint32_t off2[4] = { 0, 1, 4, 6 };
        static const uint8_t w2[4] = { 1, 2, 1, 2 };
        if (shape == 2) {
            bg.raddr[i] = 2 * i;
            bg.rwords[i] = 2;
        } else if (shape == 1 && i >= N) {
            bg.raddr[i] = bg.base[1] + off2[i - N];
            bg.rwords[i] = w2[i - N];
        } else {
            bg.raddr[i] = i;
            bg.rwords[i] = 1;
        }
    }
    bg.areas = mc_exact((size_t)(bg.na + 1) * sizeof(RegisterArea));
    memset(bg.areas, 0, (size_t)(bg.na + 1) * sizeof(RegisterArea));
    for (int i = 0; i < bg.na; ++i) {
        RegisterArea *a = &bg.areas[i];
        a->flags = REG_AF_RW;
        a->base = bg.base[i];
        a->size = bg.size[i];
        if (bg.cb) {
            a->read = big_cb_read;
            a->write = big_cb_write;
        } else {
            bg.mem[i] = mc_exact((size_t)bg.size[i] * sizeof(RegisterAtom));
            memset(bg.mem[i], 0xa5, (size_t)bg.size[i] * sizeof(RegisterAtom));
            a->read = reg_mem_read;
            a->write = reg_mem_write;
            a->mem = bg.mem[i];
        }
    }
    bg.entries = mc_exact(((size_t)bg.nr + 1) * sizeof(RegisterEntry));
    memset(bg.entries, 0, ((size_t)bg.nr + 1) * sizeof(RegisterEntry));
    for (uint32_t i = 0; i < bg.nr; ++i) {
        RegisterEntry *e = &bg.entries[i];
        e->type = bg.rwords[i] == 1 ? REG_TYPE_UINT16 : REG_TYPE_UINT32;
        e->address = bg.raddr[i];
        e->check.type = REGV_TYPE_TRIVIAL;
    }
    bg.entries[bg.nr].type = REG_TYPE_INVALID;
    bg.t.area = bg.areas;
    bg.t.entry = bg.entries;
    RegisterInit ri = register_init(&bg.t);
    mc_log("register_init of %u entries -> code %d at %u", bg.nr, ri.code, ri.pos.entry);
    bg.init_ok = ri.code == REG_INIT_SUCCESS; /* the public answer only */
    if (!bg.cb)
        for (int i = 0; i < bg.na; ++i)
            for (uint32_t w = 0; w < bg.size[i]; ++w)
                bg.mem[i][w] = big_word(bg.base[i] + w);
    bg.built = true;
}

static struct {
    int64_t calls, stop_at;
    int result;
    RegisterHandle first_expected;
    int64_t bad_call;      /* first call whose handle was not first_expected + call index; -1 none */
    RegisterHandle bad_handle;
    void *arg_seen;
} bit;

static int
big_iter_cb(RegisterTable *t, RegisterHandle h, void *arg)
{
    (void)t;
    bit.arg_seen = arg;
    if (bit.bad_call < 0 && h != bit.first_expected + (RegisterHandle)bit.calls) {
        bit.bad_call = bit.calls;
        bit.bad_handle = h;
    }
    const int64_t k = bit.calls++;
    return (k == bit.stop_at) ? bit.result : 0;
}

static const char *
big_iter(uint32_t addr, uint32_t len)
{
    /* registers overlapping the range: consecutive handles [h0, h0+ne) */
    uint32_t h0 = 0, ne = 0;
    for (uint32_t r = 0; r < bg.nr; ++r)
        if (len > 0 && bg.raddr[r] < addr + len && addr < bg.raddr[r] + bg.rwords[r]) {
            if (ne == 0)
                h0 = r;
            ne++;
        }
    bool touches_mapped = false;
    for (int i = 0; i < bg.na; ++i)
        if (len > 0 && bg.size[i] > 0 && bg.base[i] < (uint64_t)addr + len && addr < (uint64_t)bg.base[i] + bg.size[i])
            touches_mapped = true;
    /* scripts: never stop; first call -1 / +1; last call -1 / +1; first call
     * with every wide result */
    const int nbase = ne == 0 ? 1 : ne == 1 ? 3 : 5;
    const int nsc = nbase + (ne == 0 ? 0 : NWIDE);
    for (int sc = 0; sc < nsc; ++sc) {
        const int64_t k = sc == 0 ? -1 : sc <= 2 || sc >= nbase ? 0 : (int64_t)ne - 1;
        const int res = sc == 0 ? 0 : sc >= nbase ? WIDE_RESULTS[sc - nbase] : (sc & 1) ? -1 : 1;
        bit.calls = 0;
        bit.stop_at = k;
        bit.result = res;
        bit.first_expected = h0;
        bit.bad_call = -1;
        int token;
        RegisterAccess a = register_foreach_in(&bg.t, addr, len, big_iter_cb, &token);
        mc_trans(1);
        const int64_t want_calls = k < 0 ? (int64_t)ne : k + 1;
        mc_log("foreach_in(%u,%u) stop_at=%lld result=%d -> %s@%u calls=%lld (expected %lld, handles from %u)", addr, len, (long long)k, res,
               acc(a.code), a.address, (long long)bit.calls, (long long)want_calls, h0);
        if (bit.bad_call >= 0) {
            mc_fail("C03/iter-visits-overlapping", "call %lld got handle %u, expected %u", (long long)bit.bad_call, bit.bad_handle,
                    h0 + (uint32_t)bit.bad_call);
            return "failed";
        }
        if (bit.calls != want_calls) {
            mc_fail("C03/iter-visits-overlapping", "stop_at=%lld result=%d: %lld callback calls, %lld registers overlap the range before the stop",
                    (long long)k, res, (long long)bit.calls, (long long)want_calls);
            return "failed";
        }
        if (bit.calls > 0 && bit.arg_seen != &token) {
            mc_fail("C03/iter-passes-argument", "callback did not receive the caller's argument");
            return "failed";
        }
        if (k >= 0 && res < 0) {
            if (a.code == REG_ACCESS_SUCCESS || a.address != bg.raddr[h0 + (uint32_t)k]) {
                mc_fail("C03/iter-negative-is-failure", "negative result at register %u: %s@%u, expected a failure code at address %u", h0 + (uint32_t)k,
                        acc(a.code), a.address, bg.raddr[h0 + (uint32_t)k]);
                return "failed";
            }
        } else if (a.code != REG_ACCESS_SUCCESS) {
            /* as in do_iter: not judged when no callback was called and no
             * address of the range is mapped */
            if (bit.calls > 0 || touches_mapped) {
                mc_fail("C03/iter-success", "iteration returned %s", acc(a.code));
                return "failed";
            }
            mc_log("foreach_in(%u,%u): no callback called, no address of the range mapped: %s@%u not judged", addr, len, acc(a.code), a.address);
        }
    }
    return ne == 0 ? "big-iter-none" : h0 >= 65536u ? "big-iter-first-handle-from-64k" : h0 + ne > 65536u ? "big-iter-across-64k" : "big-iter-below-64k";
}

static const char *
big_read(uint32_t addr, uint32_t n)
{
    long long first_unmapped = -1;
    for (uint32_t i = 0; i < n; ++i)
        if (big_area_of(addr + i) < 0) {
            first_unmapped = (long long)addr + i;
            break;
        }
    RegisterAtom *buf = mc_exact((size_t)n * sizeof(RegisterAtom));
    memset(buf, 0xee, (size_t)n * sizeof(RegisterAtom));
    bg.oob = 0;
    RegisterAccess a = register_block_read(&bg.t, addr, n, buf);
    mc_trans(1);
    mc_log("block_read(%u,%u) -> %s@%u (reference: first unmapped %lld)", addr, n, acc(a.code), a.address, first_unmapped);
    const char *outcome;
    if (bg.oob)
        mc_fail("C03/area-bounds", "an area callback was asked for words outside its area");
    if (!bg.cb)
        for (int i = 0; i < bg.na; ++i)
            for (uint32_t w = 0; w < bg.size[i]; ++w)
                if (bg.mem[i][w] != big_word(bg.base[i] + w)) {
                    mc_fail("C03/read-is-pure", "storage changed by a block read (address %u)", bg.base[i] + w);
                    i = bg.na;
                    break;
                }
    if (first_unmapped < 0) {
        outcome = n >= 65536u ? "big-read-ok-64k-words" : "big-read-ok";
        if (a.code != REG_ACCESS_SUCCESS)
            mc_fail("C03/read-succeeds-when-mapped", "fully mapped read refused with %s@%u", acc(a.code), a.address);
        else
            for (uint32_t i = 0; i < n; ++i)
                if (buf[i] != big_word(addr + i)) {
                    mc_fail("C03/read-returns-stored-word", "word %u (address %u): got %04x, expected %04x", i, addr + i, buf[i], big_word(addr + i));
                    break;
                }
    } else {
        outcome = "big-read-unmapped";
        if (a.code == REG_ACCESS_SUCCESS)
            mc_fail("C03/read-refuses-unmapped", "read touching unmapped address %lld returned %s", first_unmapped, acc(a.code));
        else if ((long long)a.address != first_unmapped)
            mc_fail("C03/first-unmapped-address", "reported %u, first unmapped address is %lld", a.address, first_unmapped);
    }
    free(buf);
    return outcome;
}

static int
cmp_u32(const void *a, const void *b)
{
    const uint32_t x = *(const uint32_t *)a, y = *(const uint32_t *)b;
    return (x > y) - (x < y);
}

static void
run_big(int shape, uint32_t N, bool cb)
{
    big_describe(shape, N, cb);
    /* addresses of interest: table start, around 2^16 (address and, for the
     * two-word shape, handle), around every area edge */
    uint32_t pts[64];
    int np = 0;
    const uint32_t end = bg.base[bg.na - 1] + bg.size[bg.na - 1]; /* first address above the table */
    pts[np++] = 0;
    pts[np++] = 1;
    for (uint32_t d = 0; d <= 6; ++d) {
        pts[np++] = 65533u + d;
        if (shape == 2)
            pts[np++] = 2u * 65533u + d;
    }
    for (int i = 0; i < bg.na; ++i)
        for (uint32_t d = 0; d <= 3; ++d) {
            pts[np++] = bg.base[i] + bg.size[i] + 1u - d; /* end-2 .. end+1 */
            if (bg.base[i] + d >= 1)
                pts[np++] = bg.base[i] + d - 1u;          /* base-1 .. base+2 */
        }
    qsort(pts, (size_t)np, sizeof pts[0], cmp_u32);
    int nu = 0;
    for (int i = 0; i < np; ++i)
        if (pts[i] <= end + 1u && (nu == 0 || pts[nu - 1] != pts[i]))
            pts[nu++] = pts[i];
    np = nu;
    for (int mode = 0; mode < 2; ++mode)
        for (int pi = 0; pi < np; ++pi) {
            const uint32_t addr = pts[pi];
            uint32_t lens[12];
            int nlen = 0;
            lens[nlen++] = 0;
            lens[nlen++] = 1;
            lens[nlen++] = 2;
            lens[nlen++] = 3;
            lens[nlen++] = 5;
            lens[nlen++] = 65535u;
            lens[nlen++] = 65536u;
            lens[nlen++] = 65537u;
            if (end > addr) {
                lens[nlen++] = end - addr;      /* up to the last word of the table */
                lens[nlen++] = end - addr + 1u; /* one word beyond */
            }
            for (int k = 0; k < nlen; ++k) {
                const uint32_t n = lens[k];
                bool dup = false;
                for (int q = 0; q < k; ++q)
                    dup |= lens[q] == n;
                if (dup)
                    continue;
                if (!mc_case("large table %u registers (%s; %s) %s=(%u,%u)", bg.nr, bg.name, bg.cb ? "callback areas" : "memory areas",
                             mode ? "foreach_in" : "block_read", addr, n))
                    continue;
                if (!bg.built)
                    big_build(shape, N);
                if (!bg.init_ok) {
                    /* not C03's business (C04): a library whose handle type is
                     * narrower refuses these tables as too large.  Not judged,
                     * recorded as a cap; the big-* classes are not required. */
                    note_init_refused(1);
                    mc_end(false, "big-init-refused");
                    continue;
                }
                mc_end(true, mode ? big_iter(addr, n) : big_read(addr, n));
            }
        }
    big_free();
}

static int
run_bigs(bool thorough)
{
    int nt = 0;
    /* shape 0: N straddling 2^16 */
    static const uint32_t N0[] = { 65537, 65544, 65535, 65536 };
    for (int i = 0; i < (thorough ? 4 : 2); ++i) {
        run_big(0, N0[i], i != 1); /* 65544: memory-backed, the others computed */
        nt++;
        if (thorough) {
            run_big(0, N0[i], i == 1);
            nt++;
        }
    }
    /* one table below 2^16 entries: what a library with 16-bit handles still
     * accepts (the tables above are refused by it and then not judged) */
    run_big(0, 65534, true);
    nt++;
    /* shape 1: the second area's first handle straddling 2^16 */
    static const uint32_t N1[] = { 65536, 65535, 65537, 65533, 65534 };
    for (int i = 0; i < (thorough ? 5 : 2); ++i) {
        run_big(1, N1[i], true);
        nt++;
    }
    if (thorough) {
        run_big(1, 65536, false);
        nt++;
    }
    /* shape 2: handles and addresses differ */
    run_big(2, 65540, true);
    nt++;
    return nt;
}

int
main(int argc, char **argv)
{
    mc_init(argc, argv);
    const bool th = mc_thorough();
    int ntab = fam_enumerate(run_table, th);
    const int nfam = ntab;
    ntab = xfam_enumerate(run_table, ntab);
    const int nx = ntab - nfam;
    ntab = sfam_enumerate(run_table, ntab, th);
    const int nshift = ntab - nfam - nx;
    ntab = zfam_enumerate(run_table, ntab);
    const int nzero = ntab - nfam - nx - nshift;
    MC_ANCHOR(nzero > 0, "the zero-sized-area family is empty");
#ifdef C03_HYBRID_AREAS
    ntab = hfam_enumerate(run_table, ntab);
#endif
    run_histories(th);
    const int nbig = run_bigs(th);
    /* P6: tables whose last word is 0xffffffff */
    const int ntop0 = ntab;
    ntab = fam_enumerate_top(run_table, ntab, th);
    const int ntopfam = ntab - ntop0;
    x_shift = X_TOP_SHIFT;
    ntab = xfam_enumerate(run_table, ntab);
    const int ntopx = ntab - ntop0 - ntopfam;
    /* P8: access flags x accessor presence, at the bottom and at the top */
    x_shift = 0;
    const int nacc0 = ntab;
    ntab = afam_enumerate(run_table, ntab);
    x_shift = X_TOP_SHIFT;
    ntab = afam_enumerate(run_table, ntab);
    x_shift = 0;
    const int nacc = ntab - nacc0;
    /* P9: calls of another kind between initialisation and the reads */
    const int niv0 = ntab;
    ntab = ivfam_enumerate(ntab);
    const int niv = ntab - niv0;
    char bound[2600];
    snprintf(bound, sizeof bound,
             "%d family tables + %d tables of 3/4 adjacent areas + %d tables at address shifts 0x7ffffffc/0xfffffff5 + %d tables with one or two zero-sized areas at every list position and admissible base x every (address,length) over 10 addresses x "
             "{block read, iteration with every stop script (results +-1 at every position; +-2, +-256, +-65536, INT_MIN/MAX at the first and last position), "
             "block read with a read-callback fault at every chunk position}; %lld re-initialisation histories (ordered pairs%s of register lists on one area array) "
             "x every window x {block read, iteration}; %d tables of 65534..65544 registers x windows around 2^16 and the area edges; "
             "top of the address space: %d family tables (layouts A-D moved up so that the last word is 0xffffffff x mem/cb x LE/BE x singles at every placement, pairs, "
             "curated lists, every access-flag combination of F2) + %d tables of 3/4 adjacent areas ending at 0xffffffff x every (address,length) from one below the "
             "first area up to 0xffffffff with address+length <= 2^32 x the same three operations; "
             "access flags x accessor presence: %d tables of 3 adjacent areas (the area at each position x {memory-, callback-backed} x READABLE flag x read function "
             "present/absent x WRITEABLE flag x write function present/absent, neighbours RW callback-/memory-backed; at address 1 and ending at 0xffffffff) x every "
             "(address,length) x the same three operations; "
             "intervening calls: %d tables of 3 adjacent areas (each {memory RW, callback RW, callback read-only without write function, memory read-only without write "
             "function, callback write-only}, a range-constrained 16-bit register at every base) x %d calls of another kind between register_init and the reads (sanitise "
             "clean / with each register poked out of range - repaired or unrepairable -, refused and accepted typed set and block write per register, block write into a "
             "hole, typed reads and bit operations incl. a bad handle, a stopped iteration) x every (address,length) x {block read, iteration}",
             nfam, nx, nshift, nzero, (long long)hist_count, th ? " and triples" : "", nbig, ntopfam, ntopx, nacc, niv, (int)IV_NOPS);
    mc_finish(true, bound);
    return 0;
}
