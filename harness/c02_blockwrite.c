/*
 * C02 -- block writes are validated as a whole and are all-or-nothing.
 *
 * Space: table family (regfam.h) x reachable valid images (every register at
 * each of its valid contents) x every (address, length) window over addresses
 * 0..9 x word patterns (all-equal symbols; current content with one word
 * replaced; current content with the overlapped part of one register replaced
 * by each of its boundary / undecodable values).  Oracle: flat address-space
 * model (regtab.h).
 *
 * Added dimensions (own to this harness):
 *   X  extended table family: s32 / s64 / f64 registers (every placement, every
 *      constraint kind incl. none and always-fail) in a one-area and a 4+4
 *      two-area layout, pairs that put such a register next to another one,
 *      and areas that carry REG_AF_SKIP_DEFAULTS besides their access flags.
 *   H  histories: the table object (RegisterTable, area and entry arrays) is
 *      put back to its image right after initialisation, the storage image is
 *      established, ONE earlier operation of a per-table alphabet is run
 *      (sanitise on clean / corrupted storage, refused and accepted typed set,
 *      refused and accepted block writes, bit operations, block read, re-initialisation,
 *      and -- on callback-backed areas -- each of those operations with one
 *      area callback answering IO_ERROR), and then the block write is decided
 *      against the flat model evaluated on the storage as that operation left
 *      it.  The result of the earlier operation is not judged.  When an
 *      injected callback fault was reached and the table answers any non-success
 *      code to a zero-length block read or to a full-extent block read of one
 *      of its areas afterwards (a fail-safe library taking the table, or the
 *      failing area, out of service; no statement mentions driver I/O errors) the case
 *      ends as the trivial class latched-after-fault.
 *   T  top of the address space (regfam.h, fam_enumerate_top): the family moved
 *      up so that the last word of the layout is 0xffffffff -- the last area,
 *      a register at its end and every window reaching it end at 2^32, which
 *      32-bit arithmetic cannot hold.  Windows: every (address, length) from
 *      one below the first area up to 0xffffffff with address + length <= 2^32
 *      (a request never wraps; wrapping requests are outside the statement).
 *      Images, patterns and histories as for the other tables.  The reference
 *      (regtab.h) and this file form every exclusive end in 64 bits.  Own
 *      outcome classes "top-*"; "-to-last-word" = the window ends at 2^32.
 *
 * A table that register_init refuses ends its cases as trivial ones
 * (init-refused): whether a description is accepted is C04's sentence.  An
 * infinite or subnormal float overlay that also lies outside the register's
 * constraint may be refused as invalid or as out-of-range; so may a NaN
 * overlay under min/max/range, any undecodable overlay of an always-fail
 * register and of a register with a user predicate (regtab.h).
 */
#include "mc.h"
#include "regfam.h"

static const RegisterAtom SYM[7] = { 0x0000, 0xffff, 0x7fff, 0x8000, 0x7f80, 0x7fc0, 0x0001 };

static struct tab tb;
static bool tb_built;
static bool g_thorough;

static const char *
acc(RegisterAccessCode c)
{
    static const char *n[] = { "SUCCESS", "FAILURE", "UNINITIALISED", "NOENTRY", "RANGE", "INVALID", "READONLY", "IO_ERROR" };
    return (unsigned)c < 8 ? n[c] : "?";
}

static uint64_t
f32bits(float f)
{
    uint32_t x;
    memcpy(&x, &f, 4);
    return x;
}

static uint64_t
f64bits(double d)
{
    uint64_t x;
    memcpy(&x, &d, 8);
    return x;
}

/* target raw patterns for register r (P3) */
static int
targets(const struct rspec *r, uint64_t out[16])
{
    const RegisterType t = r->type;
    const unsigned w = ref_words(t) * 16;
    const uint64_t m = w == 64 ? ~0ull : ((1ull << w) - 1);
    int n = 0;
    if (t == REG_TYPE_FLOAT32) {
        float lo = r->lo.f32, hi = r->hi.f32, x;
        uint32_t b;
        x = lo; memcpy(&b, &x, 4); out[n++] = b;
        x = nextafterf(lo, -INFINITY); memcpy(&b, &x, 4); out[n++] = b;
        x = hi; memcpy(&b, &x, 4); out[n++] = b;
        x = nextafterf(hi, INFINITY); memcpy(&b, &x, 4); out[n++] = b;
        out[n++] = 0x00000000; out[n++] = 0x80000000; out[n++] = 0x7fc00000; out[n++] = 0x7f800000;
        out[n++] = 0xff800000; out[n++] = 0x00000001; out[n++] = 0x807fffff; out[n++] = 0x3fc00000;
        out[n++] = 0xbfc00000; out[n++] = 0x7f7fffff;
    } else if (t == REG_TYPE_FLOAT64) {
        const double lo = r->lo.f64, hi = r->hi.f64;
        out[n++] = f64bits(lo);
        out[n++] = f64bits(nextafter(lo, -INFINITY));
        out[n++] = f64bits(hi);
        out[n++] = f64bits(nextafter(hi, INFINITY));
        out[n++] = 0x0000000000000000ull; out[n++] = 0x8000000000000000ull;
        out[n++] = 0x7ff8000000000000ull; /* quiet NaN */
        out[n++] = 0x7ff0000000000000ull; /* +inf */
        out[n++] = 0xfff0000000000000ull; /* -inf */
        out[n++] = 0x0000000000000001ull; /* smallest subnormal */
        out[n++] = 0x800fffffffffffffull; /* largest negative subnormal */
        out[n++] = 0x7ff0000000000001ull; /* signalling NaN, payload in the lowest word only */
        out[n++] = f64bits(1.5); out[n++] = f64bits(-1.5);
        out[n++] = 0x7fefffffffffffffull; /* largest normal */
        out[n++] = 0x0010000000000000ull; /* smallest normal */
    } else {
        const uint64_t lo = ref_bits(t, r->lo), hi = ref_bits(t, r->hi);
        out[n++] = (lo - 1) & m; out[n++] = lo; out[n++] = (lo + 1) & m;
        out[n++] = (hi - 1) & m; out[n++] = hi; out[n++] = (hi + 1) & m;
        out[n++] = 0; out[n++] = 1; out[n++] = 2; out[n++] = m; out[n++] = m >> 1; out[n++] = (m >> 1) + 1;
    }
    return n;
}

/* ---- X: extended family ------------------------------------------------------------ */

static bool
x_is_ext(RegisterType t)
{
    return t == REG_TYPE_SINT32 || t == REG_TYPE_SINT64 || t == REG_TYPE_FLOAT64;
}

/* constraint bounds for the types regfam.h has no bounds for; the types it
 * knows are delegated to it */
static void
x_constrain(struct rspec *r, int ckind)
{
    const RegisterType t = r->type;
    if (!x_is_ext(t)) {
        fam_constrain(r, ckind);
        return;
    }
    r->ckind = ckind;
    r->lo = r->hi = r->def = vu_zero();
    if (t == REG_TYPE_SINT32) {
        r->lo = vu_int(t, -0x00018001ll); /* fffe7fff */
        r->hi = vu_int(t, 0x00028001ll);
    } else if (t == REG_TYPE_SINT64) {
        r->lo = vu_int(t, -0x0000000100020003ll);
        r->hi = vu_int(t, 0x0000000180028003ll);
    } else {
        r->lo.f64 = -2.5;
        r->hi.f64 = 1000.25;
    }
    switch (ckind) {
    case K_MIN: r->def = r->hi; break;
    case K_MAX: case K_RANGE: r->def = r->lo; break;
    default: /* none, fail, callback (integers: low bit clear; floats: not negative) */
        if (t == REG_TYPE_FLOAT64)
            r->def = r->hi;
        else
            r->def = vu_int(t, 0x1234);
        break;
    }
}

/* valid contents of a register (images); regfam.h's list for the types it knows */
static int
x_contents(const struct rspec *r, uint64_t out[3])
{
    const RegisterType t = r->type;
    if (!x_is_ext(t))
        return fam_contents(r, out);
    int n = 0;
    out[n++] = ref_bits(t, r->def);
    switch (r->ckind) {
    case K_NONE: out[n++] = t == REG_TYPE_FLOAT64 ? f64bits(-123.0) : t == REG_TYPE_SINT32 ? 0x87654321ull : 0xfedcba9876543210ull; break;
    case K_MIN: out[n++] = ref_bits(t, r->lo); break;
    case K_MAX: case K_RANGE: out[n++] = ref_bits(t, r->hi); break;
    case K_CB: out[n++] = t == REG_TYPE_FLOAT64 ? f64bits(1.5) : 0x7ffe; break;
    default: break;
    }
    return n;
}

static const struct layout XLAYOUTS[] = {
    { 1, { 1 }, { 6 } },       /* A: one area 1..6 */
    { 2, { 1, 5 }, { 4, 4 } }, /* E: two adjacent areas of four words, 1..4 and 5..8 */
};

static const RegisterType X_TYPES[] = { REG_TYPE_SINT32, REG_TYPE_SINT64, REG_TYPE_FLOAT64 };
static const RegisterType X_PAIR_TYPES[] = { REG_TYPE_UINT16, REG_TYPE_UINT32, REG_TYPE_SINT32, REG_TYPE_SINT64, REG_TYPE_FLOAT64, REG_TYPE_FLOAT32 };

static int
xfam_enumerate(fam_fn fn, int idx)
{
    struct tspec s;
    static const int RW3[3] = { 0, 0, 0 };
    fam_shift = 0;
    /* X1: singles of the extended types */
    for (int li = 0; li < 2; ++li) {
        const struct layout *l = &XLAYOUTS[li];
        for (int combo = 0; combo < 2; ++combo) /* (mem, LE) | (cb, BE) */
            for (unsigned ti = 0; ti < 3; ++ti)
                for (uint32_t a = 1; a <= 8; ++a) {
                    if (!fam_fits(l, X_TYPES[ti], a))
                        continue;
                    for (int ck = 0; ck < K_NKINDS; ++ck) {
                        memset(&s, 0, sizeof s);
                        s.be = combo == 1;
                        fam_areas(&s, l, RW3, combo);
                        s.nr = 1;
                        s.r[0].type = X_TYPES[ti];
                        s.r[0].addr = a;
                        x_constrain(&s.r[0], ck);
                        fn(&s, idx++);
                    }
                }
    }
    /* X2: directly adjacent ordered pairs with at least one extended type; the
     * constraint kinds rotate through all 36 combinations */
    int rot = 0;
    for (int li = 0; li < 2; ++li) {
        const struct layout *l = &XLAYOUTS[li];
        for (unsigned t1 = 0; t1 < 6; ++t1)
            for (unsigned t2 = 0; t2 < 6; ++t2) {
                if (!x_is_ext(X_PAIR_TYPES[t1]) && !x_is_ext(X_PAIR_TYPES[t2]))
                    continue;
                for (uint32_t a1 = 1; a1 <= 8; ++a1) {
                    const uint32_t a2 = a1 + ref_words(X_PAIR_TYPES[t1]);
                    if (!fam_fits(l, X_PAIR_TYPES[t1], a1) || !fam_fits(l, X_PAIR_TYPES[t2], a2))
                        continue;
                    memset(&s, 0, sizeof s);
                    s.be = (rot & 1);
                    fam_areas(&s, l, RW3, (rot >> 1) & 1);
                    s.nr = 2;
                    s.r[0].type = X_PAIR_TYPES[t1];
                    s.r[0].addr = a1;
                    x_constrain(&s.r[0], rot % 6);
                    s.r[1].type = X_PAIR_TYPES[t2];
                    s.r[1].addr = a2;
                    x_constrain(&s.r[1], (rot / 6 + rot) % 6);
                    rot++;
                    fn(&s, idx++);
                }
            }
    }
    /* X3: REG_AF_SKIP_DEFAULTS besides the access flags: layout B of regfam.h
     * (1..3, 4..6), each area one of {RW, RW+S, W, W+S}, both backings, a
     * 32-bit register at the start / at the end of each area */
    static const uint16_t XFLAGS[4] = { REG_AF_RW, REG_AF_RW | REG_AF_SKIP_DEFAULTS, REG_AF_WRITEABLE, REG_AF_WRITEABLE | REG_AF_SKIP_DEFAULTS };
    const struct layout *lb = &LAYOUTS[1];
    for (int c = 1; c < 16; ++c) {
        if (!((c & 1) || (c & 4)))
            continue; /* at least one area carries SKIP_DEFAULTS */
        for (int backing = 0; backing < 2; ++backing)
            for (int rl = 0; rl < 2; ++rl) {
                memset(&s, 0, sizeof s);
                s.be = rl;
                fam_areas(&s, lb, RW3, backing);
                s.a[0].flags = XFLAGS[c & 3];
                s.a[1].flags = XFLAGS[c >> 2];
                for (int i = 0; i < 2; ++i) {
                    s.r[s.nr].type = rl ? REG_TYPE_SINT32 : REG_TYPE_UINT32;
                    s.r[s.nr].addr = lb->base[i] + (rl ? 1 : 0);
                    x_constrain(&s.r[s.nr], rl ? K_RANGE : K_MAX);
                    s.nr++;
                }
                fn(&s, idx++);
            }
    }
    return idx;
}

/* ---- H: histories ------------------------------------------------------------------- */
enum hkind {
    H_NONE,
    H_SANITISE,           /* sanitise on the image as it is */
    H_CORRUPT_SANITISE,   /* register reg set out of band to a content that violates it, then sanitise */
    H_SET_REFUSED,        /* typed set of a violating / wrongly typed value */
    H_SET_ACCEPTED,       /* typed set of the register's second valid content */
    H_BW_HOLE,            /* block write of one word to the unmapped address below the first area */
    H_BW_BADREG,          /* block write of a violating value over the whole of register reg */
    H_BW_GOODREG,         /* block write of the register's second valid content over the whole of register reg */
    H_BIT_REFUSED,        /* bit_set with a wrongly typed operand */
    H_BIT_NOP,            /* bit_clear of no bits */
    H_REINIT,             /* register_init once more */
    H_READS,              /* block read across the whole window (hits the hole), register_get of a handle behind the last */
    H_SAN_RFAULT,         /* sanitise, read callback #pos answers IO_ERROR */
    H_CORRUPT_SAN_WFAULT, /* corrupt register reg, sanitise, write callback #pos answers IO_ERROR */
    H_BW_RFAULT,          /* block write of the current content over the first run of adjacent areas, read callback #pos fails */
    H_BW_WFAULT,          /* same, write callback #pos fails */
    H_SET_WFAULT,         /* typed set of register reg's default, write callback #0 fails */
};
struct hist {
    int k, reg, pos;
};
#define MAXHIST 48

static const char *
hist_str(const struct hist *h)
{
    static char b[100];
    switch (h->k) {
    case H_NONE: snprintf(b, sizeof b, "none"); break;
    case H_SANITISE: snprintf(b, sizeof b, "sanitise"); break;
    case H_CORRUPT_SANITISE: snprintf(b, sizeof b, "corrupt(reg%d)+sanitise", h->reg); break;
    case H_SET_REFUSED: snprintf(b, sizeof b, "set-bad(reg%d)", h->reg); break;
    case H_SET_ACCEPTED: snprintf(b, sizeof b, "set-good(reg%d)", h->reg); break;
    case H_BW_HOLE: snprintf(b, sizeof b, "block-write-to-hole"); break;
    case H_BW_BADREG: snprintf(b, sizeof b, "block-write-bad(reg%d)", h->reg); break;
    case H_BW_GOODREG: snprintf(b, sizeof b, "block-write-good(reg%d)", h->reg); break;
    case H_BIT_REFUSED: snprintf(b, sizeof b, "bit-set-wrong-type(reg%d)", h->reg); break;
    case H_BIT_NOP: snprintf(b, sizeof b, "bit-clear-nothing(reg%d)", h->reg); break;
    case H_REINIT: snprintf(b, sizeof b, "re-init"); break;
    case H_READS: snprintf(b, sizeof b, "block-read-over-hole+get-bad-handle"); break;
    case H_SAN_RFAULT: snprintf(b, sizeof b, "sanitise/read#%d-fails", h->pos); break;
    case H_CORRUPT_SAN_WFAULT: snprintf(b, sizeof b, "corrupt(reg%d)+sanitise/write#%d-fails", h->reg, h->pos); break;
    case H_BW_RFAULT: snprintf(b, sizeof b, "block-write-current/read#%d-fails", h->pos); break;
    case H_BW_WFAULT: snprintf(b, sizeof b, "block-write-current/write#%d-fails", h->pos); break;
    case H_SET_WFAULT: snprintf(b, sizeof b, "set-default(reg%d)/write#0-fails", h->reg); break;
    }
    return b;
}

/* a raw pattern that register r must not hold (false: every pattern is fine) */
static bool
bad_bits(const struct rspec *r, uint64_t *out)
{
    const RegisterType t = r->type;
    const unsigned w = ref_words(t) * 16;
    const uint64_t m = w == 64 ? ~0ull : ((1ull << w) - 1);
    switch (r->ckind) {
    case K_NONE:
        if (t == REG_TYPE_FLOAT32) { *out = 0x7fc00000u; return true; }
        if (t == REG_TYPE_FLOAT64) { *out = 0x7ff8000000000000ull; return true; }
        return false;
    case K_FAIL: *out = (ref_bits(t, r->def) ^ 2) & m; return true;
    case K_MIN: case K_RANGE:
        if (t == REG_TYPE_FLOAT32) *out = f32bits(nextafterf(r->lo.f32, -INFINITY));
        else if (t == REG_TYPE_FLOAT64) *out = f64bits(nextafter(r->lo.f64, -INFINITY));
        else *out = (ref_bits(t, r->lo) - 1) & m;
        return true;
    case K_MAX:
        if (t == REG_TYPE_FLOAT32) *out = f32bits(nextafterf(r->hi.f32, INFINITY));
        else if (t == REG_TYPE_FLOAT64) *out = f64bits(nextafter(r->hi.f64, INFINITY));
        else *out = (ref_bits(t, r->hi) + 1) & m;
        return true;
    case K_CB:
        if (t == REG_TYPE_FLOAT32) *out = f32bits(-1.5f);
        else if (t == REG_TYPE_FLOAT64) *out = f64bits(-1.5);
        else *out = (ref_bits(t, r->def) | 1) & m;
        return true;
    default: return false;
    }
}

static int
build_hists(const struct tspec *s, struct hist *h, bool all_regs)
{
    int n = 0;
    bool anycb = false;
    for (int i = 0; i < s->na; ++i)
        anycb |= s->a[i].cb;
    h[n++] = (struct hist){ H_SANITISE, 0, 0 };
    h[n++] = (struct hist){ H_BW_HOLE, 0, 0 };
    h[n++] = (struct hist){ H_REINIT, 0, 0 };
    h[n++] = (struct hist){ H_READS, 0, 0 };
    for (int r = 0; r < s->nr; ++r) {
        if (!all_regs && r != 0 && r != s->nr - 1)
            continue;
        h[n++] = (struct hist){ H_CORRUPT_SANITISE, r, 0 };
        h[n++] = (struct hist){ H_SET_REFUSED, r, 0 };
        h[n++] = (struct hist){ H_BW_BADREG, r, 0 };
        h[n++] = (struct hist){ H_BW_GOODREG, r, 0 };
        if (r == 0) {
            h[n++] = (struct hist){ H_SET_ACCEPTED, r, 0 };
            h[n++] = (struct hist){ H_BIT_REFUSED, r, 0 };
            h[n++] = (struct hist){ H_BIT_NOP, r, 0 };
        }
    }
    if (anycb) {
        for (int pos = 0; pos < s->nr && pos < 3; ++pos)
            h[n++] = (struct hist){ H_SAN_RFAULT, 0, pos };
        for (int r = 0; r < s->nr; ++r) {
            if (!all_regs && r != 0 && r != s->nr - 1)
                continue;
            h[n++] = (struct hist){ H_CORRUPT_SAN_WFAULT, r, 0 };
        }
        if (s->nr > 0)
            h[n++] = (struct hist){ H_SET_WFAULT, 0, 0 };
        h[n++] = (struct hist){ H_BW_RFAULT, 0, 0 };
        h[n++] = (struct hist){ H_BW_WFAULT, 0, 0 };
        if (s->na > 1)
            h[n++] = (struct hist){ H_BW_WFAULT, 0, 1 };
    }
    if (n > MAXHIST)
        mc_broken("history list overflow");
    return n;
}

/* image of the table object right after register_init */
static RegisterTable obj_t;
static RegisterArea obj_areas[RT_MAXA + 1];
static RegisterEntry obj_entries[RT_MAXR + 1];

static void
obj_save(void)
{
    obj_t = tb.t;
    memcpy(obj_areas, tb.areas, (size_t)(tb.s.na + 1) * sizeof(RegisterArea));
    memcpy(obj_entries, tb.entries, (size_t)(tb.s.nr + 1) * sizeof(RegisterEntry));
}

static void
obj_restore(void)
{
    tb.t = obj_t;
    memcpy(tb.areas, obj_areas, (size_t)(tb.s.na + 1) * sizeof(RegisterArea));
    memcpy(tb.entries, obj_entries, (size_t)(tb.s.nr + 1) * sizeof(RegisterEntry));
    tb.cb_fail_read_at = tb.cb_fail_write_at = -1;
    tb.cb_oob = 0;
}

/* the image under test */
static uint64_t g_C[RT_MAXR][3];
static int g_nc[RT_MAXR], g_sel[RT_MAXR];
static RegisterAtom g_words0[RT_MAXW]; /* storage right after initialisation (callback areas that initialisation does not fill: zero) */

static void
poke_reg(int r, uint64_t bits)
{
    const struct tspec *s = &tb.s;
    unsigned char img[8];
    ref_image(s->r[r].type, bits, s->be, img);
    const int ai = flat_area_of(s, s->r[r].addr);
    memcpy(tb.store[ai] + (s->r[r].addr - s->a[ai].base), img, ref_words(s->r[r].type) * 2);
}

static void
establish_image(void)
{
    for (int r = 0; r < tb.s.nr; ++r)
        poke_reg(r, g_C[r][g_sel[r]]);
}

/* HC_LATCHED: the earlier operation reached its injected callback fault and
 * the table refuses a zero-length / full-extent block read of its areas
 * afterwards (public probe, any non-success code).  No statement
 * mentions driver I/O errors; a library that takes the table out of service
 * after one keeps the statement true: the case is not judged. */
enum { HC_OK, HC_REFUSED, HC_FAULT_REACHED, HC_FAULT_NOT_REACHED, HC_LATCHED };

static int
run_hist(const struct hist *h)
{
    const struct tspec *s = &tb.s;
    RegisterAccess a = REG_ACCESS_RESULT_INIT;
    RegisterValue v;
    uint64_t bits = 0;
    bool fault = false;
    memset(&v, 0, sizeof v);
    tb.cb_reads = tb.cb_writes = 0;
    switch (h->k) {
    case H_NONE:
        break;
    case H_SANITISE:
        a = register_sanitise(&tb.t);
        break;
    case H_CORRUPT_SANITISE:
        if (bad_bits(&s->r[h->reg], &bits))
            poke_reg(h->reg, bits);
        a = register_sanitise(&tb.t);
        break;
    case H_SET_REFUSED:
        if (bad_bits(&s->r[h->reg], &bits)) {
            v.type = s->r[h->reg].type;
            v.value = ref_from_bits(v.type, bits);
        } else {
            /* unconstrained integer: a wrongly typed operand */
            v.type = s->r[h->reg].type == REG_TYPE_UINT16 ? REG_TYPE_SINT16 : REG_TYPE_UINT16;
            v.value = vu_int(v.type, 1);
        }
        a = register_set(&tb.t, (RegisterHandle)h->reg, v);
        break;
    case H_SET_ACCEPTED:
        v.type = s->r[h->reg].type;
        v.value = ref_from_bits(v.type, g_C[h->reg][g_nc[h->reg] - 1]);
        a = register_set(&tb.t, (RegisterHandle)h->reg, v);
        break;
    case H_BW_HOLE: {
        RegisterAtom *buf = mc_exact(sizeof(RegisterAtom));
        buf[0] = 0x0001;
        a = register_block_write(&tb.t, fam_origin(s), 1, buf);
        free(buf);
        break;
    }
    case H_BW_BADREG:
    case H_BW_GOODREG: {
        const unsigned rw = ref_words(s->r[h->reg].type);
        unsigned char img[8];
        if (h->k == H_BW_GOODREG)
            bits = g_C[h->reg][g_nc[h->reg] - 1];
        else if (!bad_bits(&s->r[h->reg], &bits))
            bits = 0x5a5a;
        ref_image(s->r[h->reg].type, bits, s->be, img);
        RegisterAtom *buf = mc_exact_copy(img, rw * sizeof(RegisterAtom));
        a = register_block_write(&tb.t, s->r[h->reg].addr, rw, buf);
        free(buf);
        break;
    }
    case H_BIT_REFUSED:
        v.type = s->r[h->reg].type == REG_TYPE_UINT16 ? REG_TYPE_UINT32 : REG_TYPE_UINT16;
        v.value = vu_int(v.type, 1);
        a = register_bit_set(&tb.t, (RegisterHandle)h->reg, v);
        break;
    case H_BIT_NOP:
        v.type = s->r[h->reg].type;
        a = register_bit_clear(&tb.t, (RegisterHandle)h->reg, v);
        break;
    case H_REINIT: {
        RegisterInit ri = register_init(&tb.t);
        if (ri.code != REG_INIT_SUCCESS)
            a.code = REG_ACCESS_FAILURE;
        break;
    }
    case H_READS: {
        /* the whole window range (ten addresses; fewer where the address space ends before) */
        RegisterAtom *buf = mc_exact(fam_span(s) * sizeof(RegisterAtom));
        a = register_block_read(&tb.t, fam_origin(s), fam_span(s), buf);
        free(buf);
        RegisterAccess b = register_get(&tb.t, (RegisterHandle)s->nr, &v);
        if (a.code == REG_ACCESS_SUCCESS)
            a = b;
        break;
    }
    case H_SAN_RFAULT:
        fault = true;
        tb.cb_fail_read_at = h->pos;
        a = register_sanitise(&tb.t);
        break;
    case H_CORRUPT_SAN_WFAULT:
        fault = true;
        if (bad_bits(&s->r[h->reg], &bits))
            poke_reg(h->reg, bits);
        tb.cb_fail_write_at = h->pos;
        a = register_sanitise(&tb.t);
        break;
    case H_SET_WFAULT:
        fault = true;
        v.type = s->r[h->reg].type;
        v.value = s->r[h->reg].def;
        tb.cb_fail_write_at = 0;
        a = register_set(&tb.t, (RegisterHandle)h->reg, v);
        break;
    case H_BW_RFAULT:
    case H_BW_WFAULT: {
        /* current content over the first run of adjacent areas */
        RegisterAtom w[RT_MAXW];
        uint32_t n = 0;
        for (int i = 0; i < s->na; ++i) {
            if (i > 0 && s->a[i].base != s->a[i - 1].base + s->a[i - 1].size)
                break;
            memcpy(w + n, tb.store[i], s->a[i].size * sizeof(RegisterAtom));
            n += s->a[i].size;
        }
        RegisterAtom *buf = mc_exact_copy(w, n * sizeof(RegisterAtom));
        fault = true;
        if (h->k == H_BW_RFAULT)
            tb.cb_fail_read_at = h->pos;
        else
            tb.cb_fail_write_at = h->pos;
        a = register_block_write(&tb.t, s->a[0].base, n, buf);
        free(buf);
        break;
    }
    }
    const bool hit = tab_fault_reached(&tb);
    tb.cb_fail_read_at = tb.cb_fail_write_at = -1;
    mc_trans(1);
    const bool latched = fault && hit && tab_out_of_service(&tb);
    if (mc.verbose && mc.active)
        mc_log("earlier operation %s -> %s@%u%s%s", hist_str(h), acc(a.code), a.address, fault ? (hit ? " (fault reached)" : " (fault not reached)") : "",
               latched ? "; the table refuses a zero-length or full-extent block read of its areas afterwards: out of service, not judged" : "");
    if (latched)
        return HC_LATCHED;
    if (fault)
        return hit ? HC_FAULT_REACHED : HC_FAULT_NOT_REACHED;
    return a.code == REG_ACCESS_SUCCESS ? HC_OK : HC_REFUSED;
}

static const struct hist *g_hist; /* NULL: no earlier operation (storage and marks are restored between writes) */
static int g_hclass;

/* puts the table into the state "initialised, image established, earlier
 * operation done".  Without a history the state is kept up by one_write itself. */
static void
prepare(void)
{
    if (g_hist == NULL)
        return;
    obj_restore();
    flat_restore(&tb, g_words0);
    establish_image();
    g_hclass = run_hist(g_hist);
}

static long n_accept, n_refuse;
static long n_ref_readonly, n_ref_unmapped; /* refused writes to which the reference's read-only / unmapped class applies */

/* one block write with the given words; storage and touched marks are
 * restored afterwards.  Returns false after a failure was recorded. */
static bool
one_write(uint32_t addr, uint32_t n, const RegisterAtom *words, const char *pname)
{
    RegisterAtom before[RT_MAXW], after[RT_MAXW], expect[RT_MAXW];
    prepare();
    const size_t total = flat_snapshot(&tb, before);
    RegisterAtom *buf = mc_exact_copy(words, n * sizeof(RegisterAtom));
    struct verdict v;
    flat_write_verdict(&tb, addr, n, buf, &v);
    const bool want_ok = v.unmapped < 0 && v.readonly < 0 && v.invalid < 0 && v.range < 0;
    const uint64_t wend = (uint64_t)addr + n; /* exclusive end of the request, <= 2^32 */
    n_ref_readonly += v.readonly >= 0;
    n_ref_unmapped += v.unmapped >= 0;
    touched_restore(&tb, 0);
    tb.cb_oob = 0;
    RegisterAccess a = register_block_write(&tb.t, addr, n, buf);
    mc_trans(1);
    flat_snapshot(&tb, after);
    const uint32_t touched = touched_mask(&tb);
    if (mc.verbose && mc.active) {
        mc_log("pattern %s addr=%u n=%u -> %s@%u (reference: unmapped=%ld readonly=%ld invalid=%ld range=%ld) touched=%x",
               pname, addr, n, acc(a.code), a.address, v.unmapped, v.readonly, v.invalid, v.range, touched);
        mc_log_hex("request", words, n * 2);
        if (g_hist != NULL)
            mc_log_hex("storage-before", before, total * 2);
        mc_log_hex("storage-after", after, total * 2);
    }
    bool ok = true;
    /* whether the library leaves the caller's n words as they were is not part
     * of the statement (only accesses outside them are forbidden): not checked */
    if (ok && tb.cb_oob) {
        mc_fail("C02/area-bounds", "pattern %s: an area callback was asked for words outside its area", pname);
        ok = false;
    }
    if (ok && want_ok) {
        n_accept++;
        if (a.code != REG_ACCESS_SUCCESS) {
            mc_fail("C02/accepts-valid-block", "pattern %s: admissible write refused with %s@%u", pname, acc(a.code), a.address);
            ok = false;
        } else {
            memcpy(expect, before, total * sizeof(RegisterAtom));
            size_t k = 0;
            for (int i = 0; i < tb.s.na; ++i) {
                for (uint32_t w = 0; w < tb.s.a[i].size; ++w) {
                    const uint32_t ad = tb.s.a[i].base + w;
                    if (ad >= addr && ad < wend)
                        expect[k + w] = words[ad - addr];
                }
                k += tb.s.a[i].size;
            }
            if (memcmp(after, expect, total * sizeof(RegisterAtom)) != 0) {
                mc_fail("C02/exactly-n-words-change", "pattern %s: storage after an accepted write is not old storage with the n words replaced", pname);
                ok = false;
            } else if ((touched & v.overlapped) != v.overlapped) {
                mc_fail("C02/overlapped-touched", "pattern %s: overlapped registers %x, touched %x", pname, v.overlapped, touched);
                ok = false;
            }
        }
    } else if (ok) {
        n_refuse++;
        if (a.code == REG_ACCESS_SUCCESS) {
            mc_fail(v.unmapped >= 0 ? "C02/refuses-unmapped" : v.readonly >= 0 ? "C02/refuses-readonly"
                    : v.invalid >= 0 ? "C02/refuses-undecodable" : "C02/refuses-constraint",
                    "pattern %s: inadmissible write succeeded (reference: unmapped=%ld readonly=%ld invalid=%ld range=%ld)",
                    pname, v.unmapped, v.readonly, v.invalid, v.range);
            ok = false;
        } else if (memcmp(after, before, total * sizeof(RegisterAtom)) != 0) {
            mc_fail("C02/refused-changes-nothing", "pattern %s: storage changed although the write was refused with %s", pname, acc(a.code));
            ok = false;
        } else {
            long want = -1;
            switch (a.code) {
            case REG_ACCESS_NOENTRY: want = v.unmapped; break;
            case REG_ACCESS_READONLY: want = v.readonly; break;
            case REG_ACCESS_INVALID: want = v.invalid; break;
            case REG_ACCESS_RANGE: want = v.range; break;
            default: break;
            }
            if (want < 0) {
                mc_fail("C02/failure-class", "pattern %s: refused with %s, which does not apply (reference: unmapped=%ld readonly=%ld invalid=%ld range=%ld)",
                        pname, acc(a.code), v.unmapped, v.readonly, v.invalid, v.range);
                ok = false;
            } else if ((long)a.address != want) {
                mc_fail("C02/failure-address", "pattern %s: %s reported at %u, first address of that failure inside the request is %ld",
                        pname, acc(a.code), a.address, want);
                ok = false;
            }
        }
    }
    free(buf);
    flat_restore(&tb, before);
    touched_restore(&tb, 0);
    return ok;
}

static void
run_window(uint32_t addr, uint32_t n)
{
    RegisterAtom cur[FAM_MAXADDR + 3], w[FAM_MAXADDR + 3];
    char pname[80];
    bool ok = true;
    n_accept = n_refuse = n_ref_readonly = n_ref_unmapped = 0;
    const uint64_t wend = (uint64_t)addr + n; /* exclusive end of the window, <= 2^32 */
    /* the current content is what the earlier operation (if any) left behind;
     * that operation is deterministic, so it is the same before every write */
    prepare();
    if (g_hist != NULL && g_hclass == HC_LATCHED) {
        mc_end(false, "latched-after-fault");
        return;
    }
    for (uint32_t i = 0; i < n; ++i)
        cur[i] = flat_area_of(&tb.s, addr + i) >= 0 ? flat_word(&tb, addr + i) : 0xdead;
    if (n == 0) {
        ok = one_write(addr, 0, cur, "empty");
        goto done;
    }
    /* P1 */
    for (int si = 0; si < 7 && ok; ++si) {
        for (uint32_t i = 0; i < n; ++i)
            w[i] = SYM[si];
        snprintf(pname, sizeof pname, "all-%04x", SYM[si]);
        ok = one_write(addr, n, w, pname);
    }
    /* P0: rewrite the current content */
    if (ok)
        ok = one_write(addr, n, cur, "current");
    /* P2 (without a history only: a history case spends its budget on P0, P1, P3) */
    for (uint32_t i = 0; i < n && ok && g_hist == NULL; ++i)
        for (int si = 0; si < 7 && ok; ++si) {
            if (cur[i] == SYM[si])
                continue;
            memcpy(w, cur, n * sizeof w[0]);
            w[i] = SYM[si];
            snprintf(pname, sizeof pname, "current+word%u=%04x", i, SYM[si]);
            ok = one_write(addr, n, w, pname);
        }
    /* P3 */
    for (int r = 0; r < tb.s.nr && ok; ++r) {
        const struct rspec *rs = &tb.s.r[r];
        const uint32_t rw = ref_words(rs->type);
        if ((uint64_t)rs->addr + rw <= addr || wend <= rs->addr)
            continue;
        uint64_t T[16];
        const int nt = targets(rs, T);
        for (int ti = 0; ti < nt && ok; ++ti) {
            unsigned char img[8];
            ref_image(rs->type, T[ti], tb.s.be, img);
            memcpy(w, cur, n * sizeof w[0]);
            for (uint32_t k = 0; k < rw; ++k) {
                const uint32_t a = rs->addr + k; /* a word of the register: <= 0xffffffff */
                if (a >= addr && a < wend)
                    memcpy(&w[a - addr], img + 2 * k, 2);
            }
            snprintf(pname, sizeof pname, "current+reg%d<-%016llx", r, (unsigned long long)T[ti]);
            ok = one_write(addr, n, w, pname);
        }
    }
done:
    if (!ok)
        mc_end(true, "failed");
    else if (fam_is_top(&tb.s)) {
        /* tables whose last word is 0xffffffff: own classes; "to-last-word" =
         * the window ends at 2^32 */
        const bool tl = wend == 0x100000000ull;
        if (g_hist != NULL)
            mc_end(true, g_hclass == HC_OK ? "top-hist-earlier-op-succeeded" : g_hclass == HC_REFUSED ? "top-hist-earlier-op-refused"
                   : g_hclass == HC_FAULT_REACHED ? "top-hist-earlier-op-fault-reached" : "top-hist-earlier-op-fault-not-reached");
        else if (n == 0)
            mc_end(true, "top-zero-length");
        else if (n_refuse == 0)
            mc_end(true, tl ? "top-write-ok-to-last-word" : "top-write-ok");
        else if (n_accept != 0)
            mc_end(true, tl ? "top-write-mixed-to-last-word" : "top-write-mixed");
        else if (n_ref_readonly == n_refuse && n_ref_unmapped == 0)
            mc_end(true, tl ? "top-write-refused-readonly-to-last-word" : "top-write-refused-readonly");
        else if (n_ref_unmapped == n_refuse)
            mc_end(true, "top-write-refused-unmapped");
        else
            mc_end(true, "top-write-refused-other");
    } else if (g_hist != NULL)
        mc_end(true, g_hclass == HC_OK ? "hist-earlier-op-succeeded" : g_hclass == HC_REFUSED ? "hist-earlier-op-refused"
               : g_hclass == HC_FAULT_REACHED ? "hist-earlier-op-fault-reached" : "hist-earlier-op-fault-not-reached");
    else
        mc_end(true, n == 0 ? "zero-length" : n_refuse == 0 ? "all-accepted" : n_accept == 0 ? "all-refused" : "mixed");
}

/* quick tier: which tables get the history dimension */
static bool
hist_table_quick(const struct tspec *s, bool ext)
{
    if (ext)
        return true;
    if ((s->a[0].base != 1 && !fam_is_top(s)) || s->na > 2)
        return false; /* tables straddling 2^16, three-area layout */
    if (s->na == 2 && s->a[1].base != s->a[0].base + s->a[0].size)
        return false; /* layout with a gap */
    return s->nr <= 2;
}

static bool g_ext; /* the table being run belongs to the extended family */
static bool g_init_refused; /* register_init did not accept the table being run */

static void
run_table(const struct tspec *s, int ti)
{
    tb_built = false;
    /* images: product of the registers' valid contents (<= 2 registers), or
     * one register varied at a time (longer lists) */
    int nimg = 1;
    for (int r = 0; r < s->nr; ++r)
        g_nc[r] = x_contents(&s->r[r], g_C[r]);
    if (s->nr <= 2)
        for (int r = 0; r < s->nr; ++r)
            nimg *= g_nc[r];
    else
        for (int r = 0; r < s->nr; ++r)
            nimg += g_nc[r] - 1;
    const uint32_t span = fam_span(s); /* ten addresses; top tables: from one below the first area to 0xffffffff */
    struct hist H[MAXHIST];
    int nh = 0;
    if (g_thorough || hist_table_quick(s, g_ext))
        nh = build_hists(s, H, g_thorough);
    for (int im = 0; im < nimg; ++im) {
        memset(g_sel, 0, sizeof g_sel);
        if (s->nr <= 2) {
            int x = im;
            for (int r = 0; r < s->nr; ++r) {
                g_sel[r] = x % g_nc[r];
                x /= g_nc[r];
            }
        } else if (im > 0) {
            int x = im - 1;
            for (int r = 0; r < s->nr; ++r) {
                if (x < g_nc[r] - 1) {
                    g_sel[r] = x + 1;
                    break;
                }
                x -= g_nc[r] - 1;
            }
        }
        /* history index -1: none.  Quick: histories from the first and the last image only */
        const int nh_im = (g_thorough || im == 0 || im == nimg - 1) ? nh : 0;
        for (int hi = -1; hi < nh_im; ++hi)
            for (uint32_t rel = 0; rel < span; ++rel)
                for (uint32_t n = 0; rel + n <= span; ++n) {
                    const uint32_t addr = fam_origin(s) + rel; /* <= 0xffffffff, and addr + n <= 2^32 */
                    if (!g_thorough && n > 6 && (rel + n) != span && rel != 0)
                        continue; /* quick: long windows only when they touch an end */
                    if (hi >= 0 && !g_thorough && n > 4 && (rel + n) != span && rel != 0)
                        continue; /* quick, with a history: windows up to four words and those touching an end */
                    if (!mc_would_run()) {
                        mc_skip_case(); /* descriptor not formatted for cases of other shards */
                        continue;
                    }
                    if (hi < 0) {
                        if (!mc_case("table#%d %s image=%d window=(%s,%u)", ti, tspec_str(s), im, addr_str(addr), n))
                            continue;
                    } else {
                        if (!mc_case("table#%d %s image=%d after=%s window=(%s,%u)", ti, tspec_str(s), im, hist_str(&H[hi]), addr_str(addr), n))
                            continue;
                    }
                    if (!tb_built) {
                        tab_build(&tb, s);
                        RegisterInit ri = register_init(&tb.t);
                        tb_built = true;
                        /* callback-backed areas are not cleared by init */
                        for (int i = 0; i < s->na; ++i)
                            if (s->a[i].cb && (s->a[i].nowrite || (s->a[i].flags & REG_AF_SKIP_DEFAULTS)))
                                memset(tb.store[i], 0, s->a[i].size * sizeof(RegisterAtom));
                        obj_save();
                        memset(g_words0, 0, sizeof g_words0);
                        flat_snapshot(&tb, g_words0);
                        g_init_refused = ri.code != REG_INIT_SUCCESS;
                        if (g_init_refused && mc.verbose)
                            mc_log("register_init refused the table with code %d at %u", ri.code, ri.pos.entry);
                    }
                    if (g_init_refused) {
                        /* whether initialisation accepts a table is C04's sentence;
                         * the statement here starts from a table that is in use */
                        mc_end(false, "init-refused");
                        continue;
                    }
                    g_hist = hi < 0 ? NULL : &H[hi];
                    /* a case starts from the table object as initialisation left it */
                    obj_restore();
                    flat_restore(&tb, g_words0);
                    /* establish the image out of band: every register at a valid content */
                    establish_image();
                    run_window(addr, n);
                }
    }
    if (tb_built)
        tab_free(&tb);
}

int
main(int argc, char **argv)
{
    mc_init(argc, argv);
    g_thorough = mc_thorough();
    g_ext = false;
    const int nfam = fam_enumerate(run_table, g_thorough);
    g_ext = true;
    const int nx = xfam_enumerate(run_table, nfam);
    g_ext = false;
    const int ntab = fam_enumerate_top(run_table, nx, g_thorough);
    char bound[1300];
    snprintf(bound, sizeof bound, "%d tables of the family + %d of the extended family (s32/s64/f64 singles and pairs, SKIP_DEFAULTS areas) + %d tables of the family moved to the top of the address space (last word of the layout = 0xffffffff: layouts A-D x mem/cb x LE/BE x singles at every placement, pairs, curated lists, and every access-flag combination of F2) x valid images x {no earlier operation, each earlier operation of the per-table history alphabet incl. one-fault environment operations} x windows over addresses 0..%d (top tables: every (address,length) from one below the first area up to 0xffffffff with address+length <= 2^32) x patterns P0..P3 (P2 only without an earlier operation)%s",
             nfam, nx - nfam, ntab - nx, FAM_MAXADDR,
             g_thorough ? "" : " (quick: adjacent pairs only, long interior windows skipped; histories on the extended family and on the one-/two-register tables of the gap-free layouts, first and last image, windows <= 4 words or touching an end, first/last register)");
    mc_finish(true, bound);
    return 0;
}
