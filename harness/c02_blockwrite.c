/*
 * C02 -- block writes are validated as a whole and are all-or-nothing.
 *
 * Space: table family (regfam.h) x reachable valid images (every register at
 * each of its valid contents) x every (address, length) window over addresses
 * 0..9 x word patterns (all-equal symbols; current content with one word
 * replaced; current content with the overlapped part of one register replaced
 * by each of its boundary / undecodable values).  Oracle: flat address-space
 * model (regtab.h).
 */
#include "mc.h"
#include "regfam.h"

static const RegisterAtom SYM[7] = { 0x0000, 0xffff, 0x7fff, 0x8000, 0x7f80, 0x7fc0, 0x0001 };

static struct tab tb;
static bool tb_built;
static bool g_thorough;

static const char *
acc(RegisterAccessCode c)
{
    static const char *n[] = { "SUCCESS", "FAILURE", "UNINITIALISED", "NOENTRY", "RANGE", "INVALID", "READONLY", "IO_ERROR" };
    return (unsigned)c < 8 ? n[c] : "?";
}

/* target raw patterns for register r (P3) */
static int
targets(const struct rspec *r, uint64_t out[16])
{
    const RegisterType t = r->type;
    const unsigned w = ref_words(t) * 16;
    const uint64_t m = w == 64 ? ~0ull : ((1ull << w) - 1);
    int n = 0;
    if (t == REG_TYPE_FLOAT32) {
        float lo = r->lo.f32, hi = r->hi.f32, x;
        uint32_t b;
        x = lo; memcpy(&b, &x, 4); out[n++] = b;
        x = nextafterf(lo, -INFINITY); memcpy(&b, &x, 4); out[n++] = b;
        x = hi; memcpy(&b, &x, 4); out[n++] = b;
        x = nextafterf(hi, INFINITY); memcpy(&b, &x, 4); out[n++] = b;
        out[n++] = 0x00000000; out[n++] = 0x80000000; out[n++] = 0x7fc00000; out[n++] = 0x7f800000;
        out[n++] = 0xff800000; out[n++] = 0x00000001; out[n++] = 0x807fffff; out[n++] = 0x3fc00000;
        out[n++] = 0xbfc00000; out[n++] = 0x7f7fffff;
    } else {
        const uint64_t lo = ref_bits(t, r->lo), hi = ref_bits(t, r->hi);
        out[n++] = (lo - 1) & m; out[n++] = lo; out[n++] = (lo + 1) & m;
        out[n++] = (hi - 1) & m; out[n++] = hi; out[n++] = (hi + 1) & m;
        out[n++] = 0; out[n++] = 1; out[n++] = 2; out[n++] = m; out[n++] = m >> 1; out[n++] = (m >> 1) + 1;
    }
    return n;
}

static long n_accept, n_refuse;

/* one block write with the given words; storage and touched marks are
 * restored afterwards.  Returns false after a failure was recorded. */
static bool
one_write(uint32_t addr, uint32_t n, const RegisterAtom *words, const char *pname)
{
    RegisterAtom before[RT_MAXW], after[RT_MAXW], expect[RT_MAXW];
    const size_t total = flat_snapshot(&tb, before);
    RegisterAtom *buf = mc_exact_copy(words, n * sizeof(RegisterAtom));
    struct verdict v;
    flat_write_verdict(&tb, addr, n, buf, &v);
    const bool want_ok = v.unmapped < 0 && v.readonly < 0 && v.invalid < 0 && v.range < 0;
    touched_restore(&tb, 0);
    tb.cb_oob = 0;
    RegisterAccess a = register_block_write(&tb.t, addr, n, buf);
    mc_trans(1);
    flat_snapshot(&tb, after);
    const uint32_t touched = touched_mask(&tb);
    if (mc.verbose && mc.active) {
        mc_log("pattern %s addr=%u n=%u -> %s@%u (reference: unmapped=%ld readonly=%ld invalid=%ld range=%ld) touched=%x",
               pname, addr, n, acc(a.code), a.address, v.unmapped, v.readonly, v.invalid, v.range, touched);
        mc_log_hex("request", words, n * 2);
        mc_log_hex("storage-after", after, total * 2);
    }
    bool ok = true;
    /* whether the library leaves the caller's n words as they were is not part
     * of the statement (only accesses outside them are forbidden): not checked */
    if (ok && tb.cb_oob) {
        mc_fail("C02/area-bounds", "pattern %s: an area callback was asked for words outside its area", pname);
        ok = false;
    }
    if (ok && want_ok) {
        n_accept++;
        if (a.code != REG_ACCESS_SUCCESS) {
            mc_fail("C02/accepts-valid-block", "pattern %s: admissible write refused with %s@%u", pname, acc(a.code), a.address);
            ok = false;
        } else {
            memcpy(expect, before, total * sizeof(RegisterAtom));
            size_t k = 0;
            for (int i = 0; i < tb.s.na; ++i) {
                for (uint32_t w = 0; w < tb.s.a[i].size; ++w) {
                    const uint32_t ad = tb.s.a[i].base + w;
                    if (ad >= addr && ad < addr + n)
                        expect[k + w] = words[ad - addr];
                }
                k += tb.s.a[i].size;
            }
            if (memcmp(after, expect, total * sizeof(RegisterAtom)) != 0) {
                mc_fail("C02/exactly-n-words-change", "pattern %s: storage after an accepted write is not old storage with the n words replaced", pname);
                ok = false;
            } else if ((touched & v.overlapped) != v.overlapped) {
                mc_fail("C02/overlapped-touched", "pattern %s: overlapped registers %x, touched %x", pname, v.overlapped, touched);
                ok = false;
            }
        }
    } else if (ok) {
        n_refuse++;
        if (a.code == REG_ACCESS_SUCCESS) {
            mc_fail(v.unmapped >= 0 ? "C02/refuses-unmapped" : v.readonly >= 0 ? "C02/refuses-readonly"
                    : v.invalid >= 0 ? "C02/refuses-undecodable" : "C02/refuses-constraint",
                    "pattern %s: inadmissible write succeeded (reference: unmapped=%ld readonly=%ld invalid=%ld range=%ld)",
                    pname, v.unmapped, v.readonly, v.invalid, v.range);
            ok = false;
        } else if (memcmp(after, before, total * sizeof(RegisterAtom)) != 0) {
            mc_fail("C02/refused-changes-nothing", "pattern %s: storage changed although the write was refused with %s", pname, acc(a.code));
            ok = false;
        } else {
            long want = -1;
            switch (a.code) {
            case REG_ACCESS_NOENTRY: want = v.unmapped; break;
            case REG_ACCESS_READONLY: want = v.readonly; break;
            case REG_ACCESS_INVALID: want = v.invalid; break;
            case REG_ACCESS_RANGE: want = v.range; break;
            default: break;
            }
            if (want < 0) {
                mc_fail("C02/failure-class", "pattern %s: refused with %s, which does not apply (reference: unmapped=%ld readonly=%ld invalid=%ld range=%ld)",
                        pname, acc(a.code), v.unmapped, v.readonly, v.invalid, v.range);
                ok = false;
            } else if ((long)a.address != want) {
                mc_fail("C02/failure-address", "pattern %s: %s reported at %u, first address of that failure inside the request is %ld",
                        pname, acc(a.code), a.address, want);
                ok = false;
            }
        }
    }
    free(buf);
    flat_restore(&tb, before);
    touched_restore(&tb, 0);
    return ok;
}

static void
run_window(uint32_t addr, uint32_t n)
{
    RegisterAtom cur[FAM_MAXADDR + 3], w[FAM_MAXADDR + 3];
    char pname[80];
    bool ok = true;
    n_accept = n_refuse = 0;
    for (uint32_t i = 0; i < n; ++i)
        cur[i] = flat_area_of(&tb.s, addr + i) >= 0 ? flat_word(&tb, addr + i) : 0xdead;
    if (n == 0) {
        ok = one_write(addr, 0, cur, "empty");
        mc_end(true, ok ? "zero-length" : "failed");
        return;
    }
    /* P1 */
    for (int si = 0; si < 7 && ok; ++si) {
        for (uint32_t i = 0; i < n; ++i)
            w[i] = SYM[si];
        snprintf(pname, sizeof pname, "all-%04x", SYM[si]);
        ok = one_write(addr, n, w, pname);
    }
    /* P0: rewrite the current content */
    if (ok)
        ok = one_write(addr, n, cur, "current");
    /* P2 */
    for (uint32_t i = 0; i < n && ok; ++i)
        for (int si = 0; si < 7 && ok; ++si) {
            if (cur[i] == SYM[si])
                continue;
            memcpy(w, cur, n * sizeof w[0]);
            w[i] = SYM[si];
            snprintf(pname, sizeof pname, "current+word%u=%04x", i, SYM[si]);
            ok = one_write(addr, n, w, pname);
        }
    /* P3 */
    for (int r = 0; r < tb.s.nr && ok; ++r) {
        const struct rspec *rs = &tb.s.r[r];
        const uint32_t rw = ref_words(rs->type);
        if (rs->addr + rw <= addr || addr + n <= rs->addr)
            continue;
        uint64_t T[16];
        const int nt = targets(rs, T);
        for (int ti = 0; ti < nt && ok; ++ti) {
            unsigned char img[8];
            ref_image(rs->type, T[ti], tb.s.be, img);
            memcpy(w, cur, n * sizeof w[0]);
            for (uint32_t k = 0; k < rw; ++k) {
                const uint32_t a = rs->addr + k;
                if (a >= addr && a < addr + n)
                    memcpy(&w[a - addr], img + 2 * k, 2);
            }
            snprintf(pname, sizeof pname, "current+reg%d<-%016llx", r, (unsigned long long)T[ti]);
            ok = one_write(addr, n, w, pname);
        }
    }
    mc_end(true, !ok ? "failed" : n_refuse == 0 ? "all-accepted" : n_accept == 0 ? "all-refused" : "mixed");
}

static void
run_table(const struct tspec *s, int ti)
{
    tb_built = false;
    /* images: product of the registers' valid contents (<= 2 registers), or
     * one register varied at a time (longer lists) */
    uint64_t C[RT_MAXR][3];
    int nc[RT_MAXR];
    int nimg = 1;
    for (int r = 0; r < s->nr; ++r)
        nc[r] = fam_contents(&s->r[r], C[r]);
    if (s->nr <= 2)
        for (int r = 0; r < s->nr; ++r)
            nimg *= nc[r];
    else
        for (int r = 0; r < s->nr; ++r)
            nimg += nc[r] - 1;
    for (int im = 0; im < nimg; ++im) {
        int sel[RT_MAXR] = { 0 };
        if (s->nr <= 2) {
            int x = im;
            for (int r = 0; r < s->nr; ++r) {
                sel[r] = x % nc[r];
                x /= nc[r];
            }
        } else if (im > 0) {
            int x = im - 1;
            for (int r = 0; r < s->nr; ++r) {
                if (x < nc[r] - 1) {
                    sel[r] = x + 1;
                    break;
                }
                x -= nc[r] - 1;
            }
        }
        for (uint32_t rel = 0; rel <= FAM_MAXADDR; ++rel)
            for (uint32_t n = 0; rel + n <= FAM_MAXADDR + 1; ++n) {
                const uint32_t addr = fam_origin(s) + rel;
                if (!g_thorough && n > 6 && (rel + n) != FAM_MAXADDR + 1 && rel != 0)
                    continue; /* quick: long windows only when they touch an end */
                if (!mc_case("table#%d %s image=%d window=(%u,%u)", ti, tspec_str(s), im, addr, n))
                    continue;
                if (!tb_built) {
                    tab_build(&tb, s);
                    RegisterInit ri = register_init(&tb.t);
                    tb_built = true;
                    if (ri.code != REG_INIT_SUCCESS) {
                        mc_fail("C02/setup-init", "register_init of a well-formed table failed with code %d at %u", ri.code, ri.pos.entry);
                        mc_end(false, "init-failed");
                        continue;
                    }
                    /* callback-backed areas are not cleared by init */
                    for (int i = 0; i < s->na; ++i)
                        if (s->a[i].cb && (s->a[i].nowrite || (s->a[i].flags & REG_AF_SKIP_DEFAULTS)))
                            memset(tb.store[i], 0, s->a[i].size * sizeof(RegisterAtom));
                }
                if (!(tb.t.flags & REG_TF_INITIALISED)) {
                    mc_fail("C02/setup-init", "table not initialised");
                    mc_end(false, "init-failed");
                    continue;
                }
                /* establish the image out of band: every register at a valid content */
                for (int r = 0; r < s->nr; ++r) {
                    unsigned char img[8];
                    ref_image(s->r[r].type, C[r][sel[r]], s->be, img);
                    const int ai = flat_area_of(s, s->r[r].addr);
                    memcpy(tb.store[ai] + (s->r[r].addr - s->a[ai].base), img, ref_words(s->r[r].type) * 2);
                }
                run_window(addr, n);
            }
    }
    if (tb_built)
        tab_free(&tb);
}

int
main(int argc, char **argv)
{
    mc_init(argc, argv);
    g_thorough = mc_thorough();
    const int ntab = fam_enumerate(run_table, g_thorough);
    char bound[200];
    snprintf(bound, sizeof bound, "%d tables of the family x valid images x windows over addresses 0..%d x patterns P0..P3%s",
             ntab, FAM_MAXADDR, g_thorough ? "" : " (quick: adjacent pairs only, long interior windows skipped)");
    mc_finish(true, bound);
    return 0;
}
